//! Real discret services wired in-process: peers, links, clock, fences, snapshots.

use discret::verif as dv;
use dv::configuration::Configuration;
use dv::database::edge::{Edge, EdgeDeletionEntry};
use dv::database::graph_database::{DbMessage, GraphDatabaseService};
use dv::database::node::{Node, NodeDeletionEntry};
use dv::database::room::Room;
use dv::database::sqlite_database::Writeable;
use dv::discret::DiscretServices;
use dv::event_service::EventService;
use dv::peer_connection_service::{PeerConnectionMessage, PeerConnectionService};
use dv::security::{derive_key, Ed25519SigningKey, HardwareFingerprint, SigningKey, Uid};
use dv::signature_verification_service::SignatureVerificationService;
use dv::synchronisation::peer_inbound_service::{LocalPeerService, QueryService};
use dv::synchronisation::peer_outbound_service::{InboundQueryService, RemotePeerHandle};
use dv::synchronisation::{Answer, Query, QueryProtocol};

use rusqlite::Connection;
use std::collections::{BTreeMap, HashMap, HashSet, VecDeque};
use std::path::PathBuf;
use std::sync::atomic::AtomicBool;
use std::sync::{Arc, Mutex as StdMutex};
use tokio::sync::{mpsc, oneshot, Mutex};

pub use discret::{Parameters, ParametersAdd};

pub const APP: &str = "dv verification app";
pub const DAY: i64 = 86_400_000;
/// 2024-01-01T00:00:00Z
pub const T0: i64 = 1_704_067_200_000;

/// the process-global virtual clock (hook H2)
pub struct Clock;
impl Clock {
    pub fn set(t: i64) {
        dv::set_clock(t);
    }
    pub fn get() -> i64 {
        dv::clock().expect("clock installed")
    }
    pub fn advance(dt: i64) -> i64 {
        let t = Self::get() + dt;
        dv::set_clock(t);
        t
    }
}

/// install clock and deterministic ids for a case
pub fn begin_case(seed: u64) {
    dv::set_clock(T0);
    dv::set_uid_seed(seed | 1);
    dv::set_fault_plan(None);
}

pub fn runtime() -> tokio::runtime::Runtime {
    tokio::runtime::Builder::new_multi_thread()
        .worker_threads(2)
        .enable_all()
        .build()
        .unwrap()
}

pub fn config() -> Configuration {
    Configuration {
        parallelism: 1,
        enable_multicast: false,
        enable_beacons: false,
        ..Configuration::default()
    }
}

pub fn secret_for(name: &str) -> [u8; 32] {
    *blake3::hash(format!("dv secret {}", name).as_bytes()).as_bytes()
}

pub fn signing_key_for_secret(secret: &[u8; 32]) -> Ed25519SigningKey {
    let signature_key = derive_key(&format!("{} SIGNING_KEY", APP), secret);
    Ed25519SigningKey::create_from(&signature_key)
}

pub fn b64(data: &[u8]) -> String {
    discret::base64_encode(data)
}
pub fn unb64(s: &str) -> Vec<u8> {
    discret::base64_decode(s.as_bytes()).expect("base64")
}
pub fn uid_of(s: &str) -> Uid {
    dv::security::uid_decode(s).expect("uid")
}

pub struct Peer {
    pub name: String,
    pub secret: [u8; 32],
    pub signing_key: Ed25519SigningKey,
    pub verifying_key: Vec<u8>,
    pub db: GraphDatabaseService,
    pub events: EventService,
    pub sigs: SignatureVerificationService,
    pub private_room: Uid,
    pub dir: PathBuf,
    pub peer_service: PeerConnectionService,
    pub new_peers: Arc<StdMutex<Vec<Node>>>,
}

impl Peer {
    pub async fn start(name: &str, model: &str, dir: PathBuf) -> Result<Peer, String> {
        Self::start_with(name, model, dir, &config()).await
    }

    pub async fn start_with(
        name: &str,
        model: &str,
        dir: PathBuf,
        configuration: &Configuration,
    ) -> Result<Peer, String> {
        Self::start_full(name, model, dir, configuration, None).await
    }

    /// `meeting_pub_key`: the x25519 public key stored in the instance's own sys.Peer row
    /// (C19 passes the real meeting secret's public key; other checks do not use it)
    pub async fn start_full(
        name: &str,
        model: &str,
        dir: PathBuf,
        configuration: &Configuration,
        meeting_pub_key: Option<[u8; 32]>,
    ) -> Result<Peer, String> {
        std::fs::create_dir_all(&dir).map_err(|e| e.to_string())?;
        let secret = secret_for(name);
        let signing_key = signing_key_for_secret(&secret);
        let pub_key = meeting_pub_key
            .unwrap_or_else(|| *blake3::hash(format!("dv pubkey {}", name).as_bytes()).as_bytes());
        let events = EventService::new();
        let (db, verifying_key, private_room) = GraphDatabaseService::start(
            APP,
            model,
            &secret,
            &pub_key,
            dir.clone(),
            configuration,
            events.clone(),
        )
        .await
        .map_err(|e| format!("start {}: {}", name, e))?;
        let sigs = SignatureVerificationService::start(1);
        let (sender, mut receiver) = mpsc::channel::<PeerConnectionMessage>(64);
        let new_peers = Arc::new(StdMutex::new(Vec::new()));
        let np = new_peers.clone();
        tokio::spawn(async move {
            while let Some(msg) = receiver.recv().await {
                if let PeerConnectionMessage::NewPeer(nodes) = msg {
                    np.lock().unwrap().extend(nodes);
                }
            }
        });
        assert_eq!(verifying_key, signing_key.export_verifying_key());
        Ok(Peer {
            name: name.to_string(),
            secret,
            signing_key,
            verifying_key,
            db,
            events,
            sigs,
            private_room,
            dir,
            peer_service: PeerConnectionService { sender },
            new_peers,
        })
    }

    pub fn key64(&self) -> String {
        b64(&self.verifying_key)
    }

    pub fn services(&self) -> DiscretServices {
        DiscretServices {
            events: self.events.clone(),
            database: self.db.clone(),
            signature_verification: self.sigs.clone(),
        }
    }

    /// run read-only SQL on a reader connection of the instance
    pub async fn sql<T: Send + 'static>(
        &self,
        f: impl FnOnce(&Connection) -> T + Send + 'static,
    ) -> T {
        let (tx, rx) = oneshot::channel::<T>();
        self.db
            .db
            .reader
            .send_async(Box::new(move |conn| {
                let _ = tx.send(f(conn));
            }))
            .await
            .expect("reader alive");
        rx.await.expect("reader answered")
    }

    /// run a statement group on the single writer, inside a batch transaction
    pub async fn write_sql(
        &self,
        f: impl FnMut(&Connection) -> Result<(), rusqlite::Error> + Send + 'static,
    ) -> Result<(), String> {
        struct W<F>(F);
        impl<F: FnMut(&Connection) -> Result<(), rusqlite::Error> + Send> Writeable for W<F> {
            fn write(&mut self, conn: &Connection) -> Result<(), rusqlite::Error> {
                (self.0)(conn)
            }
        }
        self.db
            .db
            .writer
            .write(Box::new(W(f)))
            .await
            .map(|_| ())
            .map_err(|e| e.to_string())
    }

    /// deterministic quiescence: every message submitted before the call has been fully processed,
    /// pending daily-log recomputations have run and their events have been broadcast.
    pub async fn fence(&self) {
        for _ in 0..2 {
            let _ = self.db.datamodel().await;
            let _ = self.write_sql(|_| Ok(())).await;
        }
        let _ = self.db.datamodel().await;
        let _ = self.events.subcribe().await;
    }

    /// explicit recomputation request followed by a fence
    pub async fn recompute(&self) {
        let _ = self.db.sender.send(DbMessage::ComputeDailyLog()).await;
        self.fence().await;
    }

    /// the in-memory room as the authorisation actor holds it (hook H7)
    pub async fn room(&self, id: Uid) -> Option<Room> {
        let (tx, rx) = oneshot::channel();
        let _ = self
            .db
            .auth
            .send(dv::database::authorisation_service::AuthorisationMessage::VerifRoom(id, tx))
            .await;
        rx.await.ok().flatten()
    }

    pub async fn mutate(&self, q: &str, p: Option<Parameters>) -> Result<String, String> {
        self.db.mutate(q, p).await.map_err(|e| e.to_string())
    }
    pub async fn query(&self, q: &str, p: Option<Parameters>) -> Result<String, String> {
        self.db.query(q, p).await.map_err(|e| e.to_string())
    }
    pub async fn delete(&self, q: &str, p: Option<Parameters>) -> Result<(), String> {
        self.db.delete(q, p).await.map(|_| ()).map_err(|e| e.to_string())
    }
}

// ---------------------------------------------------------------------------------------------
// snapshots
// ---------------------------------------------------------------------------------------------

#[derive(Clone, Debug, PartialEq, Eq, PartialOrd, Ord, serde::Serialize)]
pub struct NodeRow {
    pub id: String,
    pub room: Option<String>,
    pub cdate: i64,
    pub mdate: i64,
    pub entity: String,
    pub json: Option<String>,
    pub key: String,
    pub sig: String,
}
#[derive(Clone, Debug, PartialEq, Eq, PartialOrd, Ord, serde::Serialize)]
pub struct EdgeRow {
    pub src: String,
    pub src_entity: String,
    pub label: String,
    pub dest: String,
    pub cdate: i64,
    pub key: String,
    pub sig: String,
}
#[derive(Clone, Debug, PartialEq, Eq, PartialOrd, Ord, serde::Serialize)]
pub struct NodeDelRow {
    pub room: String,
    pub id: String,
    pub entity: String,
    pub mdate: i64,
    pub deletion_date: i64,
    pub key: String,
    pub sig: String,
}
#[derive(Clone, Debug, PartialEq, Eq, PartialOrd, Ord, serde::Serialize)]
pub struct EdgeDelRow {
    pub room: String,
    pub src: String,
    pub src_entity: String,
    pub dest: String,
    pub label: String,
    pub cdate: i64,
    pub deletion_date: i64,
    pub key: String,
    pub sig: String,
}
#[derive(Clone, Debug, PartialEq, Eq, PartialOrd, Ord, serde::Serialize)]
pub struct LogRow {
    pub room: String,
    pub entity: String,
    pub date: i64,
    pub entry_number: i64,
    pub daily_hash: Option<String>,
    pub history_hash: Option<String>,
    pub need_recompute: Option<i64>,
}

#[derive(Clone, Debug, Default, PartialEq, Eq, serde::Serialize)]
pub struct Snapshot {
    pub nodes: Vec<NodeRow>,
    pub edges: Vec<EdgeRow>,
    pub node_dels: Vec<NodeDelRow>,
    pub edge_dels: Vec<EdgeDelRow>,
    pub log: Vec<LogRow>,
}

fn hexo(v: Option<Vec<u8>>) -> Option<String> {
    v.map(|v| b64(&v))
}

/// full dump of the data tables (sorted, so that two dumps compare by value)
pub fn snapshot_conn(conn: &Connection) -> Result<Snapshot, rusqlite::Error> {
    let mut s = Snapshot::default();
    {
        let mut st = conn.prepare(
            "SELECT id, room_id, cdate, mdate, _entity, _json, verifying_key, _signature FROM _node",
        )?;
        let mut rows = st.query([])?;
        while let Some(r) = rows.next()? {
            s.nodes.push(NodeRow {
                id: b64(&r.get::<_, Vec<u8>>(0)?),
                room: hexo(r.get(1)?),
                cdate: r.get(2)?,
                mdate: r.get(3)?,
                entity: r.get(4)?,
                json: r.get(5)?,
                key: b64(&r.get::<_, Vec<u8>>(6)?),
                sig: b64(&r.get::<_, Vec<u8>>(7)?),
            });
        }
    }
    {
        let mut st = conn.prepare(
            "SELECT src, src_entity, label, dest, cdate, verifying_key, signature FROM _edge",
        )?;
        let mut rows = st.query([])?;
        while let Some(r) = rows.next()? {
            s.edges.push(EdgeRow {
                src: b64(&r.get::<_, Vec<u8>>(0)?),
                src_entity: r.get(1)?,
                label: r.get(2)?,
                dest: b64(&r.get::<_, Vec<u8>>(3)?),
                cdate: r.get(4)?,
                key: b64(&r.get::<_, Vec<u8>>(5)?),
                sig: b64(&r.get::<_, Vec<u8>>(6)?),
            });
        }
    }
    {
        let mut st = conn.prepare(
            "SELECT room_id, id, entity, mdate, deletion_date, verifying_key, signature FROM _node_deletion_log",
        )?;
        let mut rows = st.query([])?;
        while let Some(r) = rows.next()? {
            s.node_dels.push(NodeDelRow {
                room: b64(&r.get::<_, Vec<u8>>(0)?),
                id: b64(&r.get::<_, Vec<u8>>(1)?),
                entity: r.get(2)?,
                mdate: r.get(3)?,
                deletion_date: r.get(4)?,
                key: b64(&r.get::<_, Vec<u8>>(5)?),
                sig: b64(&r.get::<_, Vec<u8>>(6)?),
            });
        }
    }
    {
        let mut st = conn.prepare(
            "SELECT room_id, src, src_entity, dest, label, cdate, deletion_date, verifying_key, signature FROM _edge_deletion_log",
        )?;
        let mut rows = st.query([])?;
        while let Some(r) = rows.next()? {
            s.edge_dels.push(EdgeDelRow {
                room: b64(&r.get::<_, Vec<u8>>(0)?),
                src: b64(&r.get::<_, Vec<u8>>(1)?),
                src_entity: r.get(2)?,
                dest: b64(&r.get::<_, Vec<u8>>(3)?),
                label: r.get(4)?,
                cdate: r.get(5)?,
                deletion_date: r.get(6)?,
                key: b64(&r.get::<_, Vec<u8>>(7)?),
                sig: b64(&r.get::<_, Vec<u8>>(8)?),
            });
        }
    }
    {
        let mut st = conn.prepare(
            "SELECT room_id, entity, date, entry_number, daily_hash, history_hash, need_recompute FROM _daily_log",
        )?;
        let mut rows = st.query([])?;
        while let Some(r) = rows.next()? {
            s.log.push(LogRow {
                room: b64(&r.get::<_, Vec<u8>>(0)?),
                entity: r.get(1)?,
                date: r.get(2)?,
                entry_number: r.get(3)?,
                daily_hash: hexo(r.get(4)?),
                history_hash: hexo(r.get(5)?),
                need_recompute: r.get(6)?,
            });
        }
    }
    s.nodes.sort();
    s.edges.sort();
    s.node_dels.sort();
    s.edge_dels.sort();
    s.log.sort();
    Ok(s)
}

impl Peer {
    pub async fn snapshot(&self) -> Snapshot {
        self.sql(|c| snapshot_conn(c).expect("snapshot")).await
    }
}

impl Snapshot {
    /// restriction to one room: nodes of the room, edges whose source node is in the room,
    /// deletion records and log rows of the room
    pub fn for_room(&self, room: &str) -> Snapshot {
        let ids: HashSet<&String> = self
            .nodes
            .iter()
            .filter(|n| n.room.as_deref() == Some(room))
            .map(|n| &n.id)
            .collect();
        Snapshot {
            nodes: self
                .nodes
                .iter()
                .filter(|n| n.room.as_deref() == Some(room))
                .cloned()
                .collect(),
            edges: self.edges.iter().filter(|e| ids.contains(&e.src)).cloned().collect(),
            node_dels: self.node_dels.iter().filter(|d| d.room == room).cloned().collect(),
            edge_dels: self.edge_dels.iter().filter(|d| d.room == room).cloned().collect(),
            log: self.log.iter().filter(|l| l.room == room).cloned().collect(),
        }
    }
    /// entities whose short name does not start with "0." (the system namespace)
    pub fn user_data(&self) -> Snapshot {
        let sys = |e: &str| e.starts_with("0.");
        let ids: HashSet<&String> = self.nodes.iter().filter(|n| !sys(&n.entity)).map(|n| &n.id).collect();
        Snapshot {
            nodes: self.nodes.iter().filter(|n| !sys(&n.entity)).cloned().collect(),
            edges: self.edges.iter().filter(|e| ids.contains(&e.src) || !sys(&e.src_entity)).cloned().collect(),
            node_dels: self.node_dels.iter().filter(|d| !sys(&d.entity)).cloned().collect(),
            edge_dels: self.edge_dels.iter().filter(|d| !sys(&d.src_entity)).cloned().collect(),
            log: self.log.iter().filter(|l| !sys(&l.entity)).cloned().collect(),
        }
    }
    /// what queries and the deletion logs can observe: full node rows, live references
    /// (both ends stored) reduced to (src, label, dest), deletion records
    pub fn observable(&self) -> Snapshot {
        let ids: HashSet<&String> = self.nodes.iter().map(|n| &n.id).collect();
        let mut s = self.clone();
        s.log.clear();
        s.edges = self
            .edges
            .iter()
            .filter(|e| ids.contains(&e.src) && ids.contains(&e.dest))
            .map(|e| EdgeRow {
                src: e.src.clone(),
                src_entity: e.src_entity.clone(),
                label: e.label.clone(),
                dest: e.dest.clone(),
                cdate: 0,
                key: String::new(),
                sig: String::new(),
            })
            .collect();
        s.edges.sort();
        s
    }
    pub fn without_log(&self) -> Snapshot {
        let mut s = self.clone();
        s.log.clear();
        s
    }
}

// ---------------------------------------------------------------------------------------------
// link: the puller's real QueryService connected to the server's real process_inbound
// ---------------------------------------------------------------------------------------------

#[derive(Default, Debug, Clone)]
pub struct LinkStats {
    pub queries: BTreeMap<String, u64>,
    pub nodes: u64,
    pub edges: u64,
    pub node_deletions: u64,
    pub edge_deletions: u64,
    pub answers: u64,
    pub sync_errors: Vec<String>,
    pub rooms: Vec<Uid>,
    pub node_ids: Vec<Uid>,
}
impl LinkStats {
    pub fn rows(&self) -> u64 {
        self.nodes + self.edges + self.node_deletions + self.edge_deletions
    }
}

fn query_kind(q: &Query) -> &'static str {
    match q {
        Query::ProveIdentity(_) => "ProveIdentity",
        Query::HardwareFingerprint() => "HardwareFingerprint",
        Query::RoomList => "RoomList",
        Query::RoomDefinition(_) => "RoomDefinition",
        Query::RoomNode(_) => "RoomNode",
        Query::RoomLog(_) => "RoomLog",
        Query::RoomLogAt(_, _) => "RoomLogAt",
        Query::EdgeDeletionLog(_, _, _) => "EdgeDeletionLog",
        Query::NodeDeletionLog(_, _, _) => "NodeDeletionLog",
        Query::RoomDailyNodes(_, _, _) => "RoomDailyNodes",
        Query::Nodes(_, _) => "Nodes",
        Query::Edges(_, _) => "Edges",
        Query::PeersForRoom(_) => "PeersForRoom",
    }
}

#[derive(Clone, Debug, Default)]
pub struct PullOptions {
    /// cut the connection after this many answers have been relayed to the puller
    pub cut_after: Option<u64>,
    /// only these rooms (default: every room the server lists)
    pub only_rooms: Option<Vec<Uid>>,
    /// the key the server believes the puller has (default: the puller's own key)
    pub as_key: Option<Vec<u8>>,
}

/// one directed synchronisation: `puller` pulls every room `server` lists for it
pub async fn pull(puller: &Peer, server: &Peer, opts: &PullOptions) -> LinkStats {
    let stats = Arc::new(StdMutex::new(LinkStats::default()));

    let (inner_a_tx, mut inner_a_rx) = mpsc::channel::<Answer>(16);
    let remote_key = opts.as_key.clone().unwrap_or_else(|| puller.verifying_key.clone());
    let mut handle = RemotePeerHandle {
        allowed_room: HashSet::new(),
        db: server.db.clone(),
        verifying_key: server.verifying_key.clone(),
        reply: inner_a_tx,
    };
    let key = Arc::new(Mutex::new(remote_key));
    let ready = Arc::new(AtomicBool::new(true));
    let fingerprint = HardwareFingerprint {
        id: [7; 16],
        name: "dv".to_string(),
    };

    // room list through the real serving code (this fills allowed_room like a real connection)
    let rl = InboundQueryService::process_inbound(
        QueryProtocol {
            id: u64::MAX,
            query: Query::RoomList,
        },
        &mut handle,
        &key,
        &ready,
        &fingerprint,
    );
    let mut rooms: Vec<Uid> = Vec::new();
    {
        // the answers are produced while process_inbound runs: drain concurrently
        let drain = async {
            let mut out: Vec<Uid> = Vec::new();
            while let Some(a) = inner_a_rx.recv().await {
                if a.complete {
                    break;
                }
                if a.success {
                    if let Ok(v) = bincode::deserialize::<VecDeque<Uid>>(&a.serialized) {
                        out.extend(v);
                    }
                }
            }
            out
        };
        let (res, list) = tokio::join!(rl, drain);
        if let Err(e) = res {
            stats.lock().unwrap().sync_errors.push(format!("RoomList: {}", e));
        }
        rooms.extend(list);
    }
    if let Some(only) = &opts.only_rooms {
        rooms.retain(|r| only.contains(r));
    }
    stats.lock().unwrap().rooms = rooms.clone();

    let (q_tx, mut q_rx) = mpsc::channel::<QueryProtocol>(16);
    let (a_tx, a_rx) = mpsc::channel::<Answer>(16);
    let qs = QueryService::start(q_tx, a_rx);

    let kinds: Arc<StdMutex<HashMap<u64, &'static str>>> = Arc::new(StdMutex::new(HashMap::new()));

    // serving task
    let st = stats.clone();
    let kinds_s = kinds.clone();
    let server_task = tokio::spawn(async move {
        while let Some(msg) = q_rx.recv().await {
            let kind = query_kind(&msg.query);
            kinds_s.lock().unwrap().insert(msg.id, kind);
            *st.lock().unwrap().queries.entry(kind.to_string()).or_insert(0) += 1;
            if let Err(e) =
                InboundQueryService::process_inbound(msg, &mut handle, &key, &ready, &fingerprint).await
            {
                st.lock().unwrap().sync_errors.push(format!("serve {}: {}", kind, e));
                break;
            }
        }
    });

    // relay task (counts rows, may cut the connection)
    let st = stats.clone();
    let cut_after = opts.cut_after;
    let relay_task = tokio::spawn(async move {
        let mut relayed = 0u64;
        while let Some(a) = inner_a_rx.recv().await {
            if let Some(n) = cut_after {
                if relayed >= n {
                    break;
                }
            }
            relayed += 1;
            {
                let kind = kinds.lock().unwrap().get(&a.id).copied().unwrap_or("?");
                let mut st = st.lock().unwrap();
                st.answers += 1;
                if a.success && !a.complete {
                    match kind {
                        "Nodes" => {
                            if let Ok(v) = bincode::deserialize::<Vec<Node>>(&a.serialized) {
                                st.nodes += v.len() as u64;
                                for n in v {
                                    st.node_ids.push(n.id);
                                }
                            }
                        }
                        "Edges" => {
                            if let Ok(v) = bincode::deserialize::<Vec<Edge>>(&a.serialized) {
                                st.edges += v.len() as u64;
                            }
                        }
                        "NodeDeletionLog" => {
                            if let Ok(v) = bincode::deserialize::<Vec<NodeDeletionEntry>>(&a.serialized) {
                                st.node_deletions += v.len() as u64;
                            }
                        }
                        "EdgeDeletionLog" => {
                            if let Ok(v) = bincode::deserialize::<Vec<EdgeDeletionEntry>>(&a.serialized) {
                                st.edge_deletions += v.len() as u64;
                            }
                        }
                        _ => {}
                    }
                }
            }
            if a_tx.send(a).await.is_err() {
                break;
            }
        }
    });

    let services = puller.services();
    for room in rooms {
        let r = LocalPeerService::verif_synchronise_room(room, &qs, puller.peer_service.clone(), &services).await;
        if let Err(e) = r {
            stats.lock().unwrap().sync_errors.push(format!("{}", e));
        }
    }
    drop(qs);
    server_task.abort();
    relay_task.abort();
    let _ = server_task.await;
    let _ = relay_task.await;
    puller.fence().await;
    let s = stats.lock().unwrap().clone();
    s
}
