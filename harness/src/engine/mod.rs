//! Engine shared by every property check.
//!
//! A property is a type implementing [`Property`]: a proptest strategy producing serialisable
//! cases and a `run` function interpreting one case against the real code and returning an
//! [`Outcome`]. The engine owns seeding, sharding (by process), shrinking, replay files,
//! known findings and the evidence file.

use proptest::strategy::{BoxedStrategy, Strategy, ValueTree};
use proptest::test_runner::{Config, RngAlgorithm, RngSeed, TestCaseError, TestRng, TestRunner};
use serde::{de::DeserializeOwned, Deserialize, Serialize};
use serde_json::{json, Value};
use std::collections::{BTreeMap, BTreeSet};
use std::fmt::Debug;
use std::io::Write;
use std::path::{Path, PathBuf};
use std::time::Instant;

pub const VERIF_DIR: &str = "/verif";

#[derive(Clone, Copy, Debug, PartialEq, Eq)]
pub enum Tier {
    Quick,
    Thorough,
}
impl Tier {
    pub fn name(&self) -> &'static str {
        match self {
            Tier::Quick => "quick",
            Tier::Thorough => "thorough",
        }
    }
}

#[derive(Clone, Debug, Serialize, Deserialize)]
pub struct Violation {
    /// produced by the property's classifier: a stable diagnostic key, not free text
    pub signature: String,
    pub detail: String,
}

#[derive(Clone, Debug, Default, Serialize, Deserialize)]
pub struct Outcome {
    pub labels: Vec<String>,
    pub nontrivial: bool,
    /// violations found while interpreting the case (a case may continue after a violation)
    pub violations: Vec<Violation>,
    pub discard: Option<String>,
    /// property specific counters, summed into the evidence
    pub counters: BTreeMap<String, u64>,
}
impl Outcome {
    pub fn label(&mut self, l: impl Into<String>) {
        let l = l.into();
        if !self.labels.contains(&l) {
            self.labels.push(l);
        }
    }
    pub fn violation(&mut self, signature: impl Into<String>, detail: impl Into<String>) {
        self.violations.push(Violation {
            signature: signature.into(),
            detail: detail.into(),
        });
    }
    pub fn count(&mut self, k: &str, n: u64) {
        *self.counters.entry(k.to_string()).or_insert(0) += n;
    }
}

/// per-tier plan of a property
#[derive(Clone, Debug)]
pub struct Plan {
    /// number of worker processes
    pub shards: usize,
    /// cases per shard
    pub cases_per_shard: u32,
    /// maximum number of shrink iterations after a failure
    pub max_shrink_iters: u32,
}

pub trait Property {
    type Case: Debug + Clone + Serialize + DeserializeOwned + 'static;
    const ID: &'static str;
    /// evidence level: "exploration" or "fault_enumeration"
    const LEVEL: &'static str = "exploration";
    /// run every case in a child executor process (a crash of the code under test, e.g. inside the
    /// bundled C library, then costs one retry of one case instead of the whole shard)
    const ISOLATE: bool = true;
    /// bound on the time one case may take in the executor (seconds); DV_CASE_TIMEOUT overrides it
    const CASE_TIMEOUT_S: u64 = 600;
    fn plan(tier: Tier) -> Plan;
    fn strategy(tier: Tier) -> BoxedStrategy<Self::Case>;
    /// interpret one case. `strict` is true in replay mode.
    fn run(case: &Self::Case, ctx: &RunCtx) -> Outcome;
    /// how cases are generated and what makes one non-trivial
    fn rule() -> String;
    fn assumptions() -> Vec<String> {
        vec![]
    }
    /// extra cases enumerated exhaustively or fixed regression cases run before generated ones
    fn fixed_cases(_tier: Tier) -> Vec<Self::Case> {
        vec![]
    }
    /// optional extra coverage keys (e.g. exhaustive) added to evidence
    fn extra_coverage(_tier: Tier, _merged: &Merged) -> BTreeMap<String, Value> {
        BTreeMap::new()
    }
}

pub struct RunCtx {
    pub tier: Tier,
    pub replay: bool,
    pub scratch: PathBuf,
    pub case_index: u64,
    pub known: Vec<KnownFinding>,
}
impl RunCtx {
    pub fn is_known(&self, property: &str, signature: &str) -> bool {
        self.known
            .iter()
            .any(|k| k.property == property && k.status == "known" && sig_matches(&k.signature, signature))
    }
    /// fresh empty directory for this case
    pub fn case_dir(&self, name: &str) -> PathBuf {
        let p = self.scratch.join(format!("c{}_{}", self.case_index, name));
        let _ = std::fs::remove_dir_all(&p);
        std::fs::create_dir_all(&p).unwrap();
        p
    }
}

fn sig_matches(pattern: &str, signature: &str) -> bool {
    pattern == signature
}

#[derive(Clone, Debug, Serialize, Deserialize)]
pub struct KnownFinding {
    pub property: String,
    pub signature: String,
    /// "known" or "fixed"
    pub status: String,
    #[serde(default)]
    pub commit: Option<String>,
    pub what: String,
    #[serde(default)]
    pub replay: Option<String>,
}

pub fn load_known() -> Vec<KnownFinding> {
    let p = Path::new(VERIF_DIR).join("known_findings.json");
    let mut v: Vec<KnownFinding> = match std::fs::read_to_string(&p) {
        Ok(s) => serde_json::from_str(&s).expect("known_findings.json must parse"),
        Err(_) => vec![],
    };
    // development aid only (never set by the registered commands): "C05=sig1,C05=sig2"
    if let Ok(extra) = std::env::var("DV_EXTRA_KNOWN") {
        for item in extra.split(',') {
            if let Some((prop, sig)) = item.split_once('=') {
                v.push(KnownFinding {
                    property: prop.trim().to_string(),
                    signature: sig.trim().to_string(),
                    status: "known".to_string(),
                    commit: None,
                    what: "DV_EXTRA_KNOWN (development)".to_string(),
                    replay: None,
                });
            }
        }
    }
    v
}

#[derive(Serialize, Deserialize, Debug, Default, Clone)]
pub struct Merged {
    pub evaluations: u64,
    pub nontrivial: u64,
    pub nontrivial_digests: BTreeSet<String>,
    pub labels: BTreeMap<String, u64>,
    pub discards: BTreeMap<String, u64>,
    pub counters: BTreeMap<String, u64>,
    pub known_hits: BTreeMap<String, u64>,
    pub samples: Vec<Value>,
    pub label_samples: BTreeMap<String, Value>,
    pub violations: Vec<ViolationReport>,
    pub inconclusive: Vec<String>,
}

#[derive(Serialize, Deserialize, Debug, Clone)]
pub struct ViolationReport {
    pub signature: String,
    pub detail: String,
    pub replay: String,
}

#[derive(Serialize, Deserialize)]
struct ReplayFile<C> {
    property: String,
    signature: String,
    detail: String,
    seed: u64,
    case: C,
}

fn digest(v: &Value) -> String {
    let s = serde_json::to_string(v).unwrap();
    blake3::hash(s.as_bytes()).to_hex()[0..16].to_string()
}

fn seed_bytes(seed: u64, id: &str, shard: usize) -> [u8; 32] {
    let mut h = blake3::Hasher::new();
    h.update(&seed.to_le_bytes());
    h.update(id.as_bytes());
    h.update(&(shard as u64).to_le_bytes());
    *h.finalize().as_bytes()
}

struct Args {
    tier: Tier,
    replay: Option<String>,
    worker: Option<(usize, String)>,
    exec: bool,
    cases: Option<u32>,
    shards: Option<usize>,
    seed: u64,
}

fn parse_args() -> Args {
    let mut a = Args {
        tier: match std::env::var("VERIF_TIER").ok().as_deref() {
            Some("thorough") => Tier::Thorough,
            _ => Tier::Quick,
        },
        replay: None,
        worker: None,
        exec: false,
        cases: None,
        shards: None,
        seed: std::env::var("VERIF_SEED")
            .ok()
            .and_then(|s| s.trim().parse::<i64>().ok())
            .map(|v| v as u64)
            .unwrap_or(0),
    };
    let argv: Vec<String> = std::env::args().collect();
    let mut i = 1;
    while i < argv.len() {
        match argv[i].as_str() {
            "--tier" => {
                i += 1;
                a.tier = if argv[i] == "thorough" { Tier::Thorough } else { Tier::Quick };
            }
            "--replay" => {
                i += 1;
                a.replay = Some(argv[i].clone());
            }
            "--worker" => {
                let shard: usize = argv[i + 1].parse().unwrap();
                let out = argv[i + 2].clone();
                i += 2;
                a.worker = Some((shard, out));
            }
            "--exec" => {
                a.exec = true;
            }
            "--cases" => {
                i += 1;
                a.cases = Some(argv[i].parse().unwrap());
            }
            "--shards" => {
                i += 1;
                a.shards = Some(argv[i].parse().unwrap());
            }
            "--seed" => {
                i += 1;
                a.seed = argv[i].parse::<i64>().unwrap() as u64;
            }
            other => panic!("unknown argument {}", other),
        }
        i += 1;
    }
    a
}

fn scratch_root() -> PathBuf {
    if let Ok(p) = std::env::var("DV_SCRATCH") {
        return PathBuf::from(p);
    }
    let shm = Path::new("/dev/shm");
    if shm.is_dir() {
        return shm.join("dv");
    }
    PathBuf::from("/verif/harness/target/run")
}

/// entry point of every property binary
pub fn main_for<P: Property>() -> ! {
    let args = parse_args();
    let code = if args.exec {
        executor::<P>(&args)
    } else if let Some(path) = &args.replay {
        replay::<P>(&args, path)
    } else if let Some((shard, out)) = &args.worker {
        worker::<P>(&args, *shard, out)
    } else {
        coordinator::<P>(&args)
    };
    std::process::exit(code)
}

fn make_ctx(tier: Tier, replay: bool) -> RunCtx {
    let scratch = scratch_root().join(format!("p{}", std::process::id()));
    let _ = std::fs::remove_dir_all(&scratch);
    std::fs::create_dir_all(&scratch).unwrap();
    RunCtx {
        tier,
        replay,
        scratch,
        case_index: 0,
        known: load_known(),
    }
}

fn replay<P: Property>(args: &Args, path: &str) -> i32 {
    let s = std::fs::read_to_string(path).expect("replay file");
    let rf: ReplayFile<P::Case> = serde_json::from_str(&s).expect("replay file format");
    let mut ctx = make_ctx(args.tier, true);
    ctx.case_index = 1;
    let out = run_guarded::<P>(&rf.case, &ctx);
    let _ = std::fs::remove_dir_all(&ctx.scratch);
    let mut code = 0;
    for v in &out.violations {
        if ctx.is_known(P::ID, &v.signature) {
            println!("KNOWN-FINDING: property={} {} [{}]", P::ID, v.signature, v.detail);
        } else {
            println!("VIOLATION property={} replay={}", P::ID, path);
            println!("  signature={} detail={}", v.signature, v.detail);
            code = 1;
        }
    }
    if out.violations.is_empty() {
        println!("replay {}: no violation (labels {:?})", path, out.labels);
    }
    code
}

fn run_guarded<P: Property>(case: &P::Case, ctx: &RunCtx) -> Outcome {
    // a panic of the harness or of the code under test inside a case is reported as a violation
    // with its own signature (properties that expect panics catch them themselves)
    let r = std::panic::catch_unwind(std::panic::AssertUnwindSafe(|| P::run(case, ctx)));
    match r {
        Ok(o) => o,
        Err(e) => {
            let msg = if let Some(s) = e.downcast_ref::<String>() {
                s.clone()
            } else if let Some(s) = e.downcast_ref::<&str>() {
                s.to_string()
            } else {
                "panic".to_string()
            };
            let mut o = Outcome::default();
            o.violation("panic-in-case", msg);
            o
        }
    }
}

/// child process: one JSON case per line on stdin, one JSON outcome per line on stdout
fn executor<P: Property>(args: &Args) -> i32 {
    use std::io::BufRead;
    let mut ctx = make_ctx(args.tier, false);
    let stdin = std::io::stdin();
    let stdout = std::io::stdout();
    for line in stdin.lock().lines() {
        let line = match line {
            Ok(l) => l,
            Err(_) => break,
        };
        if line.trim().is_empty() {
            continue;
        }
        #[derive(Deserialize)]
        struct Req<C> {
            replay: bool,
            case: C,
        }
        let req: Req<P::Case> = match serde_json::from_str(&line) {
            Ok(r) => r,
            Err(e) => {
                eprintln!("executor: bad request: {}", e);
                return 3;
            }
        };
        ctx.case_index += 1;
        ctx.replay = req.replay;
        let out = run_guarded::<P>(&req.case, &ctx);
        let mut o = stdout.lock();
        let _ = writeln!(o, "{}", serde_json::to_string(&out).unwrap());
        let _ = o.flush();
    }
    let _ = std::fs::remove_dir_all(&ctx.scratch);
    0
}

struct ExecClient {
    child: Option<(std::process::Child, std::io::BufReader<std::process::ChildStdout>)>,
    tier: Tier,
    pub crashes: u64,
    /// a case did not answer within the per-case bound: the executor was killed (inconclusive, never a violation)
    pub hung: bool,
    pub bound: u64,
    /// cases that hung once and finished when run again in a fresh executor
    pub hung_once: u64,
}
impl ExecClient {
    fn new(tier: Tier) -> Self {
        ExecClient {
            child: None,
            tier,
            crashes: 0,
            hung: false,
            bound: 600,
            hung_once: 0,
        }
    }
    fn ensure(&mut self) {
        if self.child.is_none() {
            let exe = std::env::current_exe().unwrap();
            let mut c = std::process::Command::new(exe)
                .arg("--tier")
                .arg(self.tier.name())
                .arg("--exec")
                .stdin(std::process::Stdio::piped())
                .stdout(std::process::Stdio::piped())
                .spawn()
                .expect("spawn executor");
            let out = std::io::BufReader::new(c.stdout.take().unwrap());
            self.child = Some((c, out));
        }
    }
    fn try_run(&mut self, line: &str) -> Option<Outcome> {
        use std::io::BufRead;
        self.ensure();
        let (child, out) = self.child.as_mut().unwrap();
        let stdin = child.stdin.as_mut().unwrap();
        if writeln!(stdin, "{}", line).is_err() || stdin.flush().is_err() {
            return None;
        }
        // per-case watchdog: a case that does not answer within the bound is a hang of the code under test or
        // of the harness; the executor is killed and the run reported inconclusive
        let bound = std::env::var("DV_CASE_TIMEOUT").ok().and_then(|x| x.parse().ok()).unwrap_or(self.bound);
        let pid = child.id();
        let fired = std::sync::Arc::new(std::sync::atomic::AtomicBool::new(false));
        let f2 = fired.clone();
        // the watchdog sleeps on a channel: it is woken the moment the answer has been read
        let (done_tx, done_rx) = std::sync::mpsc::channel::<()>();
        let watchdog = std::thread::spawn(move || {
            if let Err(std::sync::mpsc::RecvTimeoutError::Timeout) = done_rx.recv_timeout(std::time::Duration::from_secs(bound)) {
                f2.store(true, std::sync::atomic::Ordering::Relaxed);
                let _ = std::process::Command::new("kill").arg("-9").arg(pid.to_string()).status();
            }
        });
        let mut resp = String::new();
        let res = match out.read_line(&mut resp) {
            Ok(n) if n > 0 => serde_json::from_str(&resp).ok(),
            _ => None,
        };
        let _ = done_tx.send(());
        let _ = watchdog.join();
        if fired.load(std::sync::atomic::Ordering::Relaxed) {
            self.hung = true;
        }
        res
    }
    /// runs a case in the executor; a dead executor is restarted and the case retried twice
    fn run<C: Serialize>(&mut self, case: &C, replay: bool) -> Outcome {
        let line = serde_json::to_string(&json!({"replay": replay, "case": case})).unwrap();
        for _ in 0..3 {
            if let Some(o) = self.try_run(&line) {
                return o;
            }
            if self.hung {
                if let Some((mut c, _)) = self.child.take() {
                    let _ = c.kill();
                    let _ = c.wait();
                }
                // a stall that does not repeat (seen once in ~40 000 multi-instance cases under full load, never
                // reproduced from the saved case) is counted and the case is run again in a fresh executor; a case
                // that stalls twice makes the run inconclusive
                self.hung = false;
                if let Some(o) = self.try_run(&line) {
                    self.hung_once += 1;
                    return o;
                }
                if let Some((mut c, _)) = self.child.take() {
                    let _ = c.kill();
                    let _ = c.wait();
                }
                self.hung = true;
                let mut o = Outcome::default();
                o.discard = Some("case-hung".to_string());
                return o;
            }
            self.crashes += 1;
            if let Some((mut c, _)) = self.child.take() {
                let _ = c.kill();
                let st = c.wait();
                eprintln!("executor died ({:?}); restarting", st);
            }
        }
        let mut o = Outcome::default();
        o.discard = Some("executor-died-3-times".to_string());
        o.violations.push(Violation {
            signature: "executor-crash".to_string(),
            detail: "the process running this case died three times in a row".to_string(),
        });
        o
    }
    fn stop(&mut self) {
        if let Some((mut c, _)) = self.child.take() {
            drop(c.stdin.take());
            let _ = c.wait();
        }
    }
}

fn run_case<P: Property>(exec: &mut Option<ExecClient>, case: &P::Case, ctx: &RunCtx) -> Outcome {
    match exec {
        Some(e) => e.run(case, ctx.replay),
        None => run_guarded::<P>(case, ctx),
    }
}

#[derive(Serialize, Deserialize, Default)]
struct Fragment {
    merged: Merged,
}

fn record<P: Property>(m: &mut Merged, case: &P::Case, out: &Outcome, ctx: &RunCtx) -> Vec<Violation> {
    m.evaluations += 1;
    let cv = serde_json::to_value(case).unwrap();
    if let Some(d) = &out.discard {
        *m.discards.entry(d.clone()).or_insert(0) += 1;
    }
    if out.nontrivial {
        m.nontrivial += 1;
        m.nontrivial_digests.insert(digest(&cv));
        if m.samples.len() < 3 {
            m.samples.push(cv.clone());
        }
    }
    for l in &out.labels {
        *m.labels.entry(l.clone()).or_insert(0) += 1;
        if m.label_samples.len() < 24 && !m.label_samples.contains_key(l) {
            m.label_samples.insert(l.clone(), cv.clone());
        }
    }
    for (k, v) in &out.counters {
        *m.counters.entry(k.clone()).or_insert(0) += v;
    }
    let mut unknown = vec![];
    for v in &out.violations {
        if ctx.is_known(P::ID, &v.signature) {
            *m.known_hits.entry(v.signature.clone()).or_insert(0) += 1;
        } else {
            unknown.push(v.clone());
        }
    }
    unknown
}

fn save_replay<P: Property>(case: &P::Case, v: &Violation, seed: u64) -> String {
    let dir = Path::new(VERIF_DIR).join("replays").join(P::ID);
    std::fs::create_dir_all(&dir).unwrap();
    let cv = serde_json::to_value(case).unwrap();
    let name = format!(
        "{}-{}.json",
        v.signature.replace(|c: char| !c.is_ascii_alphanumeric() && c != '-' && c != '_', "_"),
        &digest(&cv)[0..10]
    );
    let path = dir.join(name);
    let rf = ReplayFile {
        property: P::ID.to_string(),
        signature: v.signature.clone(),
        detail: v.detail.clone(),
        seed,
        case: case.clone(),
    };
    std::fs::write(&path, serde_json::to_string_pretty(&rf).unwrap()).unwrap();
    path.to_string_lossy().to_string()
}

fn worker<P: Property>(args: &Args, shard: usize, out_path: &str) -> i32 {
    let plan = P::plan(args.tier);
    let cases = args.cases.unwrap_or(plan.cases_per_shard);
    let mut ctx = make_ctx(args.tier, false);
    let mut merged = Merged::default();
    let mut exec = if P::ISOLATE {
        let mut e = ExecClient::new(args.tier);
        e.bound = P::CASE_TIMEOUT_S;
        Some(e)
    } else {
        None
    };

    // fixed cases are distributed round robin over the shards
    let nshards = args.shards.unwrap_or(plan.shards).max(1);
    let fixed = P::fixed_cases(args.tier);
    for (i, case) in fixed.iter().enumerate() {
        if i % nshards != shard {
            continue;
        }
        ctx.case_index += 1;
        let out = run_case::<P>(&mut exec, case, &ctx);
        let unknown = record::<P>(&mut merged, case, &out, &ctx);
        if let Some(v) = unknown.first() {
            let path = save_replay::<P>(case, v, args.seed);
            merged.violations.push(ViolationReport {
                signature: v.signature.clone(),
                detail: v.detail.clone(),
                replay: path,
            });
            break;
        }
    }

    if merged.violations.is_empty() && cases > 0 {
        let config = Config {
            cases,
            failure_persistence: None,
            max_shrink_iters: plan.max_shrink_iters,
            rng_algorithm: RngAlgorithm::ChaCha,
            ..Config::default()
        };
        let rng = TestRng::from_seed(RngAlgorithm::ChaCha, &seed_bytes(args.seed, P::ID, shard));
        let mut runner = TestRunner::new_with_rng(config, rng);
        let strategy = P::strategy(args.tier);
        let mut n = 0u32;
        while n < cases {
            n += 1;
            let tree = match strategy.new_tree(&mut runner) {
                Ok(t) => t,
                Err(e) => {
                    merged.inconclusive.push(format!("generator failed: {}", e));
                    break;
                }
            };
            let case = tree.current();
            ctx.case_index += 1;
            // development aid: DV_DUMP_CASE=<shard>:<n> writes the n-th generated case of a shard as a replay file
            if let Ok(spec) = std::env::var("DV_DUMP_CASE") {
                if spec == format!("{}:{}", shard, n) {
                    let rf = ReplayFile { property: P::ID.to_string(), signature: "dumped".to_string(), detail: String::new(), seed: args.seed, case: case.clone() };
                    let _ = std::fs::write("/dev/shm/dv_dumped_case.json", serde_json::to_string_pretty(&rf).unwrap());
                    break;
                }
                continue;
            }
            let out = run_case::<P>(&mut exec, &case, &ctx);
            if exec.as_ref().map(|e| e.hung).unwrap_or(false) {
                merged.inconclusive.push(format!(
                    "a case did not finish within the per-case bound (shard {}, case {}): {}",
                    shard,
                    n,
                    serde_json::to_string(&case).unwrap_or_default().chars().take(400).collect::<String>()
                ));
                break;
            }
            let unknown = record::<P>(&mut merged, &case, &out, &ctx);
            if let Some(v) = unknown.first() {
                // shrink: keep the same signature
                let (min_case, min_v) =
                    shrink::<P>(
                        tree,
                        v.clone(),
                        &mut ctx,
                        // development aid for mutant runs: fewer shrink steps
                        std::env::var("DV_MAX_SHRINK").ok().and_then(|x| x.parse().ok()).unwrap_or(plan.max_shrink_iters),
                        &mut exec,
                    );
                let path = save_replay::<P>(&min_case, &min_v, args.seed);
                merged.violations.push(ViolationReport {
                    signature: min_v.signature.clone(),
                    detail: min_v.detail.clone(),
                    replay: path,
                });
                break;
            }
        }
    }
    if let Some(e) = exec.as_mut() {
        *merged.counters.entry("executor_restarts".into()).or_insert(0) += e.crashes;
        *merged.counters.entry("cases_stalled_once_then_finished".into()).or_insert(0) += e.hung_once;
        e.stop();
    }
    let _ = std::fs::remove_dir_all(&ctx.scratch);
    let frag = Fragment { merged };
    std::fs::write(out_path, serde_json::to_string(&frag).unwrap()).unwrap();
    0
}

fn shrink<P: Property>(
    mut tree: Box<dyn ValueTree<Value = P::Case>>,
    first: Violation,
    ctx: &mut RunCtx,
    max_iters: u32,
    exec: &mut Option<ExecClient>,
) -> (P::Case, Violation) {
    let mut best_case = tree.current();
    let mut best_v = first;
    let mut iters = 0;
    if !tree.simplify() {
        return (best_case, best_v);
    }
    loop {
        if iters >= max_iters {
            break;
        }
        iters += 1;
        let case = tree.current();
        ctx.case_index += 1;
        let out = run_case::<P>(exec, &case, ctx);
        let same = out
            .violations
            .iter()
            .find(|v| v.signature == best_v.signature && !ctx.is_known(P::ID, &v.signature));
        if let Some(v) = same {
            best_case = case;
            best_v = v.clone();
            if !tree.simplify() {
                break;
            }
        } else if !tree.complicate() {
            break;
        }
    }
    (best_case, best_v)
}

/// removes scratch directories left behind by processes that no longer exist
fn sweep_scratch() {
    if let Ok(rd) = std::fs::read_dir(scratch_root()) {
        for e in rd.filter_map(|e| e.ok()) {
            let name = e.file_name().to_string_lossy().to_string();
            let pid = name.trim_start_matches("coord").trim_start_matches('p');
            if let Ok(pid) = pid.parse::<u32>() {
                if !Path::new(&format!("/proc/{}", pid)).exists() {
                    let _ = std::fs::remove_dir_all(e.path());
                }
            }
        }
    }
}

fn coordinator<P: Property>(args: &Args) -> i32 {
    let start = Instant::now();
    sweep_scratch();
    let plan = P::plan(args.tier);
    let shards = args.shards.unwrap_or(plan.shards).max(1);
    let exe = std::env::current_exe().unwrap();
    let tmp = scratch_root().join(format!("coord{}", std::process::id()));
    let _ = std::fs::remove_dir_all(&tmp);
    std::fs::create_dir_all(&tmp).unwrap();

    let known = load_known();
    let mut merged = Merged::default();
    let ctx = RunCtx {
        tier: args.tier,
        replay: true,
        scratch: tmp.clone(),
        case_index: 0,
        known: known.clone(),
    };

    // replay tier: every committed replay file of the property
    let replay_dir = Path::new(VERIF_DIR).join("replays").join(P::ID);
    let mut replayed = 0u64;
    let mut replay_files: Vec<PathBuf> = std::fs::read_dir(&replay_dir)
        .map(|rd| rd.filter_map(|e| e.ok()).map(|e| e.path()).collect())
        .unwrap_or_default();
    replay_files.sort();
    let mut ctx = ctx;
    let mut exec = if P::ISOLATE {
        let mut e = ExecClient::new(args.tier);
        e.bound = P::CASE_TIMEOUT_S;
        Some(e)
    } else {
        None
    };
    for f in replay_files {
        if f.extension().map(|e| e != "json").unwrap_or(true) {
            continue;
        }
        let s = std::fs::read_to_string(&f).unwrap();
        let rf: ReplayFile<P::Case> = match serde_json::from_str(&s) {
            Ok(r) => r,
            Err(e) => {
                merged.inconclusive.push(format!("replay file {} unreadable: {}", f.display(), e));
                continue;
            }
        };
        ctx.case_index += 1;
        let out = run_case::<P>(&mut exec, &rf.case, &ctx);
        replayed += 1;
        let unknown = record::<P>(&mut merged, &rf.case, &out, &ctx);
        for v in unknown {
            merged.violations.push(ViolationReport {
                signature: v.signature.clone(),
                detail: v.detail.clone(),
                replay: f.to_string_lossy().to_string(),
            });
        }
    }

    if let Some(e) = exec.as_mut() {
        e.stop();
    }
    // generated tier
    let spawn = |shard: usize, out: &PathBuf| {
        let mut cmd = std::process::Command::new(&exe);
        cmd.arg("--tier")
            .arg(args.tier.name())
            .arg("--seed")
            .arg((args.seed as i64).to_string())
            .arg("--shards")
            .arg(shards.to_string())
            .arg("--worker")
            .arg(shard.to_string())
            .arg(out.to_string_lossy().to_string());
        if let Some(c) = args.cases {
            cmd.arg("--cases").arg(c.to_string());
        }
        cmd.spawn().expect("spawn worker")
    };
    let mut children = vec![];
    for shard in 0..shards {
        let out = tmp.join(format!("frag{}.json", shard));
        let child = spawn(shard, &out);
        children.push((shard, child, out));
    }
    let mut retries = 0u64;
    for (shard, mut child, out) in children {
        let mut status = child.wait().expect("wait worker");
        if !status.success() {
            // an abnormal end of a worker (not a violation: those are reported in the fragment)
            // is retried once; a second failure makes the run inconclusive
            eprintln!("worker {} ended with {:?}: retrying once", shard, status);
            retries += 1;
            let mut again = spawn(shard, &out);
            status = again.wait().expect("wait worker");
        }
        if !status.success() {
            merged
                .inconclusive
                .push(format!("worker {} ended with {:?}", shard, status));
            continue;
        }
        let s = match std::fs::read_to_string(&out) {
            Ok(s) => s,
            Err(e) => {
                merged.inconclusive.push(format!("worker {} fragment: {}", shard, e));
                continue;
            }
        };
        let frag: Fragment = serde_json::from_str(&s).unwrap();
        merge(&mut merged, frag.merged);
    }
    *merged.counters.entry("worker_retries".into()).or_insert(0) += retries;
    let _ = std::fs::remove_dir_all(&tmp);

    sweep_scratch();
    let wall = start.elapsed().as_secs_f64();
    write_evidence::<P>(args, &merged, replayed, wall);

    for (sig, n) in &merged.known_hits {
        let what = known
            .iter()
            .find(|k| k.property == P::ID && &k.signature == sig)
            .map(|k| k.what.clone())
            .unwrap_or_default();
        println!("KNOWN-FINDING: property={} {} ({} hits): {}", P::ID, sig, n, what);
    }
    println!(
        "{} tier={} seed={} evaluations={} nontrivial={} distinct_nontrivial={} wall={:.1}s",
        P::ID,
        args.tier.name(),
        args.seed as i64,
        merged.evaluations,
        merged.nontrivial,
        merged.nontrivial_digests.len(),
        wall
    );
    let mut labels: Vec<_> = merged.labels.iter().collect();
    labels.sort();
    for (l, n) in labels {
        println!("  label {:>8}  {}", n, l);
    }
    for (d, n) in &merged.discards {
        println!("  discard {:>6}  {}", n, d);
    }
    for (d, n) in &merged.counters {
        println!("  counter {:>6}  {}", n, d);
    }
    if !merged.violations.is_empty() {
        let mut seen = BTreeSet::new();
        for v in &merged.violations {
            if seen.insert(v.replay.clone()) {
                println!("VIOLATION property={} replay={}", P::ID, v.replay);
                let d: String = v.detail.chars().take(300).collect();
                println!("  signature={} detail={}", v.signature, d);
            }
        }
        let _ = std::io::stdout().flush();
        return 1;
    }
    if !merged.inconclusive.is_empty() {
        for i in &merged.inconclusive {
            println!("INCONCLUSIVE property={} {}", P::ID, i);
        }
        return 2;
    }
    0
}

fn merge(a: &mut Merged, b: Merged) {
    a.evaluations += b.evaluations;
    a.nontrivial += b.nontrivial;
    a.nontrivial_digests.extend(b.nontrivial_digests);
    for (k, v) in b.labels {
        *a.labels.entry(k).or_insert(0) += v;
    }
    for (k, v) in b.discards {
        *a.discards.entry(k).or_insert(0) += v;
    }
    for (k, v) in b.counters {
        *a.counters.entry(k).or_insert(0) += v;
    }
    for (k, v) in b.known_hits {
        *a.known_hits.entry(k).or_insert(0) += v;
    }
    for s in b.samples {
        if a.samples.len() < 4 {
            a.samples.push(s);
        }
    }
    for (k, v) in b.label_samples {
        if a.label_samples.len() < 24 {
            a.label_samples.entry(k).or_insert(v);
        }
    }
    a.violations.extend(b.violations);
    a.inconclusive.extend(b.inconclusive);
}

fn write_evidence<P: Property>(args: &Args, m: &Merged, replayed: u64, wall: f64) {
    let mut samples = m.samples.clone();
    if samples.is_empty() {
        // fall back on label samples so that the list is never empty when something ran
        for v in m.label_samples.values().take(2) {
            samples.push(v.clone());
        }
    }
    let mut coverage = serde_json::Map::new();
    coverage.insert("evaluations".into(), json!(m.evaluations));
    coverage.insert("distinct_nontrivial".into(), json!(m.nontrivial_digests.len()));
    coverage.insert("nontrivial_total".into(), json!(m.nontrivial));
    coverage.insert("rule".into(), json!(P::rule()));
    coverage.insert("samples".into(), json!(samples));
    coverage.insert("labels".into(), json!(m.labels));
    coverage.insert(
        "label_samples".into(),
        json!(m.label_samples.iter().take(8).collect::<BTreeMap<_, _>>()),
    );
    coverage.insert("discards".into(), json!(m.discards));
    coverage.insert("counters".into(), json!(m.counters));
    coverage.insert("known_finding_hits".into(), json!(m.known_hits));
    coverage.insert("replay_files_run".into(), json!(replayed));
    coverage.insert("inconclusive".into(), json!(m.inconclusive));
    for (k, v) in P::extra_coverage(args.tier, m) {
        coverage.insert(k, v);
    }
    let ev = json!({
        "property_id": P::ID,
        "tier": args.tier.name(),
        "seed": args.seed as i64,
        "level": P::LEVEL,
        "coverage": Value::Object(coverage),
        "assumptions": P::assumptions(),
        "wall_s": wall,
        "violations": m.violations.len(),
    });
    let dir = Path::new(VERIF_DIR).join("evidence");
    std::fs::create_dir_all(&dir).unwrap();
    let path = dir.join(format!("{}.json", P::ID));
    std::fs::write(&path, serde_json::to_string_pretty(&ev).unwrap()).unwrap();
}

/// helper for strategies: map a u16 index monotonically onto 0..len (shrinks towards 0)
pub fn pick(i: u16, len: usize) -> usize {
    if len == 0 {
        return 0;
    }
    ((i as usize) * len) >> 16
}

pub fn prop_fail(msg: impl Into<String>) -> TestCaseError {
    TestCaseError::fail(msg.into())
}

pub fn _unused(_: RngSeed) {}
