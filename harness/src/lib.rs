pub mod engine;
pub mod syncworld;
pub mod world;
pub mod props;
pub mod rights;
pub mod rightsworld;
