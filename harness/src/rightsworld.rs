//! World used by the authorisation properties (C01, C12, ...): several identities (real instances),
//! rooms whose definitions evolve over time, data operations of every shape.

use crate::engine::pick;
use crate::rights::*;
use crate::syncworld::{text_for, ENTITIES, MODEL};
use crate::world::*;
use discret::verif::security::Uid;
use proptest::prelude::*;
use serde::{Deserialize, Serialize};

#[derive(Clone, Debug, Serialize, Deserialize, PartialEq)]
pub struct RightSpec {
    /// 0 = app.Item, 1 = app.Note, 2 = "*"
    pub entity: u8,
    pub own: bool,
    pub all: bool,
}
#[derive(Clone, Debug, Serialize, Deserialize, PartialEq)]
pub struct GroupSpec {
    pub rights: Vec<RightSpec>,
    pub users: Vec<(u8, bool)>,
    pub user_admins: Vec<(u8, bool)>,
}

#[derive(Clone, Debug, Serialize, Deserialize, PartialEq)]
pub enum Shape {
    Create { room: u8, entity: u8 },
    /// an Item created together with its parent Item; the child is written in `child_room` or inherits
    CreateNested { room: u8, child_room: Option<u8> },
    Update { row: u16 },
    Move { row: u16, room: u8 },
    RefSet { row: u16, target: u16 },
    RefNull { row: u16 },
    LinkAdd { row: u16, target: u16 },
    DeleteNode { row: u16 },
    DeleteLink { row: u16, target: u16 },
    /// direct mutation / deletion of an authorisation row outside a room mutation
    SysDirect { kind: u8 },
    /// a row whose serialised size is close to the configured maximum (1 KiB in this world)
    CreateBig { room: u8, len: u16 },
}

#[derive(Clone, Debug, Serialize, Deserialize, PartialEq)]
pub enum ROp {
    Tick { ms: u32 },
    RoomCreate { by: u8, other_admins: Vec<u8>, groups: Vec<GroupSpec> },
    AddAdmin { by: u8, room: u8, ident: u8, enabled: bool },
    AddGroup { by: u8, room: u8, spec: GroupSpec },
    AddRight { by: u8, room: u8, group: u8, right: RightSpec },
    AddUser { by: u8, room: u8, group: u8, ident: u8, enabled: bool },
    AddUserAdmin { by: u8, room: u8, group: u8, ident: u8, enabled: bool },
    /// `to` pulls from `from` (definitions and data of the rooms `from` lists for it)
    Propagate { from: u8, to: u8 },
    Data { by: u8, dt: u16, shape: Shape },
}

pub fn right_strategy() -> impl Strategy<Value = RightSpec> {
    (0u8..3, any::<bool>(), any::<bool>()).prop_map(|(entity, own, all)| RightSpec { entity, own, all })
}
pub fn group_strategy(idents: u8) -> impl Strategy<Value = GroupSpec> {
    (
        proptest::collection::vec(right_strategy(), 1..4),
        proptest::collection::vec((0..idents, prop_oneof![4 => Just(true), 1 => Just(false)]), 0..5),
        proptest::collection::vec((0..idents, prop_oneof![4 => Just(true), 1 => Just(false)]), 0..2),
    )
        .prop_map(|(rights, users, user_admins)| GroupSpec { rights, users, user_admins })
}
pub fn shape_strategy() -> impl Strategy<Value = Shape> {
    let row = any::<u16>();
    prop_oneof![
        5 => (0u8..3, 0u8..2).prop_map(|(room, entity)| Shape::Create { room, entity }),
        2 => (0u8..3, proptest::option::of(0u8..3)).prop_map(|(room, child_room)| Shape::CreateNested { room, child_room }),
        5 => row.prop_map(|row| Shape::Update { row }),
        3 => (row, 0u8..3).prop_map(|(row, room)| Shape::Move { row, room }),
        2 => (row, any::<u16>()).prop_map(|(row, target)| Shape::RefSet { row, target }),
        1 => row.prop_map(|row| Shape::RefNull { row }),
        2 => (row, any::<u16>()).prop_map(|(row, target)| Shape::LinkAdd { row, target }),
        3 => row.prop_map(|row| Shape::DeleteNode { row }),
        2 => (row, any::<u16>()).prop_map(|(row, target)| Shape::DeleteLink { row, target }),
        1 => (0u8..8).prop_map(|kind| Shape::SysDirect { kind }),
        1 => (0u8..3, 780u16..860).prop_map(|(room, len)| Shape::CreateBig { room, len }),
    ]
}
pub fn rop_strategy(idents: u8) -> impl Strategy<Value = ROp> {
    let t = prop_oneof![3 => 1u32..2000, 1 => 3_600_000u32..7_200_000, 2 => (DAY as u32 - 1000)..(2 * DAY as u32)];
    prop_oneof![
        2 => t.prop_map(|ms| ROp::Tick { ms }),
        2 => (0..idents, proptest::collection::vec(0..idents, 0..2), proptest::collection::vec(group_strategy(idents), 1..3))
            .prop_map(|(by, other_admins, groups)| ROp::RoomCreate { by, other_admins, groups }),
        1 => (0..idents, 0u8..3, 0..idents, prop_oneof![3 => Just(true), 1 => Just(false)])
            .prop_map(|(by, room, ident, enabled)| ROp::AddAdmin { by, room, ident, enabled }),
        1 => (0..idents, 0u8..3, group_strategy(idents)).prop_map(|(by, room, spec)| ROp::AddGroup { by, room, spec }),
        3 => (0..idents, 0u8..3, 0u8..3, right_strategy()).prop_map(|(by, room, group, right)| ROp::AddRight { by, room, group, right }),
        3 => (0..idents, 0u8..3, 0u8..3, 0..idents, prop_oneof![2 => Just(true), 1 => Just(false)])
            .prop_map(|(by, room, group, ident, enabled)| ROp::AddUser { by, room, group, ident, enabled }),
        2 => (0..idents, 0u8..3, 0u8..3, 0..idents, prop_oneof![1 => Just(true), 1 => Just(false)])
            .prop_map(|(by, room, group, ident, enabled)| ROp::AddUserAdmin { by, room, group, ident, enabled }),
        9 => (0..idents, 0..idents).prop_map(|(from, to)| ROp::Propagate { from, to }),
        12 => (0..idents, prop_oneof![1 => Just(0u16), 4 => 1u16..50], shape_strategy())
            .prop_map(|(by, dt, shape)| ROp::Data { by, dt, shape }),
    ]
}

pub fn entity_sel(e: u8) -> &'static str {
    match e % 3 {
        0 => "app.Item",
        1 => "app.Note",
        _ => "*",
    }
}

#[derive(Clone, Debug)]
pub struct RoomInfo {
    pub id: Uid,
    pub id64: String,
    pub creator: usize,
    /// group ids (base64) in creation order
    pub groups: Vec<String>,
}
#[derive(Clone, Debug)]
pub struct RRow {
    pub id: String,
    pub entity: u8,
}

/// what an applied operation was, with the verdict of the system
#[derive(Clone, Debug, Default)]
pub struct RStep {
    pub applied: bool,
    pub kind: String,
    pub by: usize,
    /// Ok / Err of the API
    pub result: Option<Result<(), String>>,
    /// the oracle's verdict: Some(true) = the caller is entitled, Some(false) = not entitled
    pub entitled: Option<bool>,
    /// explanation of the oracle's verdict
    pub why: String,
    /// the mutation / deletion text and the parameters (for C12: rebuilding the rows)
    pub query: String,
    pub new_row_ids: Vec<String>,
    pub touched_rows: Vec<String>,
}

pub struct RightsWorld {
    pub peers: Vec<Peer>,
    pub rooms: Vec<RoomInfo>,
    pub rows: Vec<RRow>,
    /// only Items are created (avoids C03's known two-entity finding when a mirror pulls)
    pub single_entity: bool,
}

/// maximum row size of the instances of this world, in bytes
pub const MAX_ROW_BYTES: u64 = 1024;

/// one mutation never carries two entries for the same key in one list, nor two rights for the same
/// entity in one group: which of two contradictory entries of the same date wins is not defined
pub fn dedupe(spec: &GroupSpec, nkeys: usize) -> GroupSpec {
    let mut out = GroupSpec { rights: vec![], users: vec![], user_admins: vec![] };
    for r in &spec.rights {
        if !out.rights.iter().any(|x: &RightSpec| x.entity % 3 == r.entity % 3) {
            out.rights.push(r.clone());
        }
    }
    for u in &spec.users {
        if !out.users.iter().any(|x| x.0 as usize % nkeys == u.0 as usize % nkeys) {
            out.users.push(*u);
        }
    }
    for u in &spec.user_admins {
        if !out.user_admins.iter().any(|x| x.0 as usize % nkeys == u.0 as usize % nkeys) {
            out.user_admins.push(*u);
        }
    }
    out
}

fn group_text(spec: &GroupSpec, keys: &[String], p: &mut Parameters, prefix: &str) -> String {
    let spec = &dedupe(spec, keys.len());
    let mut s = String::from("{ name:\"g\" ");
    if !spec.rights.is_empty() {
        s.push_str("rights:[");
        for (i, r) in spec.rights.iter().enumerate() {
            let n = format!("{}r{}", prefix, i);
            p.add(&n, entity_sel(r.entity).to_string()).unwrap();
            s.push_str(&format!("{{entity:${} mutate_self:{} mutate_all:{}}},", n, r.own, r.all));
        }
        s.push_str("] ");
    }
    if !spec.users.is_empty() {
        s.push_str("users:[");
        for (i, (u, en)) in spec.users.iter().enumerate() {
            let n = format!("{}u{}", prefix, i);
            p.add(&n, keys[*u as usize % keys.len()].clone()).unwrap();
            s.push_str(&format!("{{verif_key:${} enabled:{}}},", n, en));
        }
        s.push_str("] ");
    }
    if !spec.user_admins.is_empty() {
        s.push_str("user_admin:[");
        for (i, (u, en)) in spec.user_admins.iter().enumerate() {
            let n = format!("{}a{}", prefix, i);
            p.add(&n, keys[*u as usize % keys.len()].clone()).unwrap();
            s.push_str(&format!("{{verif_key:${} enabled:{}}},", n, en));
        }
        s.push_str("] ");
    }
    s.push('}');
    s
}

impl RightsWorld {
    pub async fn start(n: usize, dir: &std::path::Path) -> Result<RightsWorld, String> {
        let mut peers = vec![];
        let cfg = discret::Configuration { max_object_size_in_kb: 1, ..config() };
        for i in 0..n {
            peers.push(Peer::start_with(&format!("id{}", i), MODEL, dir.join(format!("p{}", i)), &cfg).await?);
        }
        Ok(RightsWorld { peers, rooms: vec![], rows: vec![], single_entity: false })
    }
    pub fn keys(&self) -> Vec<String> {
        self.peers.iter().map(|p| p.key64()).collect()
    }
    fn room(&self, r: u8) -> Option<RoomInfo> {
        if self.rooms.is_empty() {
            None
        } else {
            Some(self.rooms[r as usize % self.rooms.len()].clone())
        }
    }
    fn row(&self, r: u16) -> Option<RRow> {
        if self.rows.is_empty() {
            None
        } else {
            Some(self.rows[pick(r, self.rows.len())].clone())
        }
    }
    /// the room definition as instance `by` knows it, as a model
    pub async fn known(&self, by: usize, room: &Uid) -> Option<RoomModel> {
        self.peers[by].room(*room).await.map(|r| RoomModel::from_room(&r))
    }
    /// the version of a row held by an instance: (room, author key, entity short)
    pub async fn held(&self, by: usize, id: &str) -> Option<(Option<String>, String, String)> {
        let idb = unb64(id);
        self.peers[by]
            .sql(move |c| {
                c.query_row(
                    "SELECT room_id, verifying_key, _entity FROM _node WHERE id=?",
                    [&idb],
                    |r| {
                        let room: Option<Vec<u8>> = r.get(0)?;
                        let key: Vec<u8> = r.get(1)?;
                        let e: String = r.get(2)?;
                        Ok((room.map(|x| b64(&x)), b64(&key), e))
                    },
                )
                .ok()
            })
            .await
    }

    async fn room_mutation(&mut self, by: usize, kind: &str, q: String, p: Parameters, entitled: Option<bool>, why: String) -> (RStep, Option<serde_json::Value>) {
        Clock::advance(1);
        let res = self.peers[by].mutate(&q, Some(p)).await;
        self.peers[by].fence().await;
        let js = res.as_ref().ok().and_then(|s| serde_json::from_str::<serde_json::Value>(s).ok());
        (
            RStep {
                applied: true,
                kind: kind.to_string(),
                by,
                result: Some(res.map(|_| ())),
                entitled,
                why,
                query: q,
                ..Default::default()
            },
            js,
        )
    }

    pub async fn apply(&mut self, op: &ROp) -> RStep {
        let n = self.peers.len();
        let keys = self.keys();
        match op {
            ROp::Tick { ms } => {
                Clock::advance(*ms as i64);
                RStep { applied: true, kind: "tick".into(), ..Default::default() }
            }
            ROp::RoomCreate { by, other_admins, groups } => {
                let by = *by as usize % n;
                let mut p = Parameters::new();
                p.add("me", keys[by].clone()).unwrap();
                let mut admins = String::from("{verif_key:$me},");
                for (i, a) in other_admins.iter().enumerate() {
                    p.add(&format!("oa{}", i), keys[*a as usize % n].clone()).unwrap();
                    admins.push_str(&format!("{{verif_key:$oa{}}},", i));
                }
                let mut gs = String::new();
                for (gi, g) in groups.iter().enumerate() {
                    gs.push_str(&group_text(g, &keys, &mut p, &format!("g{}", gi)));
                    gs.push(',');
                }
                let q = format!("mutate {{ sys.Room {{ admin:[{}] authorisations:[{}] }} }}", admins, gs);
                let (step, js) = self.room_mutation(by, "room-create", q, p, None, "creation".into()).await;
                if let Some(v) = js {
                    if let Some(id) = v["sys.Room"]["id"].as_str() {
                        let mut gids = vec![];
                        if let Some(a) = v["sys.Room"]["authorisations"].as_array() {
                            for g in a {
                                if let Some(gid) = g["id"].as_str() {
                                    gids.push(gid.to_string());
                                }
                            }
                        }
                        self.rooms.push(RoomInfo { id: uid_of(id), id64: id.to_string(), creator: by, groups: gids });
                    }
                }
                step
            }
            ROp::AddAdmin { by, room, ident, enabled } => {
                let by = *by as usize % n;
                let Some(r) = self.room(*room) else { return RStep::default() };
                let now = Clock::get() + 1;
                let known = self.known(by, &r.id).await;
                let entitled = known.as_ref().map(|m| m.is_admin(&keys[by], now)).unwrap_or(false);
                let mut p = Parameters::new();
                p.add("room", r.id64.clone()).unwrap();
                p.add("k", keys[*ident as usize % n].clone()).unwrap();
                let q = format!("mutate {{ sys.Room {{ id:$room admin:[{{verif_key:$k enabled:{}}}] }} }}", enabled);
                self.room_mutation(by, "add-admin", q, p, Some(entitled), format!("caller admin at {}: {}", now, entitled)).await.0
            }
            ROp::AddGroup { by, room, spec } => {
                let by = *by as usize % n;
                let Some(r) = self.room(*room) else { return RStep::default() };
                let now = Clock::get() + 1;
                let known = self.known(by, &r.id).await;
                let entitled = known.as_ref().map(|m| m.is_admin(&keys[by], now)).unwrap_or(false);
                let mut p = Parameters::new();
                p.add("room", r.id64.clone()).unwrap();
                let g = group_text(spec, &keys, &mut p, "ng");
                let q = format!("mutate {{ sys.Room {{ id:$room authorisations:[{}] }} }}", g);
                let (step, js) = self.room_mutation(by, "add-group", q, p, Some(entitled), format!("caller admin: {}", entitled)).await;
                if let Some(v) = js {
                    if let Some(gid) = v["sys.Room"]["authorisations"][0]["id"].as_str() {
                        let ri = *room as usize % self.rooms.len();
                        self.rooms[ri].groups.push(gid.to_string());
                    }
                }
                step
            }
            ROp::AddRight { by, room, group, right } => {
                let by = *by as usize % n;
                let Some(r) = self.room(*room) else { return RStep::default() };
                if r.groups.is_empty() {
                    return RStep::default();
                }
                let gid = r.groups[*group as usize % r.groups.len()].clone();
                let now = Clock::get() + 1;
                let known = self.known(by, &r.id).await;
                let entitled = known.as_ref().map(|m| m.is_admin(&keys[by], now)).unwrap_or(false);
                let mut p = Parameters::new();
                p.add("room", r.id64.clone()).unwrap();
                p.add("g", gid).unwrap();
                p.add("e", entity_sel(right.entity).to_string()).unwrap();
                let q = format!(
                    "mutate {{ sys.Room {{ id:$room authorisations:[{{ id:$g rights:[{{entity:$e mutate_self:{} mutate_all:{}}}] }}] }} }}",
                    right.own, right.all
                );
                self.room_mutation(by, "add-right", q, p, Some(entitled), format!("caller admin: {}", entitled)).await.0
            }
            ROp::AddUser { by, room, group, ident, enabled } | ROp::AddUserAdmin { by, room, group, ident, enabled } => {
                let is_user = matches!(op, ROp::AddUser { .. });
                let by = *by as usize % n;
                let Some(r) = self.room(*room) else { return RStep::default() };
                if r.groups.is_empty() {
                    return RStep::default();
                }
                let gid = r.groups[*group as usize % r.groups.len()].clone();
                let now = Clock::get() + 1;
                let known = self.known(by, &r.id).await;
                let entitled = known
                    .as_ref()
                    .map(|m| {
                        m.is_admin(&keys[by], now)
                            || (is_user && m.groups.get(&gid).map(|g| g.is_user_admin(&keys[by], now)).unwrap_or(false))
                    })
                    .unwrap_or(false);
                let mut p = Parameters::new();
                p.add("room", r.id64.clone()).unwrap();
                p.add("g", gid).unwrap();
                p.add("k", keys[*ident as usize % n].clone()).unwrap();
                let field = if is_user { "users" } else { "user_admin" };
                let q = format!(
                    "mutate {{ sys.Room {{ id:$room authorisations:[{{ id:$g {}:[{{verif_key:$k enabled:{}}}] }}] }} }}",
                    field, enabled
                );
                self.room_mutation(by, if is_user { "add-user" } else { "add-user-admin" }, q, p, Some(entitled), format!("caller admin or user admin of the group: {}", entitled)).await.0
            }
            ROp::Propagate { from, to } => {
                let (a, b) = (*to as usize % n, *from as usize % n);
                if a == b {
                    return RStep::default();
                }
                Clock::advance(1);
                let _ = pull(&self.peers[a], &self.peers[b], &PullOptions::default()).await;
                RStep { applied: true, kind: "propagate".into(), by: a, ..Default::default() }
            }
            ROp::Data { by, dt, shape } => {
                Clock::advance(*dt as i64);
                self.apply_data(*by as usize % n, shape).await
            }
        }
    }

    async fn can(&self, by: usize, room64: &Option<String>, entity: &str, need: Need) -> (bool, String) {
        let Some(r64) = room64 else { return (true, "row outside any room".into()) };
        let rid = uid_of(r64);
        let now = Clock::get();
        match self.known(by, &rid).await {
            None => (false, format!("room {} unknown to the caller's instance", r64)),
            Some(m) => {
                let ok = m.can(&self.peers[by].key64(), entity, now, need);
                (ok, format!("can({:?}) on {} in {} at {}: {}", need, entity, r64, now, ok))
            }
        }
    }

    pub async fn apply_data(&mut self, by: usize, shape: &Shape) -> RStep {
        let me = self.peers[by].key64();
        let mut step = RStep { by, ..Default::default() };
        let mut p = Parameters::new();
        let mut is_delete = false;
        let q: String;
        match shape {
            Shape::CreateBig { room, len } => {
                let Some(r) = self.room(*room) else { return step };
                step.kind = "create-near-size-limit".into();
                let (ok, why) = self.can(by, &Some(r.id64.clone()), "app.Item", Need::Own).await;
                // the size verdict is not predicted (it is compared between the two paths by C12)
                step.entitled = if ok { None } else { Some(false) };
                step.why = why;
                p.add("room", r.id64.clone()).unwrap();
                p.add("t", "x".repeat(*len as usize)).unwrap();
                q = "mutate { app.Item { room_id:$room name:$t } }".into();
            }
            Shape::Create { room, entity } => {
                let Some(r) = self.room(*room) else { return step };
                let e = if self.single_entity { 0 } else { (*entity % 2) as usize };
                step.kind = "create".into();
                let (ok, why) = self.can(by, &Some(r.id64.clone()), ENTITIES[e], Need::Own).await;
                step.entitled = Some(ok);
                step.why = why;
                p.add("room", r.id64.clone()).unwrap();
                p.add("t", text_for(3)).unwrap();
                q = if e == 0 {
                    "mutate { app.Item { room_id:$room name:$t } }".into()
                } else {
                    "mutate { app.Note { room_id:$room text:$t } }".into()
                };
            }
            Shape::CreateNested { room, child_room } => {
                let Some(r) = self.room(*room) else { return step };
                step.kind = "create-nested".into();
                let cr = match child_room {
                    Some(c) => self.room(*c).unwrap(),
                    None => r.clone(),
                };
                if child_room.is_some() && cr.id64 != r.id64 {
                    step.kind = "create-nested-other-room".into();
                }
                let (ok1, why1) = self.can(by, &Some(r.id64.clone()), "app.Item", Need::Own).await;
                let (ok2, why2) = self.can(by, &Some(cr.id64.clone()), "app.Item", Need::Own).await;
                step.entitled = Some(ok1 && ok2);
                step.why = format!("{} ; {}", why1, why2);
                p.add("room", r.id64.clone()).unwrap();
                p.add("t", text_for(4)).unwrap();
                q = if child_room.is_some() {
                    p.add("croom", cr.id64.clone()).unwrap();
                    "mutate { app.Item { room_id:$room name:$t parent:{ room_id:$croom name:$t } } }".into()
                } else {
                    "mutate { app.Item { room_id:$room name:$t parent:{ name:$t } } }".into()
                };
            }
            Shape::Update { row } | Shape::Move { row, .. } | Shape::RefSet { row, .. } | Shape::RefNull { row } | Shape::LinkAdd { row, .. } => {
                let Some(r) = self.row(*row) else { return step };
                let Some((room64, author, _)) = self.held(by, &r.id).await else { return step };
                let need = if author == me { Need::Own } else { Need::All };
                let ename = ENTITIES[r.entity as usize];
                let (ok_old, why_old) = self.can(by, &room64, ename, need).await;
                p.add("id", r.id.clone()).unwrap();
                step.touched_rows.push(r.id.clone());
                let own = if author == me { "own" } else { "foreign" };
                match shape {
                    Shape::Update { .. } => {
                        step.kind = format!("update-{}", own);
                        step.entitled = Some(ok_old);
                        step.why = why_old;
                        if r.entity == 0 {
                            p.add("v", 7i64).unwrap();
                            q = "mutate { app.Item { id:$id num:$v } }".into();
                        } else {
                            p.add("v", text_for(5)).unwrap();
                            q = "mutate { app.Note { id:$id text:$v } }".into();
                        }
                    }
                    Shape::Move { room, .. } => {
                        let Some(nr) = self.room(*room) else { return step };
                        let (ok_new, why_new) = self.can(by, &Some(nr.id64.clone()), ename, need).await;
                        let same = room64.as_deref() == Some(nr.id64.as_str());
                        step.kind = if same { format!("update-{}", own) } else { format!("move-{}", own) };
                        step.entitled = Some(ok_old && ok_new);
                        step.why = format!("old room: {} ; new room: {}", why_old, why_new);
                        p.add("room", nr.id64.clone()).unwrap();
                        if r.entity == 0 {
                            p.add("v", 8i64).unwrap();
                            q = "mutate { app.Item { id:$id room_id:$room num:$v } }".into();
                        } else {
                            p.add("v", text_for(6)).unwrap();
                            q = "mutate { app.Note { id:$id room_id:$room text:$v } }".into();
                        }
                    }
                    Shape::RefSet { target, .. } | Shape::LinkAdd { target, .. } => {
                        let Some(t) = self.row(*target) else { return step };
                        if t.entity != 0 || t.id == r.id || self.held(by, &t.id).await.is_none() {
                            return step;
                        }
                        p.add("tid", t.id.clone()).unwrap();
                        step.entitled = Some(ok_old);
                        step.why = why_old;
                        if matches!(shape, Shape::RefSet { .. }) {
                            step.kind = format!("reference-set-{}", own);
                            let field = if r.entity == 0 { "parent" } else { "about" };
                            q = format!("mutate {{ {} {{ id:$id {}:{{id:$tid}} }} }}", ename, field);
                        } else {
                            if r.entity != 0 {
                                return step;
                            }
                            step.kind = format!("reference-add-{}", own);
                            q = "mutate { app.Item { id:$id links:[{id:$tid}] } }".into();
                        }
                    }
                    Shape::RefNull { .. } => {
                        step.kind = format!("reference-remove-{}", own);
                        step.entitled = Some(ok_old);
                        step.why = why_old;
                        let field = if r.entity == 0 { "parent" } else { "about" };
                        q = format!("mutate {{ {} {{ id:$id {}:null }} }}", ename, field);
                    }
                    _ => unreachable!(),
                }
            }
            Shape::DeleteNode { row } => {
                let Some(r) = self.row(*row) else { return step };
                let Some((room64, author, _)) = self.held(by, &r.id).await else { return step };
                let need = if author == me { Need::Own } else { Need::All };
                let ename = ENTITIES[r.entity as usize];
                let (ok, why) = self.can(by, &room64, ename, need).await;
                step.kind = format!("delete-node-{}", if author == me { "own" } else { "foreign" });
                step.entitled = Some(ok);
                step.why = why;
                step.touched_rows.push(r.id.clone());
                p.add("id", r.id.clone()).unwrap();
                is_delete = true;
                q = format!("delete {{ {} {{ $id }} }}", ename);
            }
            Shape::DeleteLink { row, target } => {
                let Some(r) = self.row(*row) else { return step };
                let Some(t) = self.row(*target) else { return step };
                if r.entity != 0 {
                    return step;
                }
                let Some((room64, author, _)) = self.held(by, &r.id).await else { return step };
                // the reference must exist on the caller's instance
                let (s, d) = (unb64(&r.id), unb64(&t.id));
                let edge_author: Option<String> = self.peers[by]
                    .sql(move |c| {
                        c.query_row("SELECT verifying_key FROM _edge WHERE src=? AND dest=? AND label='35'", [&s, &d], |r| {
                            let k: Vec<u8> = r.get(0)?;
                            Ok(b64(&k))
                        })
                        .ok()
                    })
                    .await;
                let Some(edge_author) = edge_author else { return step };
                // the deletion re-dates and re-signs the source row: judged as a change of that row
                let need = if author == me && edge_author == me { Need::Own } else { Need::All };
                let (ok, why) = self.can(by, &room64, "app.Item", need).await;
                step.kind = format!(
                    "delete-reference-{}",
                    if author == me && edge_author == me { "own" } else if edge_author == me { "own-reference-on-foreign-row" } else { "foreign" }
                );
                step.entitled = Some(ok);
                step.why = why;
                step.touched_rows.push(r.id.clone());
                p.add("id", r.id.clone()).unwrap();
                p.add("tid", t.id.clone()).unwrap();
                is_delete = true;
                q = "delete { app.Item { $id links[$tid] } }".into();
            }
            Shape::SysDirect { kind } => {
                // never entitled: authorisation rows are only changed inside a room mutation
                step.entitled = Some(false);
                step.why = "authorisation rows are never changed outside a room mutation".into();
                step.kind = format!("sys-direct-{}", kind % 8);
                // find an existing authorisation row on the caller's instance to aim at
                let target: Option<(String, String)> = self.peers[by]
                    .sql(|c| {
                        c.query_row(
                            "SELECT id, _entity FROM _node WHERE _entity IN ('0.1','0.2','0.3') ORDER BY id LIMIT 1",
                            [],
                            |r| {
                                let id: Vec<u8> = r.get(0)?;
                                let e: String = r.get(1)?;
                                Ok((b64(&id), e))
                            },
                        )
                        .ok()
                    })
                    .await;
                p.add("k", me.clone()).unwrap();
                match kind % 8 {
                    0 => q = "mutate { sys.UserAuth { verif_key:$k } }".into(),
                    1 => q = "mutate { sys.EntityRight { entity:\"*\" mutate_self:true mutate_all:true } }".into(),
                    2 => q = "mutate { sys.Authorisation { name:\"x\" users:[{verif_key:$k}] } }".into(),
                    _ => {
                        let Some((id, e)) = target else { return step };
                        p.add("id", id).unwrap();
                        let name = match e.as_str() {
                            "0.1" => "sys.Authorisation",
                            "0.2" => "sys.UserAuth",
                            _ => "sys.EntityRight",
                        };
                        match kind % 8 {
                            3 | 4 => {
                                q = match name {
                                    "sys.Authorisation" => "mutate { sys.Authorisation { id:$id name:\"changed\" } }".into(),
                                    "sys.UserAuth" => "mutate { sys.UserAuth { id:$id enabled:false } }".into(),
                                    _ => "mutate { sys.EntityRight { id:$id mutate_all:true mutate_self:true } }".into(),
                                }
                            }
                            _ => {
                                is_delete = true;
                                q = format!("delete {{ {} {{ $id }} }}", name);
                            }
                        }
                    }
                }
            }
        }
        step.applied = true;
        step.query = q.clone();
        let rows_before = self.rows.len();
        let res = if is_delete {
            self.peers[by].delete(&q, Some(p)).await
        } else {
            match self.peers[by].mutate(&q, Some(p)).await {
                Ok(js) => {
                    if let Ok(v) = serde_json::from_str::<serde_json::Value>(&js) {
                        for (ei, en) in ENTITIES.iter().enumerate() {
                            if matches!(shape, Shape::Create { .. } | Shape::CreateNested { .. } | Shape::CreateBig { .. }) {
                                if let Some(id) = v[*en]["id"].as_str() {
                                    self.rows.push(RRow { id: id.to_string(), entity: ei as u8 });
                                }
                                if let Some(id) = v[*en]["parent"]["id"].as_str() {
                                    self.rows.push(RRow { id: id.to_string(), entity: 0 });
                                }
                            }
                        }
                    }
                    Ok(())
                }
                Err(e) => Err(e),
            }
        };
        for r in &self.rows[rows_before..] {
            step.new_row_ids.push(r.id.clone());
        }
        step.result = Some(res);
        self.peers[by].fence().await;
        step
    }
}
