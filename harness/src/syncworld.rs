//! Multi-peer world used by the synchronisation properties (C03, C09, C11, C17, C18):
//! N real instances sharing rooms, a serialisable op language, and an interpreter.

use crate::engine::pick;
use crate::world::*;
use discret::verif::security::Uid;
use proptest::prelude::*;
use serde::{Deserialize, Serialize};

pub const MODEL: &str = "app {
    Item {
        name: String,
        num: Integer default 0,
        parent: app.Item nullable,
        links: [app.Item] nullable
    }
    Note(no_full_text_index) {
        text: String,
        about: app.Item nullable
    }
}";

pub const ENTITIES: [&str; 2] = ["app.Item", "app.Note"];

#[derive(Clone, Debug, Serialize, Deserialize, PartialEq)]
pub enum Action {
    /// create a row; `parent`: optional reference to an existing row (index in creation order)
    Create { entity: u8, room: u8, text: u8, parent: Option<u16> },
    /// change a scalar of a row
    Update { row: u16, value: u8 },
    /// replace or remove the single reference
    SetParent { row: u16, target: Option<u16> },
    /// add an array reference
    AddLink { row: u16, target: u16 },
    /// move a row to the other room
    Move { row: u16, room: u8 },
    DeleteNode { row: u16 },
    DeleteLink { row: u16, target: u16 },
    DeleteParent { row: u16 },
}

#[derive(Clone, Debug, Serialize, Deserialize, PartialEq)]
pub enum Op {
    /// advance the clock
    Tick { ms: u32 },
    /// local write on a peer, `dt` milliseconds after the previous step (0 = same millisecond)
    Write { peer: u8, dt: u16, action: Action },
    /// `puller` pulls from `server`
    Sync { puller: u8, server: u8 },
    /// both directions at once
    SyncBoth { a: u8, b: u8 },
    /// pull interrupted after `after` answers
    SyncCut { puller: u8, server: u8, after: u8 },
    /// explicit recomputation request on a peer
    Recompute { peer: u8 },
    /// `n` creations issued together on one peer: through a mutation stream (pipelined, stream
    /// closed at the end) or by `n` concurrent callers
    Burst { peer: u8, n: u8, stream: bool, room: u8 },
    /// the admin (peer 0) appends a user entry for a key that belongs to nobody
    RoomChange { room: u8, key: u8 },
    /// the admin (peer 0) issues ONE mutation holding the same kind of room change and the creation of a
    /// data row of `data_room`, the row before or after the room in the mutation text
    RoomChangeWithRow { room: u8, key: u8, data_room: u8, entity: u8, text: u8, row_first: bool },
}

pub fn action_strategy(rooms: u8) -> impl Strategy<Value = Action> {
    let row = any::<u16>();
    prop_oneof![
        4 => (0u8..2, 0..rooms, 0u8..14, proptest::option::weighted(0.3, any::<u16>()))
            .prop_map(|(entity, room, text, parent)| Action::Create { entity, room, text, parent }),
        4 => (row, 0u8..14).prop_map(|(row, value)| Action::Update { row, value }),
        2 => (row, proptest::option::weighted(0.7, any::<u16>()))
            .prop_map(|(row, target)| Action::SetParent { row, target }),
        2 => (row, any::<u16>()).prop_map(|(row, target)| Action::AddLink { row, target }),
        1 => (row, 0..rooms).prop_map(|(row, room)| Action::Move { row, room }),
        3 => row.prop_map(|row| Action::DeleteNode { row }),
        2 => (row, any::<u16>()).prop_map(|(row, target)| Action::DeleteLink { row, target }),
    ]
}

pub fn tick_strategy() -> impl Strategy<Value = u32> {
    prop_oneof![
        3 => 1u32..1000,
        2 => 3_600_000u32..7_200_000,
        3 => (DAY as u32 - 1000)..(2 * DAY as u32),
    ]
}

pub fn dt_strategy() -> impl Strategy<Value = u16> {
    prop_oneof![2 => Just(0u16), 5 => 1u16..20, 1 => 1000u16..60000]
}

pub fn op_strategy(peers: u8, rooms: u8) -> impl Strategy<Value = Op> {
    prop_oneof![
        2 => tick_strategy().prop_map(|ms| Op::Tick { ms }),
        8 => (0..peers, dt_strategy(), action_strategy(rooms))
            .prop_map(|(peer, dt, action)| Op::Write { peer, dt, action }),
        6 => (0..peers, 0..peers).prop_map(|(puller, server)| Op::Sync { puller, server }),
        1 => (0..peers, 0..peers).prop_map(|(a, b)| Op::SyncBoth { a, b }),
        1 => (0..peers, 0..peers, 1u8..12).prop_map(|(puller, server, after)| Op::SyncCut { puller, server, after }),
        1 => (0..peers).prop_map(|peer| Op::Recompute { peer }),
        1 => (0..peers, 2u8..6, any::<bool>(), 0..rooms).prop_map(|(peer, n, stream, room)| Op::Burst { peer, n, stream, room }),
        1 => (0..rooms, 0u8..4).prop_map(|(room, key)| Op::RoomChange { room, key }),
        1 => (0..rooms, 0u8..4, 0..rooms, 0u8..2, 0u8..14, any::<bool>())
            .prop_map(|(room, key, data_room, entity, text, row_first)| Op::RoomChangeWithRow { room, key, data_room, entity, text, row_first }),
    ]
}

#[derive(Clone, Debug)]
pub struct RowInfo {
    pub id: String,
    pub entity: u8,
    pub creator: usize,
}

/// what a step did, for labels and oracles
#[derive(Clone, Debug, Default)]
pub struct StepInfo {
    pub applied: bool,
    pub kind: &'static str,
    pub peer: Option<usize>,
    pub result: Option<Result<(), String>>,
    pub stats: Vec<LinkStats>,
}

pub struct SyncWorld {
    pub peers: Vec<Peer>,
    pub rooms: Vec<Uid>,
    pub rooms64: Vec<String>,
    /// id of the single authorisation group of each room
    pub auths64: Vec<String>,
    pub rows: Vec<RowInfo>,
    /// exclusion by construction of known-finding shapes
    pub single_entity: bool,
    pub no_double_delete: bool,
    pub deleted: std::collections::BTreeSet<String>,
    pub excluded: u64,
    /// mode 0: a row whose references changed at date d is only written by peers that hold a
    /// version >= d, and never twice in the same millisecond
    /// a closed mutation stream requests its recomputation before its writes are committed (the
    /// request overtakes them), so the log stays dirty: by default the world asks again, C18 does not
    pub recompute_after_stream: bool,
    pub ordered_reference_changes: bool,
    pub ref_version: std::collections::BTreeMap<String, i64>,
    pub last_write: std::collections::BTreeMap<String, i64>,
}

impl SyncWorld {
    /// start `n` instances; peer 0 creates `rooms` rooms in which every peer is a user with
    /// full rights; every other peer pulls the definitions from peer 0.
    pub async fn start(n: usize, rooms: usize, dir: &std::path::Path) -> Result<SyncWorld, String> {
        let mut peers = Vec::new();
        for i in 0..n {
            peers.push(Peer::start(&format!("peer{}", i), MODEL, dir.join(format!("p{}", i))).await?);
        }
        let mut w = SyncWorld {
            peers,
            rooms: vec![],
            rooms64: vec![],
            auths64: vec![],
            rows: vec![],
            single_entity: false,
            no_double_delete: false,
            deleted: Default::default(),
            excluded: 0,
            recompute_after_stream: false, // (true was a workaround for the early recomputation request of mutation_stream, repaired)
            ordered_reference_changes: false,
            ref_version: Default::default(),
            last_write: Default::default(),
        };
        for _ in 0..rooms {
            Clock::advance(1);
            let mut users = String::new();
            let mut p = Parameters::new();
            p.add("admin", w.peers[0].key64()).unwrap();
            for (i, peer) in w.peers.iter().enumerate() {
                users.push_str(&format!("{{verif_key:$u{}}},", i));
                p.add(&format!("u{}", i), peer.key64()).unwrap();
            }
            let q = format!(
                "mutate {{
                    sys.Room{{
                        admin: [{{verif_key:$admin}}]
                        authorisations:[{{
                            name:\"all\"
                            rights:[{{entity:\"*\" mutate_self:true mutate_all:true}}]
                            users:[{}]
                        }}]
                    }}
                }}",
                users
            );
            let res = w.peers[0].mutate(&q, Some(p)).await?;
            let v: serde_json::Value = serde_json::from_str(&res).map_err(|e| e.to_string())?;
            let id = v["sys.Room"]["id"].as_str().ok_or("room id")?.to_string();
            let auth = v["sys.Room"]["authorisations"][0]["id"].as_str().ok_or("auth id")?.to_string();
            w.rooms.push(uid_of(&id));
            w.rooms64.push(id);
            w.auths64.push(auth);
        }
        Clock::advance(1);
        for i in 1..n {
            let st = pull(&w.peers[i], &w.peers[0], &PullOptions::default()).await;
            if !st.sync_errors.is_empty() {
                return Err(format!("initial room propagation: {:?}", st.sync_errors));
            }
        }
        Ok(w)
    }

    pub async fn holds(&self, peer: usize, id: &str) -> bool {
        let id = unb64(id);
        self.peers[peer]
            .sql(move |c| {
                c.query_row("SELECT 1 FROM _node WHERE id=?", [&id], |_| Ok(()))
                    .is_ok()
            })
            .await
    }

    fn row(&self, ix: u16) -> Option<&RowInfo> {
        if self.rows.is_empty() {
            None
        } else {
            Some(&self.rows[pick(ix, self.rows.len())])
        }
    }

    pub async fn apply_action(&mut self, peer: usize, action: &Action) -> StepInfo {
        let target_row = match action {
            Action::Create { .. } => None,
            Action::Update { row, .. }
            | Action::SetParent { row, .. }
            | Action::AddLink { row, .. }
            | Action::Move { row, .. }
            | Action::DeleteNode { row }
            | Action::DeleteLink { row, .. }
            | Action::DeleteParent { row } => self.row(*row).cloned(),
        };
        if self.ordered_reference_changes {
            if let Some(r) = &target_row {
                let now = Clock::get();
                if self.last_write.get(&r.id) == Some(&now) {
                    self.excluded += 1;
                    return StepInfo::default();
                }
                if let Some(rv) = self.ref_version.get(&r.id) {
                    if let Some(m) = self.local_mdate(peer, &r.id).await {
                        if m < *rv {
                            self.excluded += 1;
                            return StepInfo::default();
                        }
                    }
                }
            }
        }
        let info = self.apply_action_inner(peer, action).await;
        if info.applied {
            if let Some(r) = &target_row {
                let now = Clock::get();
                self.last_write.insert(r.id.clone(), now);
                if matches!(
                    action,
                    Action::SetParent { .. } | Action::AddLink { .. } | Action::DeleteLink { .. }
                ) {
                    self.ref_version.insert(r.id.clone(), now);
                }
            } else if let Some(r) = self.rows.last() {
                self.last_write.insert(r.id.clone(), Clock::get());
            }
        }
        info
    }

    async fn apply_action_inner(&mut self, peer: usize, action: &Action) -> StepInfo {
        let mut info = StepInfo {
            peer: Some(peer),
            ..Default::default()
        };
        let p = &self.peers[peer];
        match action {
            Action::Create { entity, room, text, parent } => {
                info.kind = "create";
                let entity = &(if self.single_entity { 0u8 } else { *entity });
                let room = &self.rooms64[*room as usize % self.rooms64.len()];
                let mut params = Parameters::new();
                params.add("room", room.clone()).unwrap();
                params.add("text", text_for(*text)).unwrap();
                let mut parent_clause = String::new();
                if let Some(pix) = parent {
                    if let Some(r) = self.row(*pix) {
                        if r.entity == 0 && self.holds(peer, &r.id).await {
                            params.add("pid", r.id.clone()).unwrap();
                            parent_clause = if *entity == 0 {
                                "parent: {id:$pid}".to_string()
                            } else {
                                "about: {id:$pid}".to_string()
                            };
                            info.kind = "create-with-ref";
                        }
                    }
                }
                let q = if *entity == 0 {
                    format!("mutate {{ app.Item {{ room_id:$room name:$text {} }} }}", parent_clause)
                } else {
                    format!("mutate {{ app.Note {{ room_id:$room text:$text {} }} }}", parent_clause)
                };
                let res = p.mutate(&q, Some(params)).await;
                info.applied = true;
                match res {
                    Ok(js) => {
                        let v: serde_json::Value = serde_json::from_str(&js).unwrap();
                        let id = v[ENTITIES[*entity as usize]]["id"].as_str().unwrap().to_string();
                        self.rows.push(RowInfo {
                            id,
                            entity: *entity,
                            creator: peer,
                        });
                        info.result = Some(Ok(()));
                    }
                    Err(e) => info.result = Some(Err(e)),
                }
            }
            Action::Update { row, value } => {
                info.kind = "update";
                if let Some(r) = self.row(*row).cloned() {
                    if self.holds(peer, &r.id).await {
                        let mut params = Parameters::new();
                        params.add("id", r.id.clone()).unwrap();
                        let q = if r.entity == 0 {
                            params.add("v", *value as i64).unwrap();
                            if *value % 2 == 0 {
                                "mutate { app.Item { id:$id num:$v } }"
                            } else {
                                params.add("t", text_for(*value)).unwrap();
                                "mutate { app.Item { id:$id num:$v name:$t } }"
                            }
                        } else {
                            params.add("v", text_for(*value)).unwrap();
                            "mutate { app.Note { id:$id text:$v } }"
                        };
                        info.applied = true;
                        info.result = Some(p.mutate(q, Some(params)).await.map(|_| ()));
                    }
                }
            }
            Action::SetParent { row, target } => {
                info.kind = "set-parent";
                if let Some(r) = self.row(*row).cloned() {
                    if self.holds(peer, &r.id).await {
                        let field = if r.entity == 0 { "parent" } else { "about" };
                        let mut params = Parameters::new();
                        params.add("id", r.id.clone()).unwrap();
                        let mut q = None;
                        match target {
                            Some(t) => {
                                if let Some(tr) = self.row(*t).cloned() {
                                    if tr.entity == 0 && tr.id != r.id && self.holds(peer, &tr.id).await {
                                        params.add("tid", tr.id.clone()).unwrap();
                                        q = Some(format!(
                                            "mutate {{ {} {{ id:$id {}:{{id:$tid}} }} }}",
                                            ENTITIES[r.entity as usize], field
                                        ));
                                    }
                                }
                            }
                            None => {
                                info.kind = "null-parent";
                                q = Some(format!(
                                    "mutate {{ {} {{ id:$id {}:null }} }}",
                                    ENTITIES[r.entity as usize], field
                                ));
                            }
                        }
                        if let Some(q) = q {
                            info.applied = true;
                            info.result = Some(p.mutate(&q, Some(params)).await.map(|_| ()));
                        }
                    }
                }
            }
            Action::AddLink { row, target } => {
                info.kind = "add-link";
                if let (Some(r), Some(tr)) = (self.row(*row).cloned(), self.row(*target).cloned()) {
                    if r.entity == 0 && tr.entity == 0 && self.holds(peer, &r.id).await && self.holds(peer, &tr.id).await {
                        let mut params = Parameters::new();
                        params.add("id", r.id.clone()).unwrap();
                        params.add("tid", tr.id.clone()).unwrap();
                        info.applied = true;
                        info.result = Some(
                            p.mutate("mutate { app.Item { id:$id links:[{id:$tid}] } }", Some(params))
                                .await
                                .map(|_| ()),
                        );
                    }
                }
            }
            Action::Move { row, room } => {
                info.kind = "move";
                if self.rooms64.len() > 1 {
                    if let Some(r) = self.row(*row).cloned() {
                        if self.holds(peer, &r.id).await {
                            let mut params = Parameters::new();
                            params.add("id", r.id.clone()).unwrap();
                            params
                                .add("room", self.rooms64[*room as usize % self.rooms64.len()].clone())
                                .unwrap();
                            let q = format!(
                                "mutate {{ {} {{ id:$id room_id:$room {}:$v }} }}",
                                ENTITIES[r.entity as usize],
                                if r.entity == 0 { "num" } else { "text" }
                            );
                            if r.entity == 0 {
                                params.add("v", 99i64).unwrap();
                            } else {
                                params.add("v", "moved".to_string()).unwrap();
                            }
                            info.applied = true;
                            info.result = Some(p.mutate(&q, Some(params)).await.map(|_| ()));
                        }
                    }
                }
            }
            Action::DeleteNode { row } => {
                info.kind = "delete-node";
                if let Some(r) = self.row(*row).cloned() {
                    if self.no_double_delete && self.deleted.contains(&r.id) {
                        self.excluded += 1;
                    } else if self.holds(peer, &r.id).await {
                        let mut params = Parameters::new();
                        params.add("id", r.id.clone()).unwrap();
                        let q = format!("delete {{ {} {{ $id }} }}", ENTITIES[r.entity as usize]);
                        info.applied = true;
                        info.result = Some(p.delete(&q, Some(params)).await);
                        self.deleted.insert(r.id.clone());
                    }
                }
            }
            Action::DeleteLink { row, target } => {
                info.kind = "delete-link";
                if let (Some(r), Some(tr)) = (self.row(*row).cloned(), self.row(*target).cloned()) {
                    if r.entity == 0 && self.holds(peer, &r.id).await {
                        let has = self.has_edge(peer, &r.id, &tr.id).await;
                        if has {
                            let mut params = Parameters::new();
                            params.add("id", r.id.clone()).unwrap();
                            params.add("tid", tr.id.clone()).unwrap();
                            info.applied = true;
                            info.result =
                                Some(p.delete("delete { app.Item { $id links[$tid] } }", Some(params)).await);
                        }
                    }
                }
            }
            Action::DeleteParent { .. } => {
                // single references cannot be removed with a deletion query (only arrays): not generated
                info.kind = "noop";
            }
        }
        if info.applied {
            self.peers[peer].fence().await;
        }
        info
    }

    pub async fn has_edge(&self, peer: usize, src: &str, dest: &str) -> bool {
        let s = unb64(src);
        let d = unb64(dest);
        self.peers[peer]
            .sql(move |c| {
                c.query_row("SELECT 1 FROM _edge WHERE src=? AND dest=?", [&s, &d], |_| Ok(()))
                    .is_ok()
            })
            .await
    }

    pub async fn apply(&mut self, op: &Op) -> StepInfo {
        let n = self.peers.len();
        match op {
            Op::Tick { ms } => {
                Clock::advance(*ms as i64);
                StepInfo {
                    applied: true,
                    kind: "tick",
                    ..Default::default()
                }
            }
            Op::Write { peer, dt, action } => {
                Clock::advance(*dt as i64);
                self.apply_action(*peer as usize % n, action).await
            }
            Op::Sync { puller, server } => {
                let (a, b) = (*puller as usize % n, *server as usize % n);
                if a == b {
                    return StepInfo::default();
                }
                Clock::advance(1);
                let st = pull(&self.peers[a], &self.peers[b], &PullOptions::default()).await;
                StepInfo {
                    applied: true,
                    kind: "sync",
                    peer: Some(a),
                    result: None,
                    stats: vec![st],
                }
            }
            Op::SyncBoth { a, b } => {
                let (a, b) = (*a as usize % n, *b as usize % n);
                if a == b {
                    return StepInfo::default();
                }
                Clock::advance(1);
                let o = PullOptions::default();
                let (s1, s2) = tokio::join!(
                    pull(&self.peers[a], &self.peers[b], &o),
                    pull(&self.peers[b], &self.peers[a], &o)
                );
                StepInfo {
                    applied: true,
                    kind: "sync-both",
                    peer: Some(a),
                    result: None,
                    stats: vec![s1, s2],
                }
            }
            Op::SyncCut { puller, server, after } => {
                let (a, b) = (*puller as usize % n, *server as usize % n);
                if a == b {
                    return StepInfo::default();
                }
                Clock::advance(1);
                let o = PullOptions {
                    cut_after: Some(*after as u64),
                    ..Default::default()
                };
                let st = pull(&self.peers[a], &self.peers[b], &o).await;
                StepInfo {
                    applied: true,
                    kind: "sync-cut",
                    peer: Some(a),
                    result: None,
                    stats: vec![st],
                }
            }
            Op::Recompute { peer } => {
                self.peers[*peer as usize % n].recompute().await;
                StepInfo {
                    applied: true,
                    kind: "recompute",
                    ..Default::default()
                }
            }
            Op::Burst { peer, n: count, stream, room } => {
                Clock::advance(1);
                let pi = *peer as usize % n;
                let room = self.rooms64[*room as usize % self.rooms64.len()].clone();
                let q = "mutate { app.Item { room_id:$room name:$text } }";
                let mut ids = vec![];
                let mut result: Result<(), String> = Ok(());
                if *stream {
                    let (tx, mut rx) = self.peers[pi].db.mutation_stream();
                    let count = *count;
                    let room2 = room.clone();
                    let sender = tokio::spawn(async move {
                        for i in 0..count {
                            let mut p = Parameters::new();
                            p.add("room", room2.clone()).unwrap();
                            p.add("text", text_for(i)).unwrap();
                            if tx.send((q.to_string(), Some(p))).await.is_err() {
                                break;
                            }
                        }
                    });
                    while let Some(r) = rx.recv().await {
                        match r {
                            Ok(m) => match m.result() {
                                Ok(js) => {
                                    let v: serde_json::Value = serde_json::from_str(&js).unwrap();
                                    ids.push(v["app.Item"]["id"].as_str().unwrap().to_string());
                                }
                                Err(e) => result = Err(e.to_string()),
                            },
                            Err(e) => result = Err(e.to_string()),
                        }
                    }
                    let _ = sender.await;
                } else {
                    // the concurrent requests are spread over the rooms and both entities so that they touch
                    // different (room, entity, day) triples
                    let mut futs = vec![];
                    let base = self.rooms64.iter().position(|r| *r == room).unwrap_or(0);
                    for i in 0..*count {
                        let mut p = Parameters::new();
                        p.add("room", self.rooms64[(base + i as usize) % self.rooms64.len()].clone()).unwrap();
                        p.add("text", text_for(i)).unwrap();
                        let note = !self.single_entity && i % 2 == 1;
                        let qq = if note { "mutate { app.Note { room_id:$room text:$text } }" } else { q };
                        let peer = &self.peers[pi];
                        futs.push(async move { (note, peer.mutate(qq, Some(p)).await) });
                    }
                    let mut notes = vec![];
                    for (note, r) in futures::future::join_all(futs).await {
                        match r {
                            Ok(js) => {
                                let v: serde_json::Value = serde_json::from_str(&js).unwrap();
                                if note {
                                    notes.push(v["app.Note"]["id"].as_str().unwrap().to_string());
                                } else {
                                    ids.push(v["app.Item"]["id"].as_str().unwrap().to_string());
                                }
                            }
                            Err(e) => result = Err(e),
                        }
                    }
                    notes.sort();
                    for id in notes {
                        self.rows.push(RowInfo { id, entity: 1, creator: pi });
                    }
                }
                ids.sort();
                for id in ids {
                    self.rows.push(RowInfo { id, entity: 0, creator: pi });
                }
                self.peers[pi].fence().await;
                if *stream && self.recompute_after_stream {
                    self.peers[pi].recompute().await;
                }
                StepInfo {
                    applied: true,
                    kind: if *stream { "burst-stream" } else { "burst-concurrent" },
                    peer: Some(pi),
                    result: Some(result),
                    stats: vec![],
                }
            }
            Op::RoomChange { room, key } => {
                Clock::advance(1);
                let ri = *room as usize % self.rooms64.len();
                let mut p = Parameters::new();
                p.add("room", self.rooms64[ri].clone()).unwrap();
                p.add("auth", self.auths64[ri].clone()).unwrap();
                let paper = signing_key_for_secret(&secret_for(&format!("paper{}", key)));
                use discret::verif::security::SigningKey;
                p.add("k", b64(&paper.export_verifying_key())).unwrap();
                let r = self.peers[0]
                    .mutate(
                        "mutate { sys.Room { id:$room authorisations:[{ id:$auth users:[{verif_key:$k}] }] } }",
                        Some(p),
                    )
                    .await
                    .map(|_| ());
                self.peers[0].fence().await;
                StepInfo {
                    applied: true,
                    kind: "room-change",
                    peer: Some(0),
                    result: Some(r),
                    stats: vec![],
                }
            }
            Op::RoomChangeWithRow { room, key, data_room, entity, text, row_first } => {
                Clock::advance(1);
                let ri = *room as usize % self.rooms64.len();
                let di = *data_room as usize % self.rooms64.len();
                let entity = *entity % 2;
                let mut p = Parameters::new();
                p.add("room", self.rooms64[ri].clone()).unwrap();
                p.add("auth", self.auths64[ri].clone()).unwrap();
                p.add("droom", self.rooms64[di].clone()).unwrap();
                p.add("text", text_for(*text)).unwrap();
                let paper = signing_key_for_secret(&secret_for(&format!("paper{}", key)));
                use discret::verif::security::SigningKey;
                p.add("k", b64(&paper.export_verifying_key())).unwrap();
                let room_part = "sys.Room { id:$room authorisations:[{ id:$auth users:[{verif_key:$k}] }] }";
                let row_part = if entity == 0 { "app.Item { room_id:$droom name:$text }" } else { "app.Note { room_id:$droom text:$text }" };
                let q = if *row_first { format!("mutate {{ {} {} }}", row_part, room_part) } else { format!("mutate {{ {} {} }}", room_part, row_part) };
                let r = match self.peers[0].mutate(&q, Some(p)).await {
                    Ok(js) => {
                        let v: serde_json::Value = serde_json::from_str(&js).unwrap();
                        if let Some(id) = v[ENTITIES[entity as usize]]["id"].as_str() {
                            self.rows.push(RowInfo { id: id.to_string(), entity, creator: 0 });
                            self.last_write.insert(id.to_string(), Clock::get());
                        }
                        Ok(())
                    }
                    Err(e) => Err(e),
                };
                self.peers[0].fence().await;
                StepInfo {
                    applied: true,
                    kind: "room-change-with-row",
                    peer: Some(0),
                    result: Some(r),
                    stats: vec![],
                }
            }
        }
    }

    /// rounds of all ordered pairs (order derived from `perm`) until a full round changes no
    /// peer's content; returns the number of rounds, or None when the bound was hit
    pub async fn quiesce(&mut self, perm: u64, max_rounds: usize) -> (Option<usize>, u64) {
        let n = self.peers.len();
        let mut pairs = vec![];
        for a in 0..n {
            for b in 0..n {
                if a != b {
                    pairs.push((a, b));
                }
            }
        }
        // deterministic shuffle from perm
        let mut x = perm | 1;
        for i in (1..pairs.len()).rev() {
            x ^= x << 13;
            x ^= x >> 7;
            x ^= x << 17;
            let j = (x % (i as u64 + 1)) as usize;
            pairs.swap(i, j);
        }
        let mut transferred_total = 0;
        for round in 0..max_rounds {
            let before = self.content().await;
            for (a, b) in &pairs {
                Clock::advance(1);
                let st = pull(&self.peers[*a], &self.peers[*b], &PullOptions::default()).await;
                transferred_total += st.rows();
                if std::env::var("DV_TRACE").is_ok() {
                    println!("   round {} pull {}<-{}: rows {} errors {:?} queries {:?}", round, a, b, st.rows(), st.sync_errors, st.queries);
                }
            }
            let after = self.content().await;
            if before == after {
                return (Some(round + 1), transferred_total);
            }
        }
        (None, transferred_total)
    }

    /// observable user data content of every peer (without the log)
    pub async fn content(&self) -> Vec<Snapshot> {
        let mut v = vec![];
        for p in &self.peers {
            v.push(p.snapshot().await.user_data().observable());
        }
        v
    }
    /// raw user data of every peer
    pub async fn raw_content(&self) -> Vec<Snapshot> {
        let mut v = vec![];
        for p in &self.peers {
            v.push(p.snapshot().await.user_data());
        }
        v
    }
    pub async fn local_mdate(&self, peer: usize, id: &str) -> Option<i64> {
        let id = unb64(id);
        self.peers[peer]
            .sql(move |c| c.query_row("SELECT mdate FROM _node WHERE id=?", [&id], |r| r.get(0)).ok())
            .await
    }
}

pub const WORDS: [&str; 14] = [
    "alpha", "bravo", "charlie delta", "echo", "foxtrot golf", "hotel", "india", "juliet kilo", "lima",
    "mike", "november", "oscar papa", "", "  ",
];
pub fn text_for(i: u8) -> String {
    WORDS[i as usize % WORDS.len()].to_string()
}
