//! Independent rights model written from the property statements (C01, C02, C07, C10, C12).
//!
//! A room definition is a set of dated entries: admins, and per group users, user admins and
//! per-entity (or wildcard) rights. The effective entry of a key (or entity) at a date is the latest
//! entry whose date is <= that date (ties: the entry appended last). Decisions:
//! * admin(key, date): effective admin entry enabled;
//! * member(group, key, date): effective user entry or effective user-admin entry enabled;
//! * can(key, entity, date, Own|All): some group whose effective right for the entity (the entity's own
//!   entries if it has any entry effective at that date, else the wildcard's) grants it, and in which
//!   the key is a member at that date, or the key is an admin of the room at that date.
//!   A right granting All grants Own.

use discret::verif::database::room::Room;
use serde::{Deserialize, Serialize};
use std::collections::BTreeMap;

#[derive(Clone, Debug, PartialEq, Eq, Serialize, Deserialize, PartialOrd, Ord)]
pub struct UserEntry {
    pub date: i64,
    pub enabled: bool,
}
#[derive(Clone, Debug, PartialEq, Eq, Serialize, Deserialize, PartialOrd, Ord)]
pub struct RightEntry {
    pub date: i64,
    pub own: bool,
    pub all: bool,
}
#[derive(Clone, Debug, Default, PartialEq, Eq, Serialize, Deserialize)]
pub struct GroupModel {
    /// key (base64) -> entries in history order
    pub users: BTreeMap<String, Vec<UserEntry>>,
    pub user_admins: BTreeMap<String, Vec<UserEntry>>,
    /// entity name (or "*") -> entries in history order
    pub rights: BTreeMap<String, Vec<RightEntry>>,
}
#[derive(Clone, Debug, Default, PartialEq, Eq, Serialize, Deserialize)]
pub struct RoomModel {
    pub admins: BTreeMap<String, Vec<UserEntry>>,
    pub groups: BTreeMap<String, GroupModel>,
}

#[derive(Clone, Copy, Debug, PartialEq, Eq)]
pub enum Need {
    Own,
    All,
}

fn effective_user(entries: Option<&Vec<UserEntry>>, date: i64) -> Option<&UserEntry> {
    let entries = entries?;
    let mut best: Option<&UserEntry> = None;
    for e in entries {
        if e.date <= date {
            match best {
                Some(b) if b.date > e.date => {}
                _ => best = Some(e),
            }
        }
    }
    best
}
fn effective_right(entries: Option<&Vec<RightEntry>>, date: i64) -> Option<&RightEntry> {
    let entries = entries?;
    let mut best: Option<&RightEntry> = None;
    for e in entries {
        if e.date <= date {
            match best {
                Some(b) if b.date > e.date => {}
                _ => best = Some(e),
            }
        }
    }
    best
}

impl GroupModel {
    pub fn is_user_admin(&self, key: &str, date: i64) -> bool {
        effective_user(self.user_admins.get(key), date).map(|e| e.enabled).unwrap_or(false)
    }
    pub fn is_member(&self, key: &str, date: i64) -> bool {
        effective_user(self.users.get(key), date).map(|e| e.enabled).unwrap_or(false)
            || self.is_user_admin(key, date)
    }
    pub fn grants(&self, entity: &str, date: i64, need: Need) -> bool {
        let r = match effective_right(self.rights.get(entity), date) {
            Some(r) => Some(r),
            None => effective_right(self.rights.get("*"), date),
        };
        match r {
            Some(r) => match need {
                Need::Own => r.own || r.all,
                Need::All => r.all,
            },
            None => false,
        }
    }
}

impl RoomModel {
    pub fn is_admin(&self, key: &str, date: i64) -> bool {
        effective_user(self.admins.get(key), date).map(|e| e.enabled).unwrap_or(false)
    }
    pub fn is_member(&self, key: &str, date: i64) -> bool {
        self.is_admin(key, date) || self.groups.values().any(|g| g.is_member(key, date))
    }
    pub fn can(&self, key: &str, entity: &str, date: i64, need: Need) -> bool {
        let admin = self.is_admin(key, date);
        self.groups
            .values()
            .any(|g| (admin || g.is_member(key, date)) && g.grants(entity, date, need))
    }
    pub fn keys(&self) -> Vec<String> {
        let mut k: Vec<String> = self.admins.keys().cloned().collect();
        for g in self.groups.values() {
            k.extend(g.users.keys().cloned());
            k.extend(g.user_admins.keys().cloned());
        }
        k.sort();
        k.dedup();
        k
    }
    pub fn dates(&self) -> Vec<i64> {
        let mut d = vec![];
        for v in self.admins.values() {
            d.extend(v.iter().map(|e| e.date));
        }
        for g in self.groups.values() {
            for v in g.users.values().chain(g.user_admins.values()) {
                d.extend(v.iter().map(|e| e.date));
            }
            for v in g.rights.values() {
                d.extend(v.iter().map(|e| e.date));
            }
        }
        d.sort();
        d.dedup();
        d
    }

    /// the entries an instance holds in memory (hook H7), as data; decisions are made by this module
    pub fn from_room(room: &Room) -> RoomModel {
        let conv = |m: &std::collections::HashMap<Vec<u8>, Vec<discret::verif::database::room::User>>| {
            let mut out = BTreeMap::new();
            for (k, v) in m {
                out.insert(
                    crate::world::b64(k),
                    v.iter().map(|u| UserEntry { date: u.date, enabled: u.enabled }).collect::<Vec<_>>(),
                );
            }
            out
        };
        let mut groups = BTreeMap::new();
        for (id, a) in &room.authorisations {
            let mut rights = BTreeMap::new();
            for (ent, list) in &a.rights {
                rights.insert(
                    ent.clone(),
                    list.iter()
                        .map(|r| {
                            let (date, _, own, all) = r.verif_fields();
                            RightEntry { date, own, all }
                        })
                        .collect::<Vec<_>>(),
                );
            }
            groups.insert(
                crate::world::b64(id),
                GroupModel {
                    users: conv(&a.users),
                    user_admins: conv(&a.user_admins),
                    rights,
                },
            );
        }
        RoomModel {
            admins: conv(&room.admins),
            groups,
        }
    }

    /// decision matrix of the model over keys x entities x dates
    pub fn matrix(&self, keys: &[String], entities: &[&str], dates: &[i64]) -> Vec<(String, String, i64, bool, bool, bool, bool)> {
        let mut out = vec![];
        for k in keys {
            for e in entities {
                for d in dates {
                    out.push((
                        k.clone(),
                        e.to_string(),
                        *d,
                        self.is_admin(k, *d),
                        self.is_member(k, *d),
                        self.can(k, e, *d, Need::Own),
                        self.can(k, e, *d, Need::All),
                    ));
                }
            }
        }
        out
    }
}

/// decision matrix of the code's own Room over the same points
pub fn code_matrix(room: &Room, keys: &[String], entities: &[&str], dates: &[i64]) -> Vec<(String, String, i64, bool, bool, bool, bool)> {
    use discret::verif::database::room::RightType;
    let mut out = vec![];
    for k in keys {
        let kb = crate::world::unb64(k);
        for e in entities {
            for d in dates {
                out.push((
                    k.clone(),
                    e.to_string(),
                    *d,
                    room.is_admin(&kb, *d),
                    room.is_user_valid_at(&kb, *d),
                    room.can(&kb, e, *d, &RightType::MutateSelf),
                    room.can(&kb, e, *d, &RightType::MutateAll),
                ));
            }
        }
    }
    out
}
