//! C17: full-text search returns exactly the rows whose current text matches.
use dv::engine::*;
use dv::props::sync::{case_strategy, SyncCase};
use dv::syncworld::*;
use dv::world::*;
use proptest::strategy::BoxedStrategy;
use std::collections::{BTreeMap, BTreeSet};

struct C17;

/// all search tokens: every 3..=4 character window without space of the word list
fn tokens() -> Vec<String> {
    let mut set = BTreeSet::new();
    for i in 0..(WORDS.len() as u8) {
        let t = text_for(i);
        for w in t.split(' ') {
            let c: Vec<char> = w.chars().collect();
            for len in 3..=4 {
                if c.len() >= len {
                    for s in 0..=(c.len() - len) {
                        set.insert(c[s..s + len].iter().collect::<String>());
                    }
                }
            }
        }
    }
    // a token no text contains
    set.insert("zzz".to_string());
    set.into_iter().collect()
}

/// text content of a row as the property understands it: its string values
fn row_text(json: &Option<String>) -> String {
    fn walk(v: &serde_json::Value, out: &mut String) {
        match v {
            serde_json::Value::String(s) => {
                out.push_str(s);
                out.push('\n');
            }
            serde_json::Value::Array(a) => a.iter().for_each(|x| walk(x, out)),
            serde_json::Value::Object(m) => m.values().for_each(|x| walk(x, out)),
            _ => {}
        }
    }
    let mut out = String::new();
    if let Some(j) = json {
        if let Ok(v) = serde_json::from_str::<serde_json::Value>(j) {
            walk(&v, &mut out);
        }
    }
    out.to_lowercase()
}

struct History {
    /// (peer, row id) -> kind of the last local write of that peer on that row
    last_local: BTreeMap<(usize, String), &'static str>,
    /// every text a row id ever had on any peer
    past: BTreeMap<String, BTreeSet<String>>,
    /// texts of rows that were deleted somewhere
    deleted_texts: BTreeSet<String>,
}

async fn check_peer(w: &SyncWorld, pi: usize, hist: &History, when: &str, o: &mut Outcome, seen: &mut BTreeSet<String>) {
    let p = &w.peers[pi];
    let snap = p.snapshot().await.user_data();
    let items: Vec<&NodeRow> = snap.nodes.iter().filter(|n| n.entity == "1.0").collect();
    let notes: Vec<&NodeRow> = snap.nodes.iter().filter(|n| n.entity == "1.1").collect();
    let my_key = p.key64();
    for tok in tokens() {
        let mut params = Parameters::new();
        params.add("s", tok.clone()).unwrap();
        let res = p
            .query("query { app.Item(search($s)) { id } app.Note(search($s)) { id } }", Some(params))
            .await;
        o.count("searches", 1);
        let v: serde_json::Value = match res {
            Ok(s) => serde_json::from_str(&s).unwrap(),
            Err(e) => {
                // the unindexed entity may refuse search altogether: ask for items only
                let mut params = Parameters::new();
                params.add("s", tok.clone()).unwrap();
                match p.query("query { app.Item(search($s)) { id } }", Some(params)).await {
                    Ok(s) => serde_json::from_str(&s).unwrap(),
                    Err(e2) => {
                        o.violation("search-error", format!("{} / {}", e, e2));
                        return;
                    }
                }
            }
        };
        let got: BTreeSet<String> = v["app.Item"]
            .as_array()
            .map(|a| a.iter().filter_map(|x| x["id"].as_str().map(|s| s.to_string())).collect())
            .unwrap_or_default();
        if let Some(a) = v["app.Note"].as_array() {
            if !a.is_empty() {
                let sig = if hist.deleted_texts.iter().any(|x| x.contains(&tok)) {
                    "stale:text-of-deleted-row-in-reused-slot"
                } else {
                    "unindexed-entity-returned-by-search"
                };
                if seen.insert(format!("{}{}", sig, p.name)) {
                    o.violation(sig, format!("{} {}: token {} returned notes {:?}", p.name, when, tok, a));
                }
            }
        }
        let _ = &notes;
        let expected: BTreeSet<String> = items
            .iter()
            .filter(|n| row_text(&n.json).contains(&tok))
            .map(|n| n.id.clone())
            .collect();
        for id in expected.difference(&got) {
            let n = items.iter().find(|n| &n.id == id).unwrap();
            let created_here = w.rows.iter().any(|r| &r.id == id && r.creator == pi);
            let only_ref_deletion = hist.last_local.get(&(pi, id.clone())) == Some(&"delete-link");
            let sig = if n.key != my_key || (!created_here && only_ref_deletion) {
                // the version came from a peer, or it is such a version re-dated by a local
                // reference deletion (which rewrites the row without indexing it)
                "missed:version-received-by-synchronisation-not-indexed"
            } else {
                "missed:locally-written-version"
            };
            if seen.insert(format!("{}{}", sig, p.name)) {
                o.violation(sig, format!("{} {}: search({}) misses row {} whose text is {:?}", p.name, when, tok, id, row_text(&n.json)));
            }
        }
        for id in got.difference(&expected) {
            let n = items.iter().find(|n| &n.id == id);
            let sig = match n {
                None => "stale:row-not-stored",
                Some(n) => {
                    let had = hist.past.get(id).map(|t| t.iter().any(|x| x.contains(&tok))).unwrap_or(false);
                    // the row itself was deleted on this peer at an older version and came back at a newer
                    // one: the index entry of the deleted version was never removed (known root cause)
                    let deleted_here = snap.node_dels.iter().any(|d| &d.id == id);
                    if had && deleted_here {
                        "stale:text-of-deleted-row-in-reused-slot"
                    } else if had && n.key != my_key {
                        "stale:previous-text-after-update-received-by-synchronisation"
                    } else if had {
                        "stale:previous-text-after-local-update"
                    } else if hist.deleted_texts.iter().any(|x| x.contains(&tok)) {
                        "stale:text-of-deleted-row-in-reused-slot"
                    } else {
                        "stale:text-never-stored"
                    }
                }
            };
            if seen.insert(format!("{}{}", sig, p.name)) {
                o.violation(sig, format!("{} {}: search({}) returns row {} whose current text is {:?}", p.name, when, tok, id, n.map(|n| row_text(&n.json))));
            }
        }
    }
}

impl Property for C17 {
    type Case = SyncCase;
    const ID: &'static str = "C17";
    fn plan(tier: Tier) -> Plan {
        match tier {
            Tier::Quick => Plan { shards: 16, cases_per_shard: 60, max_shrink_iters: 120 },
            Tier::Thorough => Plan { shards: 16, cases_per_shard: 700, max_shrink_iters: 300 },
        }
    }
    fn strategy(tier: Tier) -> BoxedStrategy<SyncCase> {
        match tier {
            Tier::Quick => case_strategy(30, 2, false),
            Tier::Thorough => case_strategy(60, 3, false),
        }
    }
    fn run(case: &SyncCase, ctx: &RunCtx) -> Outcome {
        begin_case(1);
        let dir = ctx.case_dir("c17");
        let rt = runtime();
        let out = rt.block_on(async {
            let mut o = Outcome::default();
            // mode 0: single peer histories (local index maintenance only); others: with synchronisation
            let peers = if case.mode == 0 { 1 } else { case.peers as usize };
            let mut w = match SyncWorld::start(peers, case.rooms as usize, &dir).await {
                Ok(w) => w,
                Err(e) => {
                    o.discard = Some(format!("world-start:{}", e));
                    return o;
                }
            };
            o.label(if peers == 1 { "single-peer" } else { "with-synchronisation" });
            let mut hist = History { last_local: BTreeMap::new(), past: BTreeMap::new(), deleted_texts: BTreeSet::new() };
            let mut seen = BTreeSet::new();
            let (mut updates, mut deletes, mut creates_after_delete, mut syncs) = (0, 0, 0, 0);
            let n_ops = case.ops.len();
            for (i, op) in case.ops.iter().enumerate() {
                let info = w.apply(op).await;
                if !info.applied {
                    continue;
                }
                if let (Op::Write { action, .. }, Some(pi), Some(Ok(()))) = (op, info.peer, &info.result) {
                    let row = match action {
                        Action::Update { row, .. }
                        | Action::SetParent { row, .. }
                        | Action::AddLink { row, .. }
                        | Action::Move { row, .. }
                        | Action::DeleteLink { row, .. } => Some(*row),
                        _ => None,
                    };
                    if let Some(row) = row {
                        if !w.rows.is_empty() {
                            let id = w.rows[pick(row, w.rows.len())].id.clone();
                            hist.last_local.insert((pi, id), info.kind);
                        }
                    }
                }
                match info.kind {
                    "update" => updates += 1,
                    "delete-node" => deletes += 1,
                    "create" | "create-with-ref" => {
                        if deletes > 0 {
                            creates_after_delete += 1;
                        }
                    }
                    k if k.starts_with("sync") => syncs += 1,
                    _ => {}
                }
                // record texts
                let mut present: BTreeSet<String> = BTreeSet::new();
                for p in &w.peers {
                    let s = p.snapshot().await.user_data();
                    for n in &s.nodes {
                        present.insert(n.id.clone());
                        hist.past.entry(n.id.clone()).or_default().insert(row_text(&n.json));
                    }
                    for d in &s.node_dels {
                        if let Some(t) = hist.past.get(&d.id) {
                            for x in t.clone() {
                                hist.deleted_texts.insert(x);
                            }
                        }
                    }
                }
                if info.kind == "delete-node" {
                    // local deletions of rows outside a room leave no record: remember every vanished id
                    for (id, t) in &hist.past {
                        if !present.contains(id) {
                            for x in t {
                                hist.deleted_texts.insert(x.clone());
                            }
                        }
                    }
                }
                let checkpoint = i + 1 == n_ops || i == n_ops / 3 || i == 2 * n_ops / 3;
                if checkpoint {
                    for pi in 0..w.peers.len() {
                        check_peer(&w, pi, &hist, &format!("after step {}", i), &mut o, &mut seen).await;
                    }
                }
            }
            o.nontrivial = updates > 0 || creates_after_delete > 0 || (syncs > 0 && peers > 1);
            if updates > 0 {
                o.label("has-update");
            }
            if creates_after_delete > 0 {
                o.label("create-after-delete");
            }
            if syncs > 0 && peers > 1 {
                o.label("has-sync");
            }
            o
        });
        drop(rt);
        let _ = std::fs::remove_dir_all(&dir);
        out
    }
    fn rule() -> String {
        "proptest histories of create / update (changing or keeping text) / delete / re-create / pull over an indexed entity (Item) and a no_full_text_index entity (Note), on one peer (mode 0) or 2-3 peers; at three check points every peer is asked search(tok) for every 3-4 letter window of the word list plus an absent token (about 100 tokens) and the answer is compared with the set of stored Items whose current string values contain the token; non-trivial = the history has an update, a creation after a deletion, or a pull; distinct = distinct case digest".to_string()
    }
    fn assumptions() -> Vec<String> {
        vec!["texts are drawn from a 12-entry word list so that tokens collide between rows; tokens are lower-case letters only (no query syntax characters)".into()]
    }
}
fn main() {
    main_for::<C17>()
}
