mod db;
mod enc;
mod fixed;
mod gen;
mod json;
mod run;

use dv::engine::*;
use gen::Case;
use proptest::strategy::BoxedStrategy;

struct C04;
impl Property for C04 {
    type Case = Case;
    const ID: &'static str = "C04";
    const ISOLATE: bool = false;
    fn plan(tier: Tier) -> Plan {
        match tier {
            Tier::Quick => Plan { shards: 16, cases_per_shard: 3000, max_shrink_iters: 600 },
            Tier::Thorough => Plan { shards: 16, cases_per_shard: 125_000, max_shrink_iters: 2000 },
        }
    }
    fn strategy(tier: Tier) -> BoxedStrategy<Case> {
        gen::case_strategy(tier == Tier::Thorough)
    }
    fn run(case: &Case, ctx: &RunCtx) -> Outcome {
        let mut o = Outcome::default();
        let case = &run::effective_case(case, &mut o);
        o.nontrivial = run::labels_for_case(case, &mut o);
        run::run_inmem(case, &mut o);
        if case.service {
            run::run_service(case, ctx.case_dir("svc"), &mut o);
        }
        o
    }
    fn fixed_cases(_tier: Tier) -> Vec<Case> {
        fixed::fixed_cases()
    }
    fn rule() -> String {
        "proptest-generated cases over a fixed model family (entity T with a required, a nullable and a defaulted field of each of the six scalar types, field groups rotated by `layout`, optional field `late` added by a model update after two rows exist; entity Canary with three rows). A case picks the type, the field variant, the default value, 1-5 rows (value + written as parameter / literal / omitted), 1-3 filter probes (value of a row, the default, a fresh value), the literal style (minimal, JSON escapes, \\uXXXX), the float style (exponent / positional), an unrelated literal placed before the parameter, field and entity aliases, an update of another field and of the target field, before/after paging, a search term, and (1.2% of the cases plus six fixed ones) a second pass through a full service instance. Oracles: every row read back through the query language equals the value handed in (strings byte-equal, integers equal, floats bit-equal on the number text, JSON structurally, read with the harness' own JSON reader), `field = value` as parameter, literal, on an alias and after another literal returns exactly the rows of the reference list whose value equals the probe, before/after return the rows greater/smaller, search of a plain term returns the rows containing it, all other fields, the canary rows (through the language and raw), the row count and sqlite_master are unchanged, no SQLite error, no panic. Generator switch `avoid_known` (70% of the cases): shapes that hit a known deviation are avoided (see the `excluded:*` counters) so that anything reported there is new; the other 30% cover the full domain and recognise the known deviations by diagnostic predicates. Non-trivial = a value with a metacharacter / non-ASCII / boundary number / null, or a value written as literal, or a default (Def / Late variant); distinct = distinct case digest".to_string()
    }
    fn assumptions() -> Vec<String> {
        vec![
            "in-memory path: DataModel, MutationParser, MutationQuery, QueryParser, PreparedQueries and Query are driven directly on a rusqlite in-memory connection prepared by prepare_connection, exactly as GraphDatabaseService does; authorisation, signatures and the writer thread are only part of the service sample".into(),
            "the intended meaning of a string literal is the JSON one (the three grammars accept exactly the JSON escapes)".into(),
            "equality filter on a Json field: only soundness is required (every returned row holds a structurally equal value); the implementation compares the text SQLite extracts with the parameter text, so whether an equal value is found depends on the spelling of the parameter (counters json_filter_param_*)".into(),
            "search: only terms made of ASCII letters and digits (>= 3 characters, not AND/OR/NOT/NEAR) are compared with a substring model; case folding of non ASCII text by the trigram tokenizer is not modelled (such rows may or may not be returned)".into(),
            "a `= null` filter is only exercised as a literal; integers handed to a Float field are limited to |i| <= 2^53".into(),
        ]
    }
}

fn main() {
    if std::env::var("C04_WRITE_REPLAYS").is_ok() {
        fixed::write_replays();
        return;
    }
    db::install_panic_hook();
    main_for::<C04>()
}
