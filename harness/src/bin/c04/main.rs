mod db;
mod enc;
mod gen;
mod json;
mod run;

use dv::engine::*;
use gen::Case;
use proptest::strategy::BoxedStrategy;

struct C04;
impl Property for C04 {
    type Case = Case;
    const ID: &'static str = "C04";
    const ISOLATE: bool = false;
    fn plan(tier: Tier) -> Plan {
        match tier {
            Tier::Quick => Plan { shards: 16, cases_per_shard: 2500, max_shrink_iters: 600 },
            Tier::Thorough => Plan { shards: 16, cases_per_shard: 125_000, max_shrink_iters: 2000 },
        }
    }
    fn strategy(tier: Tier) -> BoxedStrategy<Case> {
        gen::case_strategy(tier == Tier::Thorough)
    }
    fn run(case: &Case, ctx: &RunCtx) -> Outcome {
        let mut o = Outcome::default();
        let case = &run::effective_case(case, &mut o);
        o.nontrivial = run::labels_for_case(case, &mut o);
        run::run_inmem(case, &mut o);
        if case.service {
            run::run_service(case, ctx.case_dir("svc"), &mut o);
        }
        o
    }
    fn rule() -> String {
        "TODO".to_string()
    }
}

fn main() {
    db::install_panic_hook();
    main_for::<C04>()
}
