//! Hand written cases: a benign service case per type (run at the start of every run) and the
//! minimal case of every finding (written as replay files by `C04_WRITE_REPLAYS=1`).

use crate::gen::*;
use crate::json::JVal;

pub fn base(ty: Ty, variant: Variant) -> Case {
    let (val, default) = match ty {
        Ty::Str => (Val::S("it's \"x\" \\ $v ?1 \u{e9}".to_string()), Val::S("dv \"q\" $w".to_string())),
        Ty::Int => (Val::I(i64::MIN), Val::I(i64::MAX)),
        Ty::Flt => (Val::F(0.25f64.to_bits()), Val::F(12.5f64.to_bits())),
        Ty::Bool => (Val::B(true), Val::B(false)),
        Ty::B64 => (Val::X(vec![0, 255, 16, 32]), Val::X(vec![7, 7])),
        Ty::Json => (
            Val::J(JVal::Obj(vec![("k's".to_string(), JVal::Arr(vec![JVal::Int(1), JVal::Str("a\"b".to_string())]))])),
            Val::J(JVal::Obj(vec![("d".to_string(), JVal::Int(2))])),
        ),
    };
    Case {
        avoid_known: true,
        layout: 0,
        ty,
        variant,
        default,
        rows: vec![RowSpec { val, how: How::Param }],
        probes: vec![ProbeSrc::Row(0)],
        lit_style: 0,
        flt_style: 0,
        second_literal: None,
        alias: 0,
        update: None,
        paging: false,
        search: None,
        service: false,
    }
}

/// run at the start of every run: the service path for every type, with and without a model update
pub fn fixed_cases() -> Vec<Case> {
    let mut out = vec![];
    for (i, ty) in Ty::ALL.iter().enumerate() {
        let variant = [Variant::Def, Variant::Late, Variant::Nul, Variant::Req][i % 4];
        let mut c = base(*ty, variant);
        c.service = true;
        c.paging = true;
        c.layout = i as u8;
        let second = c.rows[0].clone();
        c.rows.push(RowSpec { val: second.val, how: How::Literal });
        c.rows.push(RowSpec { val: c.default.clone(), how: if variant == Variant::Req { How::Param } else { How::Omit } });
        c.update = Some(UpdateSpec { row: 0, new_val: Some(RowSpec { val: c.default.clone(), how: How::Param }) });
        if *ty == Ty::Str {
            c.search = Some(SearchSpec { from_row: None, start: 0, len: 3, term: "dflt".into(), literal: false });
        }
        out.push(c);
    }
    out
}

fn full(ty: Ty, variant: Variant, val: Val, how: How) -> Case {
    let mut c = base(ty, variant);
    c.avoid_known = false;
    c.rows = vec![RowSpec { val, how }];
    c.probes = vec![ProbeSrc::Row(0)];
    c
}

fn f(x: f64) -> Val {
    Val::F(x.to_bits())
}

/// (file name, signature, what it shows, case)
pub fn finding_cases() -> Vec<(&'static str, &'static str, &'static str, Case)> {
    let mut v: Vec<(&'static str, &'static str, &'static str, Case)> = vec![];
    let s = |t: &str| Val::S(t.to_string());

    v.push((
        "literal-escape-mutation",
        "literal-escape-not-decoded:mutation",
        "mutate { T { s_r: \"\\\\\" } } stores two backslashes: only \\\" is decoded in string literals",
        { let mut c = full(Ty::Str, Variant::Req, s("\\"), How::Literal); c.probes = vec![ProbeSrc::Fresh(s("zz"))]; c },
    ));
    v.push((
        "literal-escape-mutation-json",
        "literal-escape-not-decoded:mutation-json",
        "a Json literal whose JSON text holds an escape (\\n) is stored with a backslash and an n",
        { let mut c = full(Ty::Json, Variant::Req, Val::J(JVal::Arr(vec![JVal::Str("\n".into())])), How::Literal); c.probes = vec![ProbeSrc::Fresh(Val::J(JVal::Arr(vec![])))]; c },
    ));
    v.push((
        "literal-escape-filter",
        "literal-escape-not-decoded:filter",
        "s_r = \"a\\\\b\" does not match the row holding a\\b (written through a parameter)",
        full(Ty::Str, Variant::Req, s("a\\b"), How::Param),
    ));
    v.push((
        "literal-escape-paging",
        "literal-escape-not-decoded:paging",
        "after(\"a\\\\b\") compares with a\\\\b, which sorts before a\\b: the row holding a\\b itself is returned",
        {
            let mut c = full(Ty::Str, Variant::Req, s("a\\b"), How::Param);
            c.paging = true;
            c
        },
    ));
    v.push((
        "literal-escape-default",
        "literal-escape-not-decoded:default",
        "s_d : String default \"a\\\\b\" gives rows the default a\\\\b",
        {
            let mut c = full(Ty::Str, Variant::Def, s("x"), How::Omit);
            c.default = s("a\\b");
            c.probes = vec![ProbeSrc::Fresh(s("zz"))];
            c
        },
    ));
    v.push((
        "literal-escape-default-json",
        "literal-escape-not-decoded:default-json",
        "j_d : Json default \"[\\\"\\\\n\\\"]\": the default is the string backslash-n instead of a newline",
        {
            let mut c = full(Ty::Json, Variant::Def, Val::J(JVal::Arr(vec![])), How::Omit);
            c.default = Val::J(JVal::Arr(vec![JVal::Str("\n".into())]));
            c.probes = vec![ProbeSrc::Fresh(Val::J(JVal::Arr(vec![])))];
            c
        },
    ));
    v.push((
        "string-default-quote-in-filter",
        "string-default-spliced-in-filter:quote",
        "s_d : String default \"it's\": every filter on s_d is a SQL syntax error (WHEN 'it's' = ?1)",
        {
            let mut c = full(Ty::Str, Variant::Def, s("x"), How::Param);
            c.default = s("it's");
            c
        },
    ));
    v.push((
        "string-default-nul-in-filter",
        "string-default-spliced-in-filter:nul",
        "a NUL in a string default cuts the SQL text of every filter on that field",
        {
            let mut c = full(Ty::Str, Variant::Def, s("x"), How::Param);
            c.default = s("a\0b");
            c
        },
    ));
    v.push((
        "param-captured-by-literal",
        "param-captured-by-literal",
        "T(tag != \"v\", s_r = $v): $v is bound to the text of the literal \"v\", not to the parameter",
        {
            let mut c = full(Ty::Str, Variant::Req, s("x"), How::Param);
            c.second_literal = Some("v".into());
            c
        },
    ));
    v.push((
        "param-captured-by-default",
        "param-captured-by-literal",
        "al: s_d selected with default \"v\", filter al = $v: $v is bound to the default text",
        {
            let mut c = full(Ty::Str, Variant::Def, s("x"), How::Param);
            c.default = s("v");
            c
        },
    ));
    v.push((
        "json-null-parameter",
        "json-null-panic:parameter",
        "a null parameter for a nullable Json field panics (Option::unwrap, mutation_query.rs:291)",
        { let mut c = full(Ty::Json, Variant::Nul, Val::Null, How::Param); c.probes = vec![ProbeSrc::Fresh(Val::J(JVal::Arr(vec![])))]; c },
    ));
    v.push((
        "json-null-literal",
        "json-null-panic:literal",
        "j_n: null for a nullable Json field panics (Option::unwrap, mutation_query.rs:294)",
        { let mut c = full(Ty::Json, Variant::Nul, Val::Null, How::Literal); c.probes = vec![ProbeSrc::Fresh(Val::J(JVal::Arr(vec![])))]; c },
    ));
    v.push((
        "json-default-as-text",
        "json-default-returned-as-text",
        "rows older than a Json field with a default return the default as a JSON string",
        {
            let mut c = full(Ty::Json, Variant::Late, Val::J(JVal::Arr(vec![JVal::Int(2)])), How::Param);
            c.default = Val::J(JVal::Arr(vec![JVal::Int(1)]));
            c
        },
    ));
    v.push((
        "json-filter-string-vs-object",
        "json-filter-string-equals-text-of-value",
        "j_r = $v with v = {} returns the row whose Json value is the string \"{}\": the filter compares extracted text",
        {
            let mut c = full(Ty::Json, Variant::Req, Val::J(JVal::Str("{}".into())), How::Param);
            c.probes = vec![ProbeSrc::Fresh(Val::J(JVal::Obj(vec![])))];
            c
        },
    ));
    v.push((
        "json-selector-on-default",
        "json-selector-on-default-sql-syntax",
        "sel: j_d->$ on a Json field with a default is a SQL syntax error (Ifnull( is never closed)",
        {
            let mut c = full(Ty::Json, Variant::Def, Val::J(JVal::Arr(vec![JVal::Int(2)])), How::Param);
            c.default = Val::J(JVal::Arr(vec![JVal::Int(1)]));
            c
        },
    ));
    v.push((
        "bool-default-as-integer",
        "bool-default-returned-as-integer",
        "rows older than a Boolean field with a default return 1/0 instead of true/false",
        {
            let mut c = full(Ty::Bool, Variant::Late, Val::B(false), How::Param);
            c.default = Val::B(true);
            c
        },
    ));
    v.push((
        "float-default-15-digits",
        "float-default-rendered-15-digits",
        "rows older than a Float field with default 0.30000000000000004 return 0.3",
        {
            let mut c = full(Ty::Flt, Variant::Late, f(1.5), How::Param);
            c.default = f(0.30000000000000004);
            c.probes = vec![ProbeSrc::Fresh(f(2.5))];
            c
        },
    ));
    v.push((
        "float-reparse-update",
        "float-reparse-last-bit:update",
        "updating another field of the row moves the float 1.0715660391465826e-75 by one ULP",
        {
            let mut c = full(Ty::Flt, Variant::Req, f(1.0715660391465826e-75), How::Param);
            c.probes = vec![ProbeSrc::Fresh(f(2.5))];
            c.update = Some(UpdateSpec { row: 0, new_val: None });
            c
        },
    ));
    v.push((
        "float-reparse-json-write",
        "float-reparse-last-bit:json-write",
        "a float inside a Json value is stored one ULP away",
        {
            let mut c = full(Ty::Json, Variant::Req, Val::J(JVal::Arr(vec![JVal::Flt(1.0715660391465826e-75f64.to_bits())])), How::Param);
            c.probes = vec![ProbeSrc::Fresh(Val::J(JVal::Arr(vec![])))];
            c
        },
    ));
    v.push((
        "float-filter-parameter",
        "float-filter-last-bit:parameter",
        "f_r = $v does not find the row holding exactly $v = 4.400106192463663e129",
        full(Ty::Flt, Variant::Req, f(4.400106192463663e129), How::Param),
    ));
    v.push((
        "float-filter-literal",
        "float-filter-last-bit:literal",
        "f_r = -1640263632620359700.0 does not find the row holding exactly that value",
        {
            let mut c = full(Ty::Flt, Variant::Req, f(-1.6402636326203597e18), How::Param);
            c.flt_style = 1;
            c
        },
    ));
    v.push((
        "entity-alias-keyword",
        "entity-alias-breaks-sql:keyword",
        "query { order: T(...) {...} } is a SQL syntax error (FROM _node order)",
        {
            let mut c = full(Ty::Int, Variant::Req, Val::I(1), How::Param);
            c.alias = 63;
            c
        },
    ));
    v.push((
        "entity-alias-digit-first",
        "entity-alias-breaks-sql:digit-first",
        "query { 1a: T(...) {...} } is a SQL error (FROM _node 1a)",
        {
            let mut c = full(Ty::Int, Variant::Req, Val::I(1), How::Param);
            c.alias = 81;
            c
        },
    ));
    v.push((
        "search-term-syntax-error",
        "search-term-parsed-as-fts5-syntax:error",
        "search($t) with t = it's is an FTS5 syntax error",
        {
            let mut c = full(Ty::Str, Variant::Req, s("it's here"), How::Param);
            c.search = Some(SearchSpec { from_row: None, start: 0, len: 3, term: "it's".into(), literal: false });
            c
        },
    ));
    v.push((
        "search-term-operator",
        "search-term-parsed-as-fts5-syntax:result",
        "search($t) with t = \"c d\" does not find the row holding \"abc def\": the space is an FTS5 AND",
        {
            let mut c = full(Ty::Str, Variant::Req, s("abc def"), How::Param);
            c.search = Some(SearchSpec { from_row: None, start: 0, len: 3, term: "c d".into(), literal: false });
            c
        },
    ));
    v.push((
        "search-nul-truncation",
        "search-nul-truncates-indexed-text",
        "the text after a NUL character of a string is not indexed: search(\"uvw\") misses xyz\\0uvwxyz",
        {
            let mut c = full(Ty::Str, Variant::Req, s("xyz\0uvwxyz"), How::Param);
            c.search = Some(SearchSpec { from_row: None, start: 0, len: 3, term: "uvw".into(), literal: false });
            c
        },
    ));
    v
}

pub fn write_replays() {
    let dir = std::path::Path::new("/verif/replays/C04");
    std::fs::create_dir_all(dir).unwrap();
    for (name, sig, what, case) in finding_cases() {
        let doc = serde_json::json!({
            "property": "C04",
            "signature": sig,
            "detail": what,
            "seed": 0,
            "case": case,
        });
        let path = dir.join(format!("{}.json", name));
        std::fs::write(&path, serde_json::to_string_pretty(&doc).unwrap()).unwrap();
        println!("wrote {}", path.display());
    }
}
