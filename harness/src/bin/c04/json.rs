//! Reference JSON reader/writer of the harness.
//!
//! The oracle must not read query results with the JSON library the code under test uses
//! (serde_json without `float_roundtrip` moves some floats by one ULP while parsing, which is exactly
//! one of the things C04 has to see). This reader keeps the *text* of every number; the writer is the
//! harness' own canonical form used to build Json values handed to the API.

use serde::{Deserialize, Serialize};

/// a JSON document as read from a result: numbers keep their text
#[derive(Debug, Clone, PartialEq)]
pub enum JOut {
    Null,
    Bool(bool),
    Num(String),
    Str(String),
    Arr(Vec<JOut>),
    Obj(Vec<(String, JOut)>),
}

impl JOut {
    pub fn get(&self, key: &str) -> Option<&JOut> {
        match self {
            JOut::Obj(v) => v.iter().find(|(k, _)| k == key).map(|(_, v)| v),
            _ => None,
        }
    }
    pub fn as_arr(&self) -> Option<&Vec<JOut>> {
        match self {
            JOut::Arr(v) => Some(v),
            _ => None,
        }
    }
    pub fn as_str(&self) -> Option<&str> {
        match self {
            JOut::Str(s) => Some(s),
            _ => None,
        }
    }
    pub fn short(&self) -> String {
        let s = format!("{:?}", self);
        crate::db::clip(&s, 160)
    }
}

pub fn parse(text: &str) -> Result<JOut, String> {
    let b = text.as_bytes();
    let mut p = 0usize;
    let v = value(text, b, &mut p, 0)?;
    ws(b, &mut p);
    if p != b.len() {
        return Err(format!("trailing characters at {}", p));
    }
    Ok(v)
}

fn ws(b: &[u8], p: &mut usize) {
    while *p < b.len() && matches!(b[*p], b' ' | b'\t' | b'\n' | b'\r') {
        *p += 1;
    }
}

fn value(t: &str, b: &[u8], p: &mut usize, depth: usize) -> Result<JOut, String> {
    if depth > 200 {
        return Err("too deep".into());
    }
    ws(b, p);
    if *p >= b.len() {
        return Err("unexpected end".into());
    }
    match b[*p] {
        b'n' => lit(b, p, "null", JOut::Null),
        b't' => lit(b, p, "true", JOut::Bool(true)),
        b'f' => lit(b, p, "false", JOut::Bool(false)),
        b'"' => Ok(JOut::Str(string(t, b, p)?)),
        b'[' => {
            *p += 1;
            let mut out = vec![];
            ws(b, p);
            if *p < b.len() && b[*p] == b']' {
                *p += 1;
                return Ok(JOut::Arr(out));
            }
            loop {
                out.push(value(t, b, p, depth + 1)?);
                ws(b, p);
                if *p >= b.len() {
                    return Err("unterminated array".into());
                }
                match b[*p] {
                    b',' => *p += 1,
                    b']' => {
                        *p += 1;
                        return Ok(JOut::Arr(out));
                    }
                    c => return Err(format!("unexpected '{}' in array at {}", c as char, *p)),
                }
            }
        }
        b'{' => {
            *p += 1;
            let mut out = vec![];
            ws(b, p);
            if *p < b.len() && b[*p] == b'}' {
                *p += 1;
                return Ok(JOut::Obj(out));
            }
            loop {
                ws(b, p);
                if *p >= b.len() || b[*p] != b'"' {
                    return Err(format!("expected key at {}", *p));
                }
                let k = string(t, b, p)?;
                ws(b, p);
                if *p >= b.len() || b[*p] != b':' {
                    return Err(format!("expected ':' at {}", *p));
                }
                *p += 1;
                let v = value(t, b, p, depth + 1)?;
                out.push((k, v));
                ws(b, p);
                if *p >= b.len() {
                    return Err("unterminated object".into());
                }
                match b[*p] {
                    b',' => *p += 1,
                    b'}' => {
                        *p += 1;
                        return Ok(JOut::Obj(out));
                    }
                    c => return Err(format!("unexpected '{}' in object at {}", c as char, *p)),
                }
            }
        }
        b'-' | b'0'..=b'9' => {
            let start = *p;
            while *p < b.len() && matches!(b[*p], b'-' | b'+' | b'.' | b'e' | b'E' | b'0'..=b'9') {
                *p += 1;
            }
            Ok(JOut::Num(t[start..*p].to_string()))
        }
        c => Err(format!("unexpected '{}' at {}", c as char, *p)),
    }
}

fn lit(b: &[u8], p: &mut usize, word: &str, v: JOut) -> Result<JOut, String> {
    if b.len() >= *p + word.len() && &b[*p..*p + word.len()] == word.as_bytes() {
        *p += word.len();
        Ok(v)
    } else {
        Err(format!("bad literal at {}", *p))
    }
}

fn hex4(b: &[u8], p: usize) -> Result<u32, String> {
    if p + 4 > b.len() {
        return Err("short \\u escape".into());
    }
    let s = std::str::from_utf8(&b[p..p + 4]).map_err(|_| "bad \\u escape".to_string())?;
    u32::from_str_radix(s, 16).map_err(|_| "bad \\u escape".to_string())
}

fn string(t: &str, b: &[u8], p: &mut usize) -> Result<String, String> {
    // b[*p] == '"'
    *p += 1;
    let mut out = String::new();
    loop {
        if *p >= b.len() {
            return Err("unterminated string".into());
        }
        let start = *p;
        while *p < b.len() && b[*p] != b'"' && b[*p] != b'\\' {
            *p += 1;
        }
        out.push_str(&t[start..*p]);
        if *p >= b.len() {
            return Err("unterminated string".into());
        }
        if b[*p] == b'"' {
            *p += 1;
            return Ok(out);
        }
        // escape
        *p += 1;
        if *p >= b.len() {
            return Err("unterminated escape".into());
        }
        let c = b[*p];
        *p += 1;
        match c {
            b'"' => out.push('"'),
            b'\\' => out.push('\\'),
            b'/' => out.push('/'),
            b'b' => out.push('\u{8}'),
            b'f' => out.push('\u{c}'),
            b'n' => out.push('\n'),
            b'r' => out.push('\r'),
            b't' => out.push('\t'),
            b'u' => {
                let hi = hex4(b, *p)?;
                *p += 4;
                if (0xD800..0xDC00).contains(&hi) {
                    if *p + 6 <= b.len() && b[*p] == b'\\' && b[*p + 1] == b'u' {
                        let lo = hex4(b, *p + 2)?;
                        if (0xDC00..0xE000).contains(&lo) {
                            *p += 6;
                            let cp = 0x10000 + ((hi - 0xD800) << 10) + (lo - 0xDC00);
                            out.push(char::from_u32(cp).ok_or("bad surrogate pair")?);
                            continue;
                        }
                    }
                    return Err("lone surrogate".into());
                }
                out.push(char::from_u32(hi).ok_or("lone surrogate")?);
            }
            other => return Err(format!("bad escape \\{}", other as char)),
        }
    }
}

/// a JSON value the harness hands to the API (floats are carried as bits so that a case survives
/// its own serialisation unchanged)
#[derive(Debug, Clone, PartialEq, Serialize, Deserialize)]
pub enum JVal {
    Null,
    Bool(bool),
    Int(i64),
    Flt(u64),
    Str(String),
    Arr(Vec<JVal>),
    Obj(Vec<(String, JVal)>),
}

pub fn float_text(f: f64) -> String {
    // shortest text that reads back as the same double (Rust's `{:?}` guarantee), always a JSON number
    let s = format!("{:?}", f);
    s
}

pub fn write_str(s: &str, out: &mut String) {
    out.push('"');
    for c in s.chars() {
        match c {
            '"' => out.push_str("\\\""),
            '\\' => out.push_str("\\\\"),
            '\n' => out.push_str("\\n"),
            '\r' => out.push_str("\\r"),
            '\t' => out.push_str("\\t"),
            c if (c as u32) < 0x20 => out.push_str(&format!("\\u{:04x}", c as u32)),
            c => out.push(c),
        }
    }
    out.push('"');
}

impl JVal {
    /// compact text, keys in the given order
    pub fn text(&self) -> String {
        let mut s = String::new();
        self.write(&mut s);
        s
    }
    fn write(&self, out: &mut String) {
        match self {
            JVal::Null => out.push_str("null"),
            JVal::Bool(b) => out.push_str(if *b { "true" } else { "false" }),
            JVal::Int(i) => out.push_str(&i.to_string()),
            JVal::Flt(b) => out.push_str(&float_text(f64::from_bits(*b))),
            JVal::Str(s) => write_str(s, out),
            JVal::Arr(v) => {
                out.push('[');
                for (i, x) in v.iter().enumerate() {
                    if i > 0 {
                        out.push(',');
                    }
                    x.write(out);
                }
                out.push(']');
            }
            JVal::Obj(v) => {
                out.push('{');
                for (i, (k, x)) in v.iter().enumerate() {
                    if i > 0 {
                        out.push(',');
                    }
                    write_str(k, out);
                    out.push(':');
                    x.write(out);
                }
                out.push('}');
            }
        }
    }

    /// keys made unique (later duplicates dropped): JSON with duplicate keys has no single meaning
    pub fn normalise(self) -> JVal {
        match self {
            JVal::Arr(v) => JVal::Arr(v.into_iter().map(|x| x.normalise()).collect()),
            JVal::Obj(v) => {
                let mut out: Vec<(String, JVal)> = vec![];
                for (k, x) in v {
                    if !out.iter().any(|(k2, _)| *k2 == k) {
                        out.push((k, x.normalise()));
                    }
                }
                JVal::Obj(out)
            }
            other => other,
        }
    }

    pub fn has_float(&self) -> bool {
        match self {
            JVal::Flt(_) => true,
            JVal::Arr(v) => v.iter().any(|x| x.has_float()),
            JVal::Obj(v) => v.iter().any(|(_, x)| x.has_float()),
            _ => false,
        }
    }
    pub fn any_string(&self, f: &dyn Fn(&str) -> bool) -> bool {
        match self {
            JVal::Str(s) => f(s),
            JVal::Arr(v) => v.iter().any(|x| x.any_string(f)),
            JVal::Obj(v) => v.iter().any(|(k, x)| f(k) || x.any_string(f)),
            _ => false,
        }
    }
}

#[derive(Debug, Clone, Copy, PartialEq)]
pub enum Diff {
    Same,
    /// the only differences are floats one or a few ULP away
    FloatNear,
    Different,
}

fn worse(a: Diff, b: Diff) -> Diff {
    match (a, b) {
        (Diff::Different, _) | (_, Diff::Different) => Diff::Different,
        (Diff::FloatNear, _) | (_, Diff::FloatNear) => Diff::FloatNear,
        _ => Diff::Same,
    }
}

pub fn float_diff(expected: f64, raw: &str) -> Diff {
    match raw.parse::<f64>() {
        Ok(g) => {
            if g.to_bits() == expected.to_bits() {
                Diff::Same
            } else if g == expected && g != 0.0 {
                Diff::Same
            } else {
                let a = expected.to_bits() as i128;
                let b = g.to_bits() as i128;
                if (a - b).abs() <= 4 {
                    Diff::FloatNear
                } else {
                    Diff::Different
                }
            }
        }
        Err(_) => Diff::Different,
    }
}

/// structural comparison of an expected value with what was read
pub fn compare(expected: &JVal, got: &JOut) -> Diff {
    match (expected, got) {
        (JVal::Null, JOut::Null) => Diff::Same,
        (JVal::Bool(a), JOut::Bool(b)) if a == b => Diff::Same,
        (JVal::Int(i), JOut::Num(raw)) => match raw.parse::<i64>() {
            Ok(j) if j == *i => Diff::Same,
            _ => Diff::Different,
        },
        (JVal::Flt(bits), JOut::Num(raw)) => float_diff(f64::from_bits(*bits), raw),
        (JVal::Str(a), JOut::Str(b)) if a == b => Diff::Same,
        (JVal::Arr(a), JOut::Arr(b)) if a.len() == b.len() => {
            let mut d = Diff::Same;
            for (x, y) in a.iter().zip(b.iter()) {
                d = worse(d, compare(x, y));
            }
            d
        }
        (JVal::Obj(a), JOut::Obj(b)) if a.len() == b.len() => {
            let mut d = Diff::Same;
            for (k, x) in a {
                match b.iter().find(|(k2, _)| k2 == k) {
                    Some((_, y)) => d = worse(d, compare(x, y)),
                    None => return Diff::Different,
                }
            }
            d
        }
        _ => Diff::Different,
    }
}
