//! Interpretation of one C04 case and its oracles.
//!
//! Reference model: a list of rows (`MRow`) holding, for every field, the value the harness handed
//! to the API. Every observation goes through the public query language (or, for the canary and the
//! structure of the database, through raw SQL that does not involve the query compiler) and is
//! compared with that list. Known deviations are recognised by *diagnostic predicates* (functions
//! named `is_*` / `classify_*`): they never decide whether something is a violation, only which
//! signature a violation gets.

use crate::db::{clip, Db, Fail, P};
use crate::enc::*;
use crate::gen::*;
use crate::json::{self, Diff, JOut, JVal};
use dv::engine::{pick, Outcome};
use std::collections::BTreeSet;

// ------------------------------------------------------------------------------------------------
// backend abstraction (in-memory connection or full service instance)
// ------------------------------------------------------------------------------------------------

pub trait Backend {
    fn mutate(&self, text: &str, params: &[(&str, P)]) -> Result<JOut, Fail>;
    fn query(&self, text: &str, params: &[(&str, P)]) -> Result<JOut, Fail>;
    /// evaluates `SELECT <expr>` with two bound values (diagnostics only); None when unavailable
    fn diag_bool(&self, _sql: &str, _a: &str, _b: f64) -> Option<bool> {
        None
    }
}

impl Backend for Db {
    fn mutate(&self, text: &str, params: &[(&str, P)]) -> Result<JOut, Fail> {
        let v = Db::mutate(self, text, params)?;
        let t = serde_json::to_string(&v).map_err(|e| Fail::Other(e.to_string()))?;
        json::parse(&t).map_err(|e| Fail::Other(format!("mutation result unreadable: {}", e)))
    }
    fn query(&self, text: &str, params: &[(&str, P)]) -> Result<JOut, Fail> {
        let raw = Db::query(self, text, params)?;
        json::parse(&raw).map_err(|e| Fail::Other(format!("query result is not JSON ({}): {}", e, clip(&raw, 200))))
    }
    fn diag_bool(&self, sql: &str, a: &str, b: f64) -> Option<bool> {
        self.conn.query_row(sql, (a, b), |r| r.get::<_, Option<bool>>(0)).ok().flatten()
    }
}

// ------------------------------------------------------------------------------------------------
// names, fillers, model text
// ------------------------------------------------------------------------------------------------

/// variable names used in the texts. In `avoid_known` mode they cannot collide with any generated
/// string (a literal equal to a later variable name captures that variable: known deviation).
pub struct Names {
    pub pre: &'static str,
}
impl Names {
    pub fn new(avoid: bool) -> Names {
        Names { pre: if avoid { "zq9_" } else { "" } }
    }
    pub fn n(&self, base: &str) -> String {
        format!("{}{}", self.pre, base)
    }
}

pub fn filler(ty: Ty) -> Val {
    match ty {
        Ty::Str => Val::S("fill's \"q\" \\ $v ?1 \u{e9}".to_string()),
        Ty::Int => Val::I(-42),
        Ty::Flt => Val::F(0.5f64.to_bits()),
        Ty::Bool => Val::B(false),
        Ty::B64 => Val::X(vec![1, 2, 3]),
        Ty::Json => Val::J(JVal::Obj(vec![(
            "a".to_string(),
            JVal::Arr(vec![JVal::Int(1), JVal::Str("b'\"".to_string())]),
        )])),
    }
}

pub fn benign_default(ty: Ty) -> Val {
    match ty {
        Ty::Str => Val::S("dflt".to_string()),
        Ty::Int => Val::I(7),
        Ty::Flt => Val::F(1.5f64.to_bits()),
        Ty::Bool => Val::B(true),
        Ty::B64 => Val::X(b"dflt".to_vec()),
        Ty::Json => Val::J(JVal::Obj(vec![("k".to_string(), JVal::Int(1))])),
    }
}

pub const CANARY_TAGS: [&str; 3] = ["c0", "c1", "c2"];

fn canary_values(i: usize) -> [(&'static str, Val); 6] {
    let txt = match i {
        0 => "canary ' \" \\ \0 \n $v ?1 %_ -- ; \u{10ffff}",
        1 => "",
        _ => "c2'; DROP TABLE _node; --",
    };
    [
        ("txt", Val::S(txt.to_string())),
        ("num", Val::I([i64::MIN, 0, i64::MAX][i])),
        ("flt", Val::F([0.1f64, -0.0, 1.5e300][i].to_bits())),
        ("bol", Val::B(i % 2 == 0)),
        ("b64", Val::X(vec![i as u8; i * 3])),
        (
            "jsn",
            Val::J(JVal::Obj(vec![
                ("k'\"".to_string(), JVal::Arr(vec![JVal::Int(i as i64), JVal::Null, JVal::Bool(true)])),
                ("tag".to_string(), JVal::Str(CANARY_TAGS[i].to_string())),
            ])),
        ),
    ]
}

pub struct Plan {
    pub ty: Ty,
    pub variant: Variant,
    /// name of the field carrying the values
    pub field: String,
    /// default value of `field` as the harness wrote it (Def / Late), after adoption of a decoding deviation
    pub default: Option<Val>,
    pub model_v1: String,
    pub model_v2: Option<String>,
    /// all scalar fields of T in selection order with their type
    pub fields_v1: Vec<(String, Ty)>,
}

fn type_groups(layout: u8) -> Vec<Ty> {
    let r = (layout % 6) as usize;
    let mut v: Vec<Ty> = Ty::ALL.to_vec();
    v.rotate_left(r);
    v
}

impl Plan {
    pub fn new(case: &Case, with_index: bool) -> Plan {
        let p = case.ty.prefix();
        let field = match case.variant {
            Variant::Req => format!("{}_r", p),
            Variant::Nul => format!("{}_n", p),
            Variant::Def => format!("{}_d", p),
            Variant::Late => "late".to_string(),
        };
        let default = match case.variant {
            Variant::Def | Variant::Late => Some(case.default.clone()),
            _ => None,
        };
        let mut fields: Vec<(String, Ty)> = vec![];
        let mut body = String::new();
        let tag_first = case.layout != 6;
        if tag_first {
            body.push_str("tag: String,\n note: String nullable,\n");
        }
        for ty in type_groups(case.layout) {
            let q = ty.prefix();
            let dv = if case.variant == Variant::Def && ty == case.ty {
                case.default.clone()
            } else {
                benign_default(ty)
            };
            body.push_str(&format!(
                " {q}_r: {t},\n {q}_n: {t} nullable,\n {q}_d: {t} default {d},\n",
                q = q,
                t = ty.name(),
                d = literal(&dv, case.lit_style, case.flt_style)
            ));
            fields.push((format!("{}_r", q), ty));
            fields.push((format!("{}_n", q), ty));
            fields.push((format!("{}_d", q), ty));
        }
        if !tag_first {
            body.push_str(" tag: String,\n note: String nullable,\n");
        }
        let idx = if with_index { " index(tag),\n" } else { "" };
        let canary = "Canary { txt: String, num: Integer, flt: Float, bol: Boolean, b64: Base64, jsn: Json }";
        let model_v1 = format!("{{\n{}\nT {{\n{}{}}}\n}}", canary, idx, body);
        let model_v2 = if case.variant == Variant::Late {
            let late = format!(
                " late: {} default {},\n",
                case.ty.name(),
                literal(&case.default, case.lit_style, case.flt_style)
            );
            Some(format!("{{\n{}\nT {{\n{}{}{}}}\n}}", canary, idx, body, late))
        } else {
            None
        };
        Plan { ty: case.ty, variant: case.variant, field, default, model_v1, model_v2, fields_v1: fields }
    }
}

// ------------------------------------------------------------------------------------------------
// reference model of the rows
// ------------------------------------------------------------------------------------------------

#[derive(Debug, Clone)]
pub struct MRow {
    pub tag: String,
    pub id: Option<String>,
    /// value of the target field; None = the field is absent from the stored row (old row of a Late case)
    pub target: Option<Val>,
    pub note: Option<String>,
    /// a deviation was already reported on the target of this row: later comparisons skip it
    pub tainted: bool,
    /// the value of the target field is the default of the model (field omitted, or old row)
    pub from_default: bool,
}

pub fn to_param(v: &Val) -> P {
    match v {
        Val::Null => P::Null,
        Val::S(s) => P::S(s.clone()),
        Val::I(i) => P::I(*i),
        Val::F(b) => P::F(f64::from_bits(*b)),
        Val::FI(i) => P::I(*i),
        Val::B(b) => P::B(*b),
        Val::X(b) => P::S(b64(b)),
        Val::J(j) => P::S(j.text()),
    }
}

pub fn check_val(expected: &Val, got: &JOut) -> Diff {
    match (expected, got) {
        (Val::Null, JOut::Null) => Diff::Same,
        (Val::S(a), JOut::Str(b)) if a == b => Diff::Same,
        (Val::I(i), JOut::Num(raw)) => match raw.parse::<i64>() {
            Ok(j) if j == *i => Diff::Same,
            _ => Diff::Different,
        },
        (Val::F(bits), JOut::Num(raw)) => json::float_diff(f64::from_bits(*bits), raw),
        (Val::FI(i), JOut::Num(raw)) => json::float_diff(*i as f64, raw),
        (Val::B(a), JOut::Bool(b)) if a == b => Diff::Same,
        (Val::X(a), JOut::Str(b)) if b64(a) == *b => Diff::Same,
        (Val::J(j), got) => json::compare(j, got),
        _ => Diff::Different,
    }
}

fn num_of(v: &Val) -> Option<f64> {
    match v {
        Val::F(b) => Some(f64::from_bits(*b)),
        Val::FI(i) => Some(*i as f64),
        _ => None,
    }
}

/// equality of two values of the same field as the property means it
pub fn val_eq(a: &Val, b: &Val) -> bool {
    if let (Some(x), Some(y)) = (num_of(a), num_of(b)) {
        return x == y;
    }
    match (a, b) {
        (Val::Null, _) | (_, Val::Null) => false,
        (Val::X(x), Val::X(y)) => x == y,
        (Val::J(x), Val::J(y)) => jval_eq(x, y),
        _ => a == b,
    }
}

fn jval_eq(a: &JVal, b: &JVal) -> bool {
    match (a, b) {
        (JVal::Obj(x), JVal::Obj(y)) => {
            x.len() == y.len() && x.iter().all(|(k, v)| y.iter().any(|(k2, v2)| k == k2 && jval_eq(v, v2)))
        }
        (JVal::Arr(x), JVal::Arr(y)) => x.len() == y.len() && x.iter().zip(y.iter()).all(|(p, q)| jval_eq(p, q)),
        _ => a == b,
    }
}

/// ordering used by `order_by` / `before` / `after` on one field (None: not comparable here)
pub fn val_cmp(a: &Val, b: &Val) -> Option<std::cmp::Ordering> {
    if let (Some(x), Some(y)) = (num_of(a), num_of(b)) {
        return x.partial_cmp(&y);
    }
    match (a, b) {
        (Val::S(x), Val::S(y)) => Some(x.as_bytes().cmp(y.as_bytes())),
        (Val::I(x), Val::I(y)) => Some(x.cmp(y)),
        (Val::B(x), Val::B(y)) => Some(x.cmp(y)),
        (Val::X(x), Val::X(y)) => Some(b64(x).as_bytes().cmp(b64(y).as_bytes())),
        _ => None,
    }
}

// ------------------------------------------------------------------------------------------------
// classification helpers (diagnostic predicates)
// ------------------------------------------------------------------------------------------------

pub fn is_hard_float(f: f64) -> bool {
    // not (<= 15 significant digits and small exponent)
    let t = format!("{:e}", f);
    let (m, e) = t.split_once('e').unwrap_or((&t, "0"));
    let digits = m.chars().filter(|c| c.is_ascii_digit()).count();
    let e: i32 = e.parse().unwrap_or(0);
    digits > 15 || e.abs() > 22
}

fn val_class_labels(v: &Val, o: &mut Outcome) -> bool {
    // returns true when the value is "interesting" for the non-trivial rule
    match v {
        Val::Null => {
            o.label("val:null");
            true
        }
        Val::S(s) => string_labels(s, o),
        Val::I(i) => {
            let b = *i == i64::MIN || *i == i64::MAX || i.unsigned_abs() > (1u64 << 53);
            if b {
                o.label("int:boundary");
            }
            b
        }
        Val::F(bits) => {
            let f = f64::from_bits(*bits);
            let mut b = false;
            if f != 0.0 && f.abs() < f64::MIN_POSITIVE {
                o.label("flt:subnormal");
                b = true;
            }
            if f == 0.0 && f.is_sign_negative() {
                o.label("flt:negzero");
                b = true;
            }
            if is_hard_float(f) {
                o.label("flt:hard(>15 digits or |exp|>22)");
                b = true;
            }
            b
        }
        Val::FI(_) => {
            o.label("flt:integer-param");
            true
        }
        Val::B(_) => false,
        Val::X(b) => {
            if b.is_empty() {
                o.label("b64:empty");
            }
            b.is_empty() || b.len() > 100
        }
        Val::J(j) => {
            o.label("json:value");
            if j.has_float() {
                o.label("json:has-float");
            }
            let mut any = false;
            if j.any_string(&|s| s.contains('"') || s.contains('\\') || s.contains('\'') || s.contains('\0')) {
                o.label("json:evil-string");
                any = true;
            }
            any || !matches!(j, JVal::Bool(_) | JVal::Int(_))
        }
    }
}

fn string_labels(s: &str, o: &mut Outcome) -> bool {
    let mut b = false;
    let mut l = |c: bool, name: &str, o: &mut Outcome| {
        if c {
            o.label(name);
        }
        c
    };
    b |= l(s.is_empty(), "str:empty", o);
    b |= l(s.contains('\0'), "str:nul", o);
    b |= l(s.contains('\''), "str:squote", o);
    b |= l(s.contains('"'), "str:dquote", o);
    b |= l(s.contains('\\'), "str:backslash", o);
    b |= l(s.chars().any(|c| (c as u32) < 0x20 && c != '\0'), "str:control", o);
    b |= l(s.contains('$') || s.contains('?'), "str:dollar-or-qmark", o);
    b |= l(!s.is_ascii(), "str:non-ascii", o);
    b |= l(s.chars().any(|c| c as u32 > 0xffff), "str:astral", o);
    b |= l(s.len() > 4096, "str:long(>4KiB)", o);
    b |= l(s.contains("--") || s.contains(';') || s.contains('%') || s.contains(')'), "str:sql-meta", o);
    b
}

fn sig_for_fail(step: &str, f: &Fail) -> String {
    match f {
        Fail::Panic(m) => format!("panic:{}:{}", step, panic_site(m)),
        Fail::Sqlite(m) => format!("sqlite-error:{}:{}", step, sqlite_class(m)),
        other => format!("unexpected-error:{}:{}", step, other.kind()),
    }
}

fn panic_site(m: &str) -> String {
    // the panic hook of main.rs puts "file:line" in front of the message
    m.split(' ').next().unwrap_or("?").rsplit('/').next().unwrap_or("?").to_string()
}

fn sqlite_class(m: &str) -> &'static str {
    if m.starts_with("fts5:") || m.starts_with("unterminated string") || m.starts_with("no such column") {
        if m.contains(" in SELECT") {
            "sql-text"
        } else {
            "fts5"
        }
    } else if m.contains("syntax error") || m.contains("unrecognized token") || m.contains("incomplete input") {
        "sql-syntax"
    } else {
        "other"
    }
}

// ------------------------------------------------------------------------------------------------
// the case
// ------------------------------------------------------------------------------------------------

pub struct World<'a> {
    pub be: &'a dyn Backend,
    pub case: &'a Case,
    pub plan: Plan,
    pub names: Names,
    pub rows: Vec<MRow>,
    /// suffix for signatures (unused: the service path reports the same signatures)
    pub via: &'static str,
    /// the backend is a full service instance: a panic would kill one of its threads, shapes known to
    /// panic are not sent
    pub service: bool,
    /// name given to the mutations: changes after a model update (the service caches parsed
    /// mutations by text and does not drop them when the model changes)
    pub mutation_name: &'static str,
}

fn fld_ty<'a>(plan: &'a Plan, name: &str) -> Option<Ty> {
    if name == "late" {
        return Some(plan.ty);
    }
    plan.fields_v1.iter().find(|(n, _)| n == name).map(|(_, t)| *t)
}

impl<'a> World<'a> {
    fn expected_other(&self, name: &str) -> Val {
        let ty = fld_ty(&self.plan, name).expect("known field");
        if name.ends_with("_r") {
            filler(ty)
        } else if name.ends_with("_n") {
            Val::Null
        } else {
            benign_default(ty)
        }
    }

    fn select_list(&self, with_late: bool) -> String {
        let mut s = String::from("id tag note");
        for (n, _) in &self.plan.fields_v1 {
            s.push(' ');
            s.push_str(n);
        }
        if with_late {
            s.push_str(" late");
        }
        s
    }

    /// creates one row; returns the id
    pub fn create_row(
        &self,
        tag: &str,
        spec: Option<&RowSpec>,
        o: &mut Outcome,
    ) -> Result<(Option<String>, Option<Val>, bool, bool), ()> {
        let n = &self.names;
        let mut text = format!("mutate {} {{ T {{ tag: ${} ", self.mutation_name, n.n("tg"));
        let mut params: Vec<(String, P)> = vec![(n.n("tg"), P::S(tag.to_string()))];
        for ty in Ty::ALL {
            let f = format!("{}_r", ty.prefix());
            if spec.is_some() && f == self.plan.field {
                continue;
            }
            let var = n.n(&format!("f{}", ty.prefix()));
            text.push_str(&format!("{}: ${} ", f, var));
            params.push((var, to_param(&filler(ty))));
        }
        let mut stored: Option<Val> = None;
        let mut used_literal = false;
        let mut from_default = false;
        if let Some(spec) = spec {
            let mut how = spec.how;
            if how == How::Omit && self.plan.variant == Variant::Req {
                how = How::Param;
            }
            if how == How::Literal && self.case.avoid_known {
                if let Some(s) = literal_string(&spec.val) {
                    if !literal_is_plain(&s, self.case.lit_style) {
                        o.count("excluded:mutation-literal-needs-unsupported-escape", 1);
                        how = How::Param;
                    }
                }
            }
            if (self.case.avoid_known || self.service) && self.plan.ty == Ty::Json && spec.val == Val::Null && how != How::Omit {
                o.count("excluded:json-null", 1);
                how = How::Omit;
            }
            match how {
                How::Param => {
                    let var = n.n("v");
                    text.push_str(&format!("{}: ${} ", self.plan.field, var));
                    params.push((var, to_param(&spec.val)));
                    stored = Some(spec.val.clone());
                    o.label("pos:mutation-parameter");
                }
                How::Literal => {
                    text.push_str(&format!(
                        "{}: {} ",
                        self.plan.field,
                        literal(&spec.val, self.case.lit_style, self.case.flt_style)
                    ));
                    stored = Some(spec.val.clone());
                    used_literal = true;
                    o.label("pos:mutation-literal");
                }
                How::Omit => {
                    stored = Some(match self.plan.variant {
                        Variant::Nul => Val::Null,
                        _ => self.plan.default.clone().expect("default"),
                    });
                    from_default = self.plan.variant != Variant::Nul;
                    o.label("pos:mutation-omitted(default-or-null)");
                }
            }
        }
        text.push_str("} }");
        let pr: Vec<(&str, P)> = params.iter().map(|(k, v)| (k.as_str(), v.clone())).collect();
        match self.be.mutate(&text, &pr) {
            Ok(res) => {
                let id = res.get("T").and_then(|t| t.get("id")).and_then(|i| i.as_str()).map(|s| s.to_string());
                Ok((id, stored, used_literal, from_default))
            }
            Err(f) => {
                self.classify_write_failure("create", spec, used_literal, &f, &text, o);
                Err(())
            }
        }
    }

    fn classify_write_failure(
        &self,
        step: &str,
        spec: Option<&RowSpec>,
        used_literal: bool,
        f: &Fail,
        text: &str,
        o: &mut Outcome,
    ) {
        let detail = format!("{} failed: {:?} :: {}", step, clip(&format!("{:?}", f), 300), clip(text, 300));
        if let Some(spec) = spec {
            // known: Json null (parameter or literal) hits Option::unwrap in mutation_query.rs
            if self.plan.ty == Ty::Json && spec.val == Val::Null {
                if let Fail::Panic(m) = f {
                    if m.contains("mutation_query.rs") {
                        o.violation(
                            format!("json-null-panic:{}{}", if used_literal { "literal" } else { "parameter" }, self.via),
                            detail,
                        );
                        return;
                    }
                }
            }
            // known: a Json literal whose text needs an escape other than \" is mangled before it is parsed
            if used_literal && self.plan.ty == Ty::Json {
                if let Some(s) = literal_string(&spec.val) {
                    if !literal_is_plain(&s, self.case.lit_style) {
                        let defect = defect_decode(&string_inner(&s, self.case.lit_style));
                        if json::parse(&defect).is_err() && matches!(f, Fail::Param(_) | Fail::Parse(_) | Fail::Other(_)) {
                            o.violation(format!("literal-escape-not-decoded:mutation-json{}", self.via), detail);
                            return;
                        }
                    }
                }
            }
        }
        o.violation(format!("{}{}", sig_for_fail(step, f), self.via), detail);
    }

    /// reads every row of T and compares it with the model
    pub fn read_back(&mut self, stage: &str, with_late: bool, o: &mut Outcome) -> bool {
        let q = format!("query {{ T(order_by(tag asc)) {{ {} }} }}", self.select_list(with_late));
        let res = match self.be.query(&q, &[]) {
            Ok(r) => r,
            Err(f) => {
                o.violation(
                    format!("{}{}", sig_for_fail(&format!("read-back:{}", stage), &f), self.via),
                    format!("{:?} :: {}", clip(&format!("{:?}", f), 400), clip(&q, 200)),
                );
                return false;
            }
        };
        let got = match res.get("T").and_then(|t| t.as_arr()) {
            Some(a) => a.clone(),
            None => {
                o.violation(format!("result-shape:{}{}", stage, self.via), res.short());
                return false;
            }
        };
        // row set
        let mut exp_tags: Vec<String> = self.rows.iter().map(|r| r.tag.clone()).collect();
        exp_tags.sort();
        let got_tags: Vec<String> =
            got.iter().map(|r| r.get("tag").and_then(|t| t.as_str()).unwrap_or("?").to_string()).collect();
        if exp_tags != got_tags {
            o.violation(
                format!("row-set-changed:{}{}", stage, self.via),
                format!("expected tags {:?} got {:?}", exp_tags, got_tags),
            );
            return false;
        }
        let target = self.plan.field.clone();
        for g in &got {
            let tag = g.get("tag").and_then(|t| t.as_str()).unwrap_or("?").to_string();
            let idx = self.rows.iter().position(|r| r.tag == tag).expect("tag");
            // other fields
            let note_exp = match &self.rows[idx].note {
                Some(s) => Val::S(s.clone()),
                None => Val::Null,
            };
            if check_val(&note_exp, g.get("note").unwrap_or(&JOut::Null)) != Diff::Same {
                o.violation(
                    format!("other-field-changed:note:{}{}", stage, self.via),
                    format!("row {} note expected {:?} got {:?}", tag, note_exp, g.get("note").map(|x| x.short())),
                );
            }
            let names: Vec<String> = self.plan.fields_v1.iter().map(|(n, _)| n.clone()).collect();
            for name in names {
                if name == target {
                    continue;
                }
                let exp = self.expected_other(&name);
                let gv = g.get(&name).cloned().unwrap_or(JOut::Null);
                let d = check_val(&exp, &gv);
                if d != Diff::Same {
                    o.violation(
                        format!("other-field-changed:{}:{}{}", fld_ty(&self.plan, &name).unwrap().name(), stage, self.via),
                        format!("row {} field {} expected {:?} got {}", tag, name, exp, gv.short()),
                    );
                }
            }
            // target
            if !with_late && target == "late" {
                continue;
            }
            if self.rows[idx].tainted {
                continue;
            }
            let gv = g.get(&target).cloned().unwrap_or(JOut::Null);
            let is_old = self.rows[idx].target.is_none();
            let exp = match &self.rows[idx].target {
                Some(v) => v.clone(),
                None => self.plan.default.clone().expect("old rows only exist with a default"),
            };
            let d = check_val(&exp, &gv);
            if d == Diff::Same {
                continue;
            }
            self.classify_target_mismatch(idx, is_old, &exp, &gv, d, stage, o);
        }
        true
    }

    fn classify_target_mismatch(
        &mut self,
        idx: usize,
        is_old: bool,
        exp: &Val,
        gv: &JOut,
        d: Diff,
        stage: &str,
        o: &mut Outcome,
    ) {
        let tag = self.rows[idx].tag.clone();
        let detail = format!("row {} field {} expected {} got {}", tag, self.plan.field, clip(&format!("{:?}", exp), 200), gv.short());
        let ty = self.plan.ty;
        let via = self.via;
        // --- known deviations on rows that read the default through Ifnull (old rows) ---
        if is_old {
            match (ty, exp, gv) {
                (Ty::Json, Val::J(j), JOut::Str(s)) => {
                    // the default text comes back as a JSON string instead of the JSON value
                    if json::parse(s).map(|x| json::compare(j, &x) != Diff::Different).unwrap_or(false) {
                        o.violation(format!("json-default-returned-as-text{}", via), detail);
                        self.rows[idx].tainted = true;
                        return;
                    }
                }
                (Ty::Bool, Val::B(b), JOut::Num(n)) => {
                    if n == if *b { "1" } else { "0" } {
                        o.violation(format!("bool-default-returned-as-integer{}", via), detail);
                        self.rows[idx].tainted = true;
                        return;
                    }
                }
                (Ty::Flt, Val::F(bits), JOut::Num(n)) => {
                    // SQLite renders the spliced REAL literal with 15 significant digits
                    let f = f64::from_bits(*bits);
                    if let Ok(g) = n.parse::<f64>() {
                        let rel = if f == 0.0 { g.abs() } else { ((g - f) / f).abs() };
                        if rel < 1e-14 || (g.is_infinite() && f.abs() > 1.797e308) {
                            o.violation(format!("float-default-rendered-15-digits{}", via), detail);
                            self.rows[idx].tainted = true;
                            return;
                        }
                    }
                }
                _ => {}
            }
        }
        // --- known: escapes of string literals are not decoded ---
        let from_default = self.rows[idx].from_default;
        if let Some(s) = literal_string(exp) {
            if !literal_is_plain(&s, self.case.lit_style) {
                let defect = defect_decode(&string_inner(&s, self.case.lit_style));
                let pos = if from_default { "default" } else { "mutation" };
                match (ty, gv) {
                    (Ty::Str, JOut::Str(g)) if *g == defect => {
                        o.violation(format!("literal-escape-not-decoded:{}{}", pos, via), detail);
                        // adopt what is stored so that the remaining oracles stay meaningful
                        if pos == "default" {
                            self.adopt_default(Val::S(defect.clone()));
                        } else {
                            self.rows[idx].target = Some(Val::S(defect));
                        }
                        return;
                    }
                    (Ty::Json, g) => {
                        if let Ok(dj) = json::parse(&defect) {
                            if jout_eq(&dj, g) || matches!(g, JOut::Str(t) if json::parse(t).map(|x| jout_eq(&dj, &x)).unwrap_or(false)) {
                                o.violation(format!("literal-escape-not-decoded:{}-json{}", pos, via), detail);
                                self.rows[idx].tainted = true;
                                return;
                            }
                        }
                    }
                    _ => {}
                }
            }
        }
        // --- known: serde_json without float_roundtrip moves floats while re-reading the row ---
        if d == Diff::FloatNear {
            let pos = if ty == Ty::Json && stage == "create" { "json-write" } else if stage == "create" { "write" } else { "update" };
            o.violation(format!("float-reparse-last-bit:{}{}", pos, via), detail);
            self.rows[idx].tainted = true;
            return;
        }
        o.violation(format!("roundtrip-mismatch:{}:{}{}", ty.name(), stage, via), detail);
        self.rows[idx].tainted = true;
    }

    fn adopt_default(&mut self, v: Val) {
        for r in self.rows.iter_mut() {
            if r.target.is_some() && r.from_default {
                r.target = Some(v.clone());
            }
        }
        self.plan.default = Some(v);
    }

    /// value a row holds for filters: old rows hold the default
    fn effective(&self, r: &MRow) -> Val {
        match &r.target {
            Some(v) => v.clone(),
            None => self.plan.default.clone().expect("default"),
        }
    }
}

/// structural equality of two parsed documents (numbers by value)
pub fn jout_eq(a: &JOut, b: &JOut) -> bool {
    match (a, b) {
        (JOut::Num(x), JOut::Num(y)) => {
            // diagnostic use only: floats a few ULP apart count as equal (a second known deviation,
            // the float re-parse, may be layered on the one being recognised)
            x == y
                || matches!((x.parse::<f64>(), y.parse::<f64>()), (Ok(p), Ok(q))
                    if p == q || ((p.to_bits() as i128) - (q.to_bits() as i128)).abs() <= 4)
        }
        (JOut::Arr(x), JOut::Arr(y)) => x.len() == y.len() && x.iter().zip(y.iter()).all(|(p, q)| jout_eq(p, q)),
        (JOut::Obj(x), JOut::Obj(y)) => {
            // duplicate keys: the last one wins in the implementation's reader
            let dedup = |v: &Vec<(String, JOut)>| -> Vec<(String, JOut)> {
                let mut out: Vec<(String, JOut)> = vec![];
                for (k, val) in v {
                    if let Some(e) = out.iter_mut().find(|(k2, _)| k2 == k) {
                        e.1 = val.clone();
                    } else {
                        out.push((k.clone(), val.clone()));
                    }
                }
                out
            };
            let (x, y) = (dedup(x), dedup(y));
            x.len() == y.len() && x.iter().all(|(k, v)| y.iter().any(|(k2, v2)| k == k2 && jout_eq(v, v2)))
        }
        _ => a == b,
    }
}

// ------------------------------------------------------------------------------------------------
// filters, paging, search
// ------------------------------------------------------------------------------------------------

const FIELD_ALIASES_SAFE: &[&str] = &["al", "ab_1", "\u{e9}t\u{e9}", "\u{4e00}", "x\u{661}", "order", "select", "value", "1a"];
const ENTITY_ALIASES_SAFE: &[&str] = &["ea", "\u{e9}1", "rows_1", "value", "json_object"];
const ENTITY_ALIASES_FULL: &[&str] = &["ea", "\u{e9}1", "rows_1", "value", "json_object", "rowid", "x\u{661}", "order", "from", "1a"];

fn sql_keyword_or_not_identifier(a: &str) -> Option<&'static str> {
    if a.chars().next().map(|c| c.is_numeric()).unwrap_or(false) {
        return Some("digit-first");
    }
    const KW: &[&str] = &[
        "order", "group", "from", "select", "where", "limit", "on", "as", "by", "in", "is", "not", "null", "or", "and",
        "join", "left", "natural", "cross", "inner", "union", "having", "table", "index", "values", "case", "when",
    ];
    if KW.contains(&a.to_lowercase().as_str()) {
        return Some("keyword");
    }
    None
}

pub struct FilterCtx {
    /// string literals (or default texts bound as internal parameters) that precede the variable in the query
    pub literals_before: Vec<String>,
}

impl<'a> World<'a> {
    fn tags_where(&self, f: impl Fn(&MRow, &Val) -> Option<bool>) -> (BTreeSet<String>, BTreeSet<String>) {
        // (must be returned, may be returned or not: tainted rows)
        let mut must = BTreeSet::new();
        let mut dont_care = BTreeSet::new();
        for r in &self.rows {
            let v = self.effective(r);
            if r.tainted {
                dont_care.insert(r.tag.clone());
                continue;
            }
            match f(r, &v) {
                Some(true) => {
                    must.insert(r.tag.clone());
                }
                Some(false) => {}
                None => {
                    dont_care.insert(r.tag.clone());
                }
            }
        }
        (must, dont_care)
    }

    fn run_tag_query(&self, q: &str, params: &[(&str, P)], key: &str) -> Result<BTreeSet<String>, Fail> {
        let res = self.be.query(q, params)?;
        let arr = res
            .get(key)
            .and_then(|t| t.as_arr())
            .ok_or_else(|| Fail::Other(format!("result shape: {}", res.short())))?;
        Ok(arr.iter().map(|r| r.get("tag").and_then(|t| t.as_str()).unwrap_or("?").to_string()).collect())
    }

    /// true when a filter / paging on the target field goes through the spliced default (known deviation)
    fn spliced_default_hazard(&self) -> Option<&'static str> {
        // (a text default was written between quotes in the filter SQL: repaired by 5fd9076; a case with a
        // quote or a NUL in its default is no longer explained by that)
        if true {
            return None;
        }
        if !matches!(self.plan.variant, Variant::Def | Variant::Late) {
            return None;
        }
        let s = self.plan.default.as_ref().and_then(literal_string)?;
        // what is spliced is the text as decoded by the model parser
        let spliced = defect_decode(&string_inner(&s, self.case.lit_style));
        if spliced.contains('\'') {
            Some("quote")
        } else if spliced.contains('\0') {
            Some("nul")
        } else {
            None
        }
    }

    #[allow(clippy::too_many_arguments)]
    fn judge_set(
        &self,
        what: &str,
        form: &str,
        probe: &Val,
        got: Result<BTreeSet<String>, Fail>,
        must: &BTreeSet<String>,
        dont_care: &BTreeSet<String>,
        alt: Option<(&str, BTreeSet<String>)>,
        ctx: &FilterCtx,
        var: Option<&str>,
        q: &str,
        o: &mut Outcome,
    ) {
        let via = self.via;
        let ty = self.plan.ty;
        let detail_base = format!("probe {} :: {}", clip(&format!("{:?}", probe), 160), clip(q, 240));
        let captured = var.map(|v| ctx.literals_before.iter().any(|l| l == v)).unwrap_or(false);
        let got = match got {
            Ok(g) => g,
            Err(f) => {
                let detail = format!("{:?} :: {}", clip(&format!("{:?}", f), 300), detail_base);
                if let Fail::Sqlite(_) = &f {
                    if let Some(kind) = self.spliced_default_hazard() {
                        o.violation(format!("string-default-spliced-in-filter:{}{}", kind, via), detail);
                        return;
                    }
                }
                o.violation(format!("{}{}", sig_for_fail(&format!("{}:{}", what, form), &f), via), detail);
                return;
            }
        };
        let missing: Vec<&String> = must.iter().filter(|t| !got.contains(*t)).collect();
        let extra: Vec<&String> = got.iter().filter(|t| !must.contains(*t) && !dont_care.contains(*t)).collect();
        if missing.is_empty() && extra.is_empty() {
            return;
        }
        let detail = format!("missing {:?} extra {:?} :: {}", missing, extra, detail_base);
        // (fixed by 0ea0444: a variable bound to an earlier literal with the same text as its name; a
        // recurrence is reported through the generic signatures below, with `captured` in the detail)
        let detail = if captured { format!("[variable named like an earlier literal] {}", detail) } else { detail };
        // known: literal escapes are not decoded
        if let Some((name, alt_set)) = &alt {
            let m2: Vec<&String> = alt_set.iter().filter(|t| !got.contains(*t)).collect();
            let e2: Vec<&String> = got.iter().filter(|t| !alt_set.contains(*t) && !dont_care.contains(*t)).collect();
            if m2.is_empty() && e2.is_empty() {
                o.violation(format!("{}{}", name, via), detail);
                return;
            }
        }
        if self.spliced_default_hazard().is_some() && what != "search" {
            o.violation(
                format!("string-default-spliced-in-filter:{}{}", self.spliced_default_hazard().unwrap(), via),
                detail,
            );
            return;
        }
        // known: SQLite's text->double conversion differs from the correctly rounded one
        if ty == Ty::Flt && what != "search" {
            if let Some(p) = num_of(probe) {
                if self.float_conversion_explains(p, form, &missing, &extra) {
                    o.violation(format!("float-filter-last-bit:{}{}", form_class(form), via), detail);
                    return;
                }
            }
        }
        // known: the Json equality filter compares the text SQLite extracts (`->>`) with the parameter text,
        // so a stored JSON *string* whose content is the text of the probe value matches it
        if ty == Ty::Json && missing.is_empty() && !extra.is_empty() {
            if let Val::J(pj) = probe {
                let ptext = pj.text();
                let all_strings = extra.iter().all(|t| {
                    self.rows.iter().any(|r| r.tag == **t && matches!(self.effective(r), Val::J(JVal::Str(ref s)) if *s == ptext))
                });
                if all_strings {
                    o.violation(format!("json-filter-string-equals-text-of-value{}", via), detail);
                    return;
                }
            }
        }
        let kind = if !missing.is_empty() { "miss" } else { "extra" };
        o.violation(format!("{}-{}:{}:{}{}", what, kind, ty.name(), form_class(form), via), detail);
    }

    /// diagnostic: does SQLite itself disagree with IEEE on `json ->> = value` for the rows involved?
    fn float_conversion_explains(&self, p: f64, form: &str, missing: &[&String], extra: &[&String]) -> bool {
        let mut explained = !missing.is_empty() || !extra.is_empty();
        for t in missing.iter().chain(extra.iter()) {
            let row = match self.rows.iter().find(|r| r.tag == **t) {
                Some(r) => r,
                None => return false,
            };
            let stored = match num_of(&self.effective(row)) {
                Some(s) => s,
                None => return false,
            };
            // the implementation stores the shortest text and compares `_json->>'$.x'` with a bound double
            // or with a spliced positional literal; ask SQLite what it makes of the same texts
            let doc = format!("{{\"a\":{}}}", json::float_text(stored));
            let sqlite_says = if row.target.is_none() {
                // old row: the default is spliced as a positional SQL literal and compared with the value
                let sql = format!("SELECT {} = ?2 OR ?1 IS NULL", format!("{}", stored));
                self.be.diag_bool(&sql, &doc, p)
            } else if form_class(form) == "literal" {
                let sql = format!("SELECT (?1 ->> '$.a') = {} OR ?2 IS NULL", format!("{}", p));
                self.be.diag_bool(&sql, &doc, p)
            } else {
                self.be.diag_bool("SELECT (?1 ->> '$.a') = ?2", &doc, p)
            };
            let ieee = stored == p;
            match sqlite_says {
                Some(s) if s != ieee => {}
                // a spliced default goes through the same conversion
                _ => {
                    explained = false;
                }
            }
        }
        explained
    }

    pub fn filters(&mut self, o: &mut Outcome) {
        let n_rows = self.rows.len().max(1);
        let field = self.plan.field.clone();
        let ty = self.plan.ty;
        let mut probes: Vec<Val> = vec![];
        for p in &self.case.probes {
            let v = match p {
                ProbeSrc::Row(i) => {
                    let r = &self.rows[pick(*i, n_rows).min(self.rows.len() - 1)];
                    self.effective(r)
                }
                ProbeSrc::Default => match &self.plan.default {
                    Some(d) => d.clone(),
                    None => continue,
                },
                ProbeSrc::Fresh(v) => v.clone(),
            };
            probes.push(v);
        }
        if self.plan.variant == Variant::Nul {
            probes.push(Val::Null);
        }
        let var = self.names.n("v");
        // ---- form E: filter on a path inside a Json field (`j_r->$.a[1]` holds the string b'" in every row) ----
        if field != "j_r" {
            let inner = "b'\"".to_string();
            let (all, dc) = self.tags_where(|_, _| Some(true));
            let all: BTreeSet<String> = all.into_iter().chain(dc.into_iter()).collect();
            let none = BTreeSet::new();
            let q = format!("query {{ T(order_by(tag asc), j_r->$.a[1] = ${}) {{ tag }} }}", var);
            let got = self.run_tag_query(&q, &[(var.as_str(), P::S(inner.clone()))], "T");
            o.label("pos:json-path-filter-parameter");
            self.judge_set("json-path-filter", "parameter", &Val::S(inner.clone()), got, &all, &none, None, &FilterCtx { literals_before: vec![] }, Some(&var), &q, o);
            let q = format!("query {{ T(order_by(tag asc), j_r->$.a[1] = {}) {{ tag }} }}", string_literal(&inner, 0));
            let got = self.run_tag_query(&q, &[], "T");
            o.label("pos:json-path-filter-literal");
            self.judge_set("json-path-filter", "literal", &Val::S(inner.clone()), got, &all, &none, None, &FilterCtx { literals_before: vec![] }, None, &q, o);
            // a string probe of the case against the same path
            if let Some(Val::S(ps)) = probes.iter().find(|p| matches!(p, Val::S(_))) {
                let exp = if *ps == inner { all.clone() } else { BTreeSet::new() };
                let q = format!("query {{ T(order_by(tag asc), j_r->$.a[1] = ${}) {{ tag }} }}", var);
                let got = self.run_tag_query(&q, &[(var.as_str(), P::S(ps.clone()))], "T");
                self.judge_set("json-path-filter", "parameter", &Val::S(ps.clone()), got, &exp, &none, None, &FilterCtx { literals_before: vec![] }, Some(&var), &q, o);
            }
        }
        // ---- form F: the whole Json value through a selector (`sel: field->$`) ----
        if ty == Ty::Json {
            let has_default = matches!(self.plan.variant, Variant::Def | Variant::Late);
            if has_default && self.case.avoid_known {
                o.count("excluded:json-selector-on-field-with-default", 1);
            } else {
                let q = format!("query {{ T(order_by(tag asc)) {{ tag sel: {}->$ }} }}", field);
                o.label("pos:json-selector");
                match self.be.query(&q, &[]) {
                    Err(Fail::Sqlite(m)) if has_default && sqlite_class(&m) == "sql-syntax" => {
                        o.violation("json-selector-on-default-sql-syntax", format!("{} :: {}", clip(&m, 300), q));
                    }
                    Err(f) => o.violation(sig_for_fail("json-selector", &f), format!("{:?} :: {}", clip(&format!("{:?}", f), 300), q)),
                    Ok(res) => {
                        let arr = res.get("T").and_then(|t| t.as_arr()).cloned().unwrap_or_default();
                        for g in &arr {
                            let tag = g.get("tag").and_then(|t| t.as_str()).unwrap_or("?");
                            if let Some(r) = self.rows.iter().find(|r| r.tag == tag) {
                                if r.tainted {
                                    continue;
                                }
                                let exp = self.effective(r);
                                let gv = g.get("sel").cloned().unwrap_or(JOut::Null);
                                if check_val(&exp, &gv) == Diff::Different {
                                    o.violation(
                                        "roundtrip-mismatch:Json:selector",
                                        format!("row {} expected {} got {}", tag, clip(&format!("{:?}", exp), 200), gv.short()),
                                    );
                                }
                            }
                        }
                        if arr.len() != self.rows.len() {
                            o.violation("row-set-changed:json-selector", format!("{} rows for {} expected", arr.len(), self.rows.len()));
                        }
                    }
                }
            }
        }
        for p in probes {
            // ---- `field = null` (literal only; a null parameter has no defined meaning with `=`) ----
            if p == Val::Null {
                if self.plan.variant != Variant::Nul {
                    continue;
                }
                let (must, dc) = self.tags_where(|r, _| Some(r.target == Some(Val::Null)));
                let q = format!("query {{ T(order_by(tag asc), {} = null) {{ tag }} }}", field);
                let got = self.run_tag_query(&q, &[], "T");
                o.label("pos:filter-null-literal");
                self.judge_set("filter", "null-literal", &p, got, &must, &dc, None, &FilterCtx { literals_before: vec![] }, None, &q, o);
                continue;
            }
            let json_mode = ty == Ty::Json;
            let (must_full, dc_full) = self.tags_where(|_, v| Some(val_eq(v, &p)));
            // Json: the filter compares the text SQLite extracts with the parameter text; only
            // soundness is required (see assumptions), every row may or may not be returned
            let (must, dc) = if json_mode {
                let all: BTreeSet<String> = must_full.iter().cloned().chain(dc_full.iter().cloned()).collect();
                (BTreeSet::new(), all)
            } else {
                (must_full.clone(), dc_full.clone())
            };

            // ---- form A: parameter ----
            let q = format!("query {{ T(order_by(tag asc), {} = ${}) {{ tag }} }}", field, var);
            let got = self.run_tag_query(&q, &[(var.as_str(), to_param(&p))], "T");
            if json_mode {
                if let Ok(g) = &got {
                    let kind = match &p {
                        Val::J(JVal::Arr(_)) | Val::J(JVal::Obj(_)) => "container",
                        Val::J(JVal::Str(_)) => "string",
                        _ => "number-or-boolean",
                    };
                    if must_full.iter().all(|t| g.contains(t)) && !must_full.is_empty() {
                        o.count(&format!("json_filter_param_matched_all:{}", kind), 1);
                    } else if !must_full.is_empty() {
                        o.count(&format!("json_filter_param_missed_some(textual comparison):{}", kind), 1);
                    }
                }
            }
            o.label("pos:filter-parameter");
            self.judge_set("filter", "parameter", &p, got, &must, &dc, None, &FilterCtx { literals_before: vec![] }, Some(&var), &q, o);

            // ---- form B: literal ----
            if json_mode {
                // a string literal is rejected for a Json field by the parser (there is no Json literal in a
                // filter): the only acceptable outcome besides a result is that parse error
                let lit = literal(&p, 0, self.case.flt_style);
                let q = format!("query {{ T(order_by(tag asc), {} = {}) {{ tag }} }}", field, lit);
                match self.run_tag_query(&q, &[], "T") {
                    Err(Fail::Parse(_)) => o.count("not-expressible:json-filter-literal", 1),
                    other => {
                        o.label("pos:filter-literal");
                        self.judge_set("filter", "literal", &p, other, &must, &dc, None, &FilterCtx { literals_before: vec![] }, None, &q, o)
                    }
                }
            } else {
                let lit_s = literal_string(&p);
                let plain = lit_s.as_ref().map(|s| literal_is_plain(s, self.case.lit_style)).unwrap_or(true);
                if !plain && self.case.avoid_known {
                    o.count("excluded:filter-literal-needs-unsupported-escape", 1);
                } else {
                    let lit = literal(&p, self.case.lit_style, self.case.flt_style);
                    let q = format!("query {{ T(order_by(tag asc), {} = {}) {{ tag }} }}", field, lit);
                    let got = self.run_tag_query(&q, &[], "T");
                    let alt = if !plain {
                        let defect = Val::S(defect_decode(&string_inner(lit_s.as_ref().unwrap(), self.case.lit_style)));
                        let (m, _) = self.tags_where(|_, v| Some(val_eq(v, &defect)));
                        Some(("literal-escape-not-decoded:filter", m))
                    } else {
                        None
                    };
                    o.label("pos:filter-literal");
                    self.judge_set("filter", "literal", &p, got, &must, &dc, alt, &FilterCtx { literals_before: vec![] }, None, &q, o);
                }
            }

            // ---- form C: filter on the alias of the selected field, aliased entity ----
            {
                let fa_pool = FIELD_ALIASES_SAFE;
                let ea_pool = if self.case.avoid_known { ENTITY_ALIASES_SAFE } else { ENTITY_ALIASES_FULL };
                let fa = fa_pool[(self.case.alias as usize) % fa_pool.len()];
                let ea = ea_pool[((self.case.alias as usize) / fa_pool.len()) % ea_pool.len()];
                let q = format!(
                    "query {{ {ea}: T(order_by(tag asc), {fa} = ${v}) {{ tag {fa}: {f} }} }}",
                    ea = ea,
                    fa = fa,
                    v = var,
                    f = field
                );
                let mut lits = vec![];
                // the default of a selected field is bound as an internal parameter in front of the filter
                if let Some(d) = self.plan.default.as_ref().and_then(literal_string) {
                    if matches!(self.plan.variant, Variant::Def | Variant::Late) {
                        lits.push(defect_decode(&string_inner(&d, self.case.lit_style)));
                    }
                }
                let got = self.run_tag_query(&q, &[(var.as_str(), to_param(&p))], ea);
                o.label("pos:filter-on-alias");
                if let (Err(Fail::Sqlite(m)), Some(class)) = (&got, sql_keyword_or_not_identifier(ea)) {
                    o.violation(
                        format!("entity-alias-breaks-sql:{}{}", class, self.via),
                        format!("{} :: {}", clip(m, 200), clip(&q, 200)),
                    );
                } else {
                    self.judge_set("filter", "alias-parameter", &p, got, &must, &dc, None, &FilterCtx { literals_before: lits }, Some(&var), &q, o);
                }
            }

            // ---- form D: an unrelated string literal in front of the parameter ----
            if let Some(l2) = &self.case.second_literal {
                let plain2 = literal_is_plain(l2, self.case.lit_style);
                if !plain2 && self.case.avoid_known {
                    o.count("excluded:second-literal-needs-unsupported-escape", 1);
                } else {
                    let effective_l2 = defect_decode(&string_inner(l2, self.case.lit_style));
                    let q = format!(
                        "query {{ T(order_by(tag asc), tag != {}, {} = ${}) {{ tag }} }}",
                        string_literal(l2, self.case.lit_style),
                        field,
                        var
                    );
                    let keep = |set: &BTreeSet<String>, lit: &str| -> BTreeSet<String> {
                        set.iter().filter(|t| t.as_str() != lit).cloned().collect()
                    };
                    let must2 = keep(&must, l2);
                    let alt = if !plain2 { Some(("literal-escape-not-decoded:filter", keep(&must, &effective_l2))) } else { None };
                    let got = self.run_tag_query(&q, &[(var.as_str(), to_param(&p))], "T");
                    o.label("pos:filter-second-literal");
                    self.judge_set(
                        "filter",
                        "parameter-after-literal",
                        &p,
                        got,
                        &must2,
                        &dc,
                        alt,
                        &FilterCtx { literals_before: vec![effective_l2] },
                        Some(&var),
                        &q,
                        o,
                    );
                }
            }
        }
    }

    pub fn paging(&mut self, o: &mut Outcome) {
        let ty = self.plan.ty;
        if ty == Ty::Json || self.plan.variant == Variant::Late {
            return;
        }
        let n_rows = self.rows.len().max(1);
        let field = self.plan.field.clone();
        let p = match self.case.probes.first() {
            Some(ProbeSrc::Row(i)) => self.effective(&self.rows[pick(*i, n_rows).min(self.rows.len() - 1)]),
            Some(ProbeSrc::Fresh(v)) => v.clone(),
            _ => match &self.plan.default {
                Some(d) => d.clone(),
                None => return,
            },
        };
        if p == Val::Null {
            return;
        }
        let var = self.names.n("a");
        for (kw, want) in [("after", std::cmp::Ordering::Greater), ("before", std::cmp::Ordering::Less)] {
            let (must, dc) = self.tags_where(|_, v| {
                if *v == Val::Null {
                    return Some(false);
                }
                val_cmp(v, &p).map(|c| c == want)
            });
            // parameter
            let q = format!("query {{ T(order_by({} asc), {}(${})) {{ tag }} }}", field, kw, var);
            let got = self.run_tag_query(&q, &[(var.as_str(), to_param(&p))], "T");
            o.label("pos:paging-parameter");
            self.judge_set("paging", &format!("{}-parameter", kw), &p, got, &must, &dc, None, &FilterCtx { literals_before: vec![] }, Some(&var), &q, o);
            // literal
            let lit_s = literal_string(&p);
            let plain = lit_s.as_ref().map(|s| literal_is_plain(s, self.case.lit_style)).unwrap_or(true);
            if !plain && self.case.avoid_known {
                o.count("excluded:paging-literal-needs-unsupported-escape", 1);
                continue;
            }
            let q = format!(
                "query {{ T(order_by({} asc), {}({})) {{ tag }} }}",
                field,
                kw,
                literal(&p, self.case.lit_style, self.case.flt_style)
            );
            let got = self.run_tag_query(&q, &[], "T");
            let alt = if !plain {
                let defect = Val::S(defect_decode(&string_inner(lit_s.as_ref().unwrap(), self.case.lit_style)));
                let (m, _) = self.tags_where(|_, v| {
                    if *v == Val::Null {
                        return Some(false);
                    }
                    val_cmp(v, &defect).map(|c| c == want)
                });
                Some(("literal-escape-not-decoded:paging", m))
            } else {
                None
            };
            o.label("pos:paging-literal");
            self.judge_set("paging", &format!("{}-literal", kw), &p, got, &must, &dc, alt, &FilterCtx { literals_before: vec![] }, None, &q, o);
        }
    }

    /// every string of a row that ends in the full text index
    fn row_strings(&self, r: &MRow) -> Vec<String> {
        let mut out = vec![r.tag.clone()];
        if let Some(n) = &r.note {
            out.push(n.clone());
        }
        fn collect(v: &Val, out: &mut Vec<String>) {
            match v {
                Val::S(s) => out.push(s.clone()),
                Val::X(b) => out.push(b64(b)),
                Val::J(j) => collect_j(j, out),
                _ => {}
            }
        }
        fn collect_j(j: &JVal, out: &mut Vec<String>) {
            match j {
                JVal::Str(s) => out.push(s.clone()),
                JVal::Arr(v) => v.iter().for_each(|x| collect_j(x, out)),
                JVal::Obj(v) => v.iter().for_each(|(_, x)| collect_j(x, out)),
                _ => {}
            }
        }
        for (name, _) in &self.plan.fields_v1 {
            if *name == self.plan.field {
                continue;
            }
            collect(&self.expected_other(name), &mut out);
        }
        if let Some(t) = &r.target {
            collect(t, &mut out);
        }
        out
    }

    pub fn search(&mut self, spec: &SearchSpec, o: &mut Outcome) {
        let n_rows = self.rows.len().max(1);
        let term: String = match spec.from_row {
            Some(i) => {
                let r = &self.rows[pick(i, n_rows).min(self.rows.len() - 1)];
                let strings = self.row_strings(r);
                // the longest string of the row is the interesting one
                let s = strings.iter().max_by_key(|s| s.chars().count()).cloned().unwrap_or_default();
                let chars: Vec<char> = s.chars().collect();
                if chars.len() < 3 {
                    spec.term.clone()
                } else {
                    let len = (spec.len as usize).clamp(3, chars.len());
                    let start = pick(spec.start, chars.len() - len + 1);
                    chars[start..start + len].iter().collect()
                }
            }
            None => spec.term.clone(),
        };
        let plain = term.chars().count() >= 3
            && term.chars().all(|c| c.is_ascii_alphanumeric())
            && !matches!(term.as_str(), "AND" | "OR" | "NOT" | "NEAR");
        if !plain && self.case.avoid_known {
            o.count("excluded:search-term-with-fts5-syntax", 1);
            return;
        }
        let lower = term.to_ascii_lowercase();
        let contains = |r: &MRow| -> bool { self.row_strings(r).iter().any(|s| s.to_ascii_lowercase().contains(&lower)) };
        // a NUL in an indexed string cuts the indexed text: rows whose strings hold a NUL are don't-care
        let has_nul = |r: &MRow| -> bool { self.row_strings(r).iter().any(|s| s.contains('\0')) };
        let ascii_row = |r: &MRow| -> bool { self.row_strings(r).iter().all(|s| s.is_ascii()) };
        if self.case.avoid_known && self.rows.iter().any(|r| has_nul(r)) {
            o.count("excluded:search-over-rows-holding-nul", 1);
            return;
        }
        let mut must = BTreeSet::new();
        let mut dc = BTreeSet::new();
        let mut nul_rows = BTreeSet::new();
        for r in &self.rows {
            if r.tainted || r.target.is_none() {
                dc.insert(r.tag.clone());
            } else if has_nul(r) {
                nul_rows.insert(r.tag.clone());
                if contains(r) {
                    dc.insert(r.tag.clone());
                }
            } else if contains(r) {
                must.insert(r.tag.clone());
            } else if !ascii_row(r) {
                // case folding of non ASCII text in the trigram tokenizer is not modelled
                dc.insert(r.tag.clone());
            }
        }
        let var = self.names.n("t");
        let use_literal = spec.literal && literal_is_plain(&term, self.case.lit_style);
        let (q, got) = if use_literal {
            let q = format!("query {{ T(search({})) {{ tag }} }}", string_literal(&term, self.case.lit_style));
            let g = self.run_tag_query(&q, &[], "T");
            o.label("pos:search-literal");
            (q, g)
        } else {
            let q = format!("query {{ T(search(${})) {{ tag }} }}", var);
            let g = self.run_tag_query(&q, &[(var.as_str(), P::S(term.clone()))], "T");
            o.label("pos:search-parameter");
            (q, g)
        };
        let probe = Val::S(term.clone());
        if plain {
            o.label("search:plain-term");
            // known: NUL cuts the indexed text
            if let Ok(g) = &got {
                let missing_only_nul = nul_rows.iter().any(|t| !g.contains(t) && self.rows.iter().any(|r| r.tag == *t && contains(r)));
                if missing_only_nul {
                    o.violation(
                        format!("search-nul-truncates-indexed-text{}", self.via),
                        format!("term {:?}: a row holding it after a NUL character is not found :: got {:?}", term, g),
                    );
                }
            }
            self.judge_set("search", "plain", &probe, got, &must, &dc, None, &FilterCtx { literals_before: vec![] }, None, &q, o);
        } else {
            o.label("search:term-with-syntax");
            // the property: no character sequence in a search term changes the structure of what is executed.
            // Reference: the term is searched as text.
            let short = term.chars().count() < 3;
            match got {
                Err(Fail::Sqlite(m)) => {
                    o.violation(
                        format!("search-term-parsed-as-fts5-syntax:error{}", self.via),
                        format!("term {:?} -> {}", clip(&term, 80), clip(&m, 160)),
                    );
                }
                Err(f) => {
                    o.violation(format!("{}{}", sig_for_fail("search", &f), self.via), format!("term {:?} {:?}", clip(&term, 80), f));
                }
                Ok(g) => {
                    if term.contains('\0') {
                        o.count("search-term-with-nul(not judged)", 1);
                        return;
                    }
                    if short {
                        return;
                    }
                    let missing: Vec<&String> = must.iter().filter(|t| !g.contains(*t)).collect();
                    let extra: Vec<&String> = g.iter().filter(|t| !must.contains(*t) && !dc.contains(*t)).collect();
                    if !missing.is_empty() || !extra.is_empty() {
                        o.violation(
                            format!("search-term-parsed-as-fts5-syntax:result{}", self.via),
                            format!("term {:?} as text matches {:?}, got {:?}", clip(&term, 80), must, g),
                        );
                    }
                }
            }
        }
    }
}

fn form_class(form: &str) -> &str {
    if form.contains("literal") && form != "parameter-after-literal" {
        "literal"
    } else {
        "parameter"
    }
}

// ------------------------------------------------------------------------------------------------
// whole case on a backend
// ------------------------------------------------------------------------------------------------

/// avoid mode: shapes that always hit a known deviation are mapped to the nearest shape that does not
/// (deterministic, counted)
pub fn effective_case(case: &Case, o: &mut Outcome) -> Case {
    let mut c = case.clone();
    if c.avoid_known && c.variant == Variant::Late && matches!(c.ty, Ty::Bool | Ty::Json) {
        // old rows read a Boolean default as 0/1 and a Json default as text
        o.count("excluded:late-default-of-boolean-or-json", 1);
        c.variant = Variant::Def;
    }
    c
}

pub fn labels_for_case(case: &Case, o: &mut Outcome) -> bool {
    o.label(format!("ty:{}", case.ty.name()));
    o.label(format!("variant:{:?}", case.variant));
    o.label(if case.avoid_known { "gen:avoid-known-deviations" } else { "gen:full-domain" });
    let mut nontrivial = false;
    for r in &case.rows {
        if val_class_labels(&r.val, o) {
            nontrivial = true;
        }
        if r.how == How::Literal {
            nontrivial = true;
        }
    }
    if matches!(case.variant, Variant::Def | Variant::Late) {
        nontrivial = true;
        val_class_labels(&case.default, o);
    }
    nontrivial
}

/// canary rows: written before anything else, compared at the end through the language and raw
pub fn write_canary(be: &dyn Backend, o: &mut Outcome) -> bool {
    for i in 0..3 {
        let vals = canary_values(i);
        let mut params: Vec<(&str, P)> = vec![];
        for (k, v) in &vals {
            params.push((k, to_param(v)));
        }
        let q = "mutate { Canary { txt:$txt num:$num flt:$flt bol:$bol b64:$b64 jsn:$jsn } }";
        if let Err(f) = be.mutate(q, &params) {
            o.violation(sig_for_fail("canary-write", &f), format!("{:?}", f));
            return false;
        }
    }
    true
}

pub fn check_canary(be: &dyn Backend, stage: &str, via: &str, o: &mut Outcome) {
    let q = "query { Canary(order_by(num asc)) { txt num flt bol b64 jsn } }";
    match be.query(q, &[]) {
        Err(f) => o.violation(format!("{}{}", sig_for_fail(&format!("canary-read:{}", stage), &f), via), format!("{:?}", f)),
        Ok(res) => {
            let arr = res.get("Canary").and_then(|a| a.as_arr()).cloned().unwrap_or_default();
            if arr.len() != 3 {
                o.violation(format!("canary-changed:{}{}", stage, via), format!("{} canary rows: {}", arr.len(), res.short()));
                return;
            }
            for (i, g) in arr.iter().enumerate() {
                for (k, v) in canary_values(i).iter() {
                    let gv = g.get(k).cloned().unwrap_or(JOut::Null);
                    if check_val(v, &gv) != Diff::Same {
                        o.violation(
                            format!("canary-changed:{}{}", stage, via),
                            format!("canary {} field {} expected {:?} got {}", i, k, v, gv.short()),
                        );
                    }
                }
            }
        }
    }
}

/// the steps shared by the in-memory and the service path. `late_hook` applies the second model.
pub fn run_steps(
    w: &mut World,
    o: &mut Outcome,
    late_hook: &mut dyn FnMut(&str) -> Result<(), Fail>,
    full: bool,
) {
    let case = w.case;
    // old rows of a Late case
    if case.variant == Variant::Late {
        for k in 0..2 {
            let tag = format!("o{}", k);
            match w.create_row(&tag, None, o) {
                Ok((id, _, _, _)) => w.rows.push(MRow { tag, id, target: None, note: None, tainted: false, from_default: true }),
                Err(()) => return,
            }
        }
        if !w.read_back("old-rows", false, o) {
            return;
        }
        let v2 = w.plan.model_v2.clone().expect("v2");
        if let Err(f) = late_hook(&v2) {
            classify_model_failure(w, &f, "model-update", o);
            return;
        }
        w.mutation_name = "m2";
        o.label("pos:default-added-by-model-update");
    }
    let with_late = case.variant == Variant::Late;
    // rows of the case
    for (k, spec) in case.rows.iter().enumerate() {
        let tag = format!("r{}", k);
        if let Ok((id, stored, _, from_default)) = w.create_row(&tag, Some(spec), o) {
            w.rows.push(MRow { tag, id, target: stored, note: None, tainted: false, from_default });
        }
    }
    if w.rows.is_empty() {
        return;
    }
    if !w.read_back("create", with_late, o) {
        return;
    }
    w.filters(o);
    if full {
        if case.paging {
            w.paging(o);
        }
        if let Some(s) = &case.search {
            w.search(s, o);
        }
    }
    // updates
    if let Some(u) = &case.update {
        let n = w.rows.len();
        let idx = pick(u.row, n).min(n - 1);
        if let Some(id) = w.rows[idx].id.clone() {
            let idv = w.names.n("id");
            let wv = w.names.n("w");
            // (a) another field of the row
            let note = "n1 ' \" \\ \u{e9}".to_string();
            let q = format!("mutate {{ T {{ id: ${} note: ${} }} }}", idv, wv);
            match w.be.mutate(&q, &[(idv.as_str(), P::S(id.clone())), (wv.as_str(), P::S(note.clone()))]) {
                Ok(_) => {
                    w.rows[idx].note = Some(note);
                    o.label("pos:update-other-field");
                }
                Err(f) => o.violation(format!("{}{}", sig_for_fail("update-note", &f), w.via), format!("{:?}", f)),
            }
            if !w.read_back("update-other", with_late, o) {
                return;
            }
            // (b) the target field
            if let Some(nv) = &u.new_val {
                let mut how = nv.how;
                if how == How::Omit {
                    how = How::Param;
                }
                if how == How::Literal && case.avoid_known {
                    if let Some(s) = literal_string(&nv.val) {
                        if !literal_is_plain(&s, case.lit_style) {
                            o.count("excluded:mutation-literal-needs-unsupported-escape", 1);
                            how = How::Param;
                        }
                    }
                }
                let skip = (case.avoid_known || w.service) && w.plan.ty == Ty::Json && nv.val == Val::Null;
                if skip {
                    o.count("excluded:json-null", 1);
                } else {
                    let vv = w.names.n("v");
                    let (q, params): (String, Vec<(&str, P)>) = if how == How::Param {
                        (
                            format!("mutate {{ T {{ id: ${} {}: ${} }} }}", idv, w.plan.field, vv),
                            vec![(idv.as_str(), P::S(id.clone())), (vv.as_str(), to_param(&nv.val))],
                        )
                    } else {
                        (
                            format!(
                                "mutate {{ T {{ id: ${} {}: {} }} }}",
                                idv,
                                w.plan.field,
                                literal(&nv.val, case.lit_style, case.flt_style)
                            ),
                            vec![(idv.as_str(), P::S(id.clone()))],
                        )
                    };
                    match w.be.mutate(&q, &params) {
                        Ok(_) => {
                            w.rows[idx].target = Some(nv.val.clone());
                            w.rows[idx].tainted = false;
                            w.rows[idx].from_default = false;
                            o.label(if how == How::Param { "pos:update-parameter" } else { "pos:update-literal" });
                        }
                        Err(f) => {
                            let spec = RowSpec { val: nv.val.clone(), how };
                            w.classify_write_failure("update", Some(&spec), how == How::Literal, &f, &q, o);
                        }
                    }
                    if !w.read_back("update-target", with_late, o) {
                        return;
                    }
                }
            }
        }
    }
}

pub fn classify_model_failure(w: &World, f: &Fail, step: &str, o: &mut Outcome) {
    let detail = format!("{:?}", clip(&format!("{:?}", f), 300));
    // known: a Json default whose text needs an escape other than \" is mangled before validation
    if w.plan.ty == Ty::Json {
        if let Some(s) = w.plan.default.as_ref().and_then(literal_string) {
            if !literal_is_plain(&s, w.case.lit_style) {
                let defect = defect_decode(&string_inner(&s, w.case.lit_style));
                if json::parse(&defect).is_err() && matches!(f, Fail::Parse(_) | Fail::Param(_)) {
                    o.violation(format!("literal-escape-not-decoded:default-json{}", w.via), detail);
                    return;
                }
            }
        }
    }
    o.violation(format!("{}{}", sig_for_fail(step, f), w.via), detail);
}

pub fn run_inmem(case: &Case, o: &mut Outcome) {
    dv::world::begin_case(1);
    let mut db = Db::open();
    let plan = Plan::new(case, false);
    // the model goes first; it carries the default literal
    if let Err(f) = db.update_model(&plan.model_v1) {
        let w = World { be: &db, case, plan, names: Names::new(case.avoid_known), rows: vec![], via: "", service: false, mutation_name: "m1" };
        classify_model_failure(&w, &f, "model", o);
        return;
    }
    if !write_canary(&db, o) {
        return;
    }
    let schema_before = db.schema();
    let canary_raw_before: Vec<_> = db.dump().into_iter().filter(|r| r.1 == "0").collect();
    // the model is updated through a second handle on the same Db: keep it in a cell
    let cell = std::cell::RefCell::new(db);
    struct Shared<'c>(&'c std::cell::RefCell<Db>);
    impl<'c> Backend for Shared<'c> {
        fn mutate(&self, t: &str, p: &[(&str, P)]) -> Result<JOut, Fail> {
            Backend::mutate(&*self.0.borrow(), t, p)
        }
        fn query(&self, t: &str, p: &[(&str, P)]) -> Result<JOut, Fail> {
            Backend::query(&*self.0.borrow(), t, p)
        }
        fn diag_bool(&self, sql: &str, a: &str, b: f64) -> Option<bool> {
            self.0.borrow().diag_bool(sql, a, b)
        }
    }
    let shared = Shared(&cell);
    let mut w = World { be: &shared, case, plan, names: Names::new(case.avoid_known), rows: vec![], via: "", service: false, mutation_name: "m1" };
    let mut hook = |v2: &str| -> Result<(), Fail> { cell.borrow_mut().update_model(v2) };
    run_steps(&mut w, o, &mut hook, true);
    // the rest of the database
    check_canary(&shared, "end", "", o);
    let db = cell.borrow();
    let canary_raw_after: Vec<_> = db.dump().into_iter().filter(|r| r.1 == "0").collect();
    if canary_raw_before != canary_raw_after {
        o.violation("canary-changed:raw", format!("before {:?} after {:?}", canary_raw_before.len(), canary_raw_after.len()));
    }
    let t_rows = db.dump().into_iter().filter(|r| r.1 == "1").count();
    if t_rows != w.rows.len() {
        o.violation("row-count-changed", format!("model {} rows, table {}", w.rows.len(), t_rows));
    }
    if db.schema() != schema_before {
        o.violation("database-structure-changed", "sqlite_master differs after the case".to_string());
    }
}

// ------------------------------------------------------------------------------------------------
// the same steps through a full service instance (GraphDatabaseService: authorisation, signature,
// writer thread, reader threads)
// ------------------------------------------------------------------------------------------------

pub struct Svc {
    pub rt: tokio::runtime::Runtime,
    pub peer: dv::world::Peer,
}

impl Backend for Svc {
    fn mutate(&self, text: &str, params: &[(&str, P)]) -> Result<JOut, Fail> {
        let p = crate::db::params(params);
        let r = self.rt.block_on(self.peer.db.mutate(text, Some(p))).map_err(crate::db::classify)?;
        json::parse(&r).map_err(|e| Fail::Other(format!("mutation result unreadable: {}", e)))
    }
    fn query(&self, text: &str, params: &[(&str, P)]) -> Result<JOut, Fail> {
        let p = crate::db::params(params);
        let raw = self.rt.block_on(self.peer.db.query(text, Some(p))).map_err(crate::db::classify)?;
        json::parse(&raw).map_err(|e| Fail::Other(format!("query result is not JSON ({}): {}", e, clip(&raw, 200))))
    }
    fn diag_bool(&self, sql: &str, a: &str, b: f64) -> Option<bool> {
        let sql = sql.to_string();
        let a = a.to_string();
        self.rt.block_on(self.peer.sql(move |conn| {
            conn.query_row(&sql, (a.as_str(), b), |r| r.get::<_, Option<bool>>(0)).ok().flatten()
        }))
    }
}

pub fn run_service(case: &Case, dir: std::path::PathBuf, o: &mut Outcome) {
    dv::world::begin_case(1);
    o.label("pos:service-api");
    let plan = Plan::new(case, true);
    let rt = dv::world::runtime();
    let peer = match rt.block_on(dv::world::Peer::start("c04", &plan.model_v1, dir)) {
        Ok(p) => p,
        Err(e) => {
            // the model text is the same as in memory, where its rejection has already been judged
            o.count("service-start-rejected-model", 1);
            let _ = e;
            return;
        }
    };
    let svc = Svc { rt, peer };
    if !write_canary(&svc, o) {
        return;
    }
    {
        let mut w = World { be: &svc, case, plan, names: Names::new(case.avoid_known), rows: vec![], via: "", service: true, mutation_name: "m1" };
        let mut hook = |v2: &str| -> Result<(), Fail> {
            // update_data_model drops the error of the update and returns the current model: look at it
            let model = svc.rt.block_on(svc.peer.db.update_data_model(v2)).map_err(crate::db::classify)?;
            if model.contains("late") {
                Ok(())
            } else {
                Err(Fail::Parse("the model update was not applied (its error is not returned by update_data_model)".into()))
            }
        };
        run_steps(&mut w, o, &mut hook, true);
    }
    check_canary(&svc, "end-service", "", o);
    let Svc { rt, peer } = svc;
    drop(peer);
    rt.shutdown_timeout(std::time::Duration::from_millis(200));
}
