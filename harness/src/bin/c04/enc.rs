//! Encoders from a value to the literal syntax the three grammars accept (`string`, `float`,
//! `integer`, `boolean`, `null` rules of mutation.pest / query.pest / data_model.pest), and the
//! diagnostic model of the known decoding defect.

use crate::gen::Val;
use crate::json::float_text;

pub fn b64(bytes: &[u8]) -> String {
    discret::base64_encode(bytes)
}

/// inner text of a string literal.
/// style 0: only `"` and `\` are escaped (everything else, control characters included, is accepted raw by
///          `!("\"" | "\\") ~ ANY`);
/// style 1: JSON style short escapes and `\u00XX` for the other control characters;
/// style 2: additionally `\uXXXX` (surrogate pairs above the BMP) for every non ASCII character.
pub fn string_inner(s: &str, style: u8) -> String {
    let mut out = String::with_capacity(s.len() + 8);
    for c in s.chars() {
        match c {
            '"' => out.push_str("\\\""),
            '\\' => out.push_str("\\\\"),
            '\n' if style >= 1 => out.push_str("\\n"),
            '\r' if style >= 1 => out.push_str("\\r"),
            '\t' if style >= 1 => out.push_str("\\t"),
            '\u{8}' if style >= 1 => out.push_str("\\b"),
            '\u{c}' if style >= 1 => out.push_str("\\f"),
            '/' if style >= 2 => out.push_str("\\/"),
            c if style >= 1 && (c as u32) < 0x20 => out.push_str(&format!("\\u{:04x}", c as u32)),
            c if style >= 2 && !c.is_ascii() => {
                let mut buf = [0u16; 2];
                for u in c.encode_utf16(&mut buf) {
                    out.push_str(&format!("\\u{:04X}", u));
                }
            }
            c => out.push(c),
        }
    }
    out
}

pub fn string_literal(s: &str, style: u8) -> String {
    format!("\"{}\"", string_inner(s, style))
}

/// diagnostic model of the decoder found in the parsers: only `\"` is replaced
pub fn defect_decode(inner: &str) -> String {
    inner.replace("\\\"", "\"")
}

/// true when the literal of `s` in this style is decoded correctly even by a decoder that only knows `\"`
pub fn literal_is_plain(s: &str, style: u8) -> bool {
    defect_decode(&string_inner(s, style)) == s
}

/// float literal: the grammars require a '.' (`"-"? int "." digit* exp?`)
pub fn float_literal(f: f64, style: u8) -> String {
    if style == 0 {
        // exponent form of the shortest representation
        let t = float_text(f); // e.g. 1e300, 1.5, 5e-324, -0.0, 1.2345e-7
        match t.find(|c| c == 'e' || c == 'E') {
            Some(p) => {
                let (m, e) = t.split_at(p);
                if m.contains('.') {
                    t
                } else {
                    format!("{}.0{}", m, e)
                }
            }
            None => {
                if t.contains('.') {
                    t
                } else {
                    format!("{}.0", t)
                }
            }
        }
    } else {
        // positional form (Display never uses an exponent)
        let t = format!("{}", f);
        if t.contains('.') {
            t
        } else {
            format!("{}.0", t)
        }
    }
}

/// literal of a value in a mutation, a filter, a paging clause or (without null) a default
pub fn literal(v: &Val, lit_style: u8, flt_style: u8) -> String {
    match v {
        Val::Null => "null".to_string(),
        Val::S(s) => string_literal(s, lit_style),
        Val::I(i) => i.to_string(),
        Val::F(b) => float_literal(f64::from_bits(*b), flt_style),
        Val::FI(i) => i.to_string(),
        Val::B(b) => b.to_string(),
        Val::X(bytes) => string_literal(&b64(bytes), 0),
        Val::J(j) => string_literal(&j.text(), lit_style),
    }
}

/// the string a literal of this value carries between its quotes after correct decoding (None for
/// values whose literal is not a string)
pub fn literal_string(v: &Val) -> Option<String> {
    match v {
        Val::S(s) => Some(s.clone()),
        Val::X(b) => Some(b64(b)),
        Val::J(j) => Some(j.text()),
        _ => None,
    }
}
