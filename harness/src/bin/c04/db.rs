//! Thin driver of the real parsers and executors on an in-memory connection.
//!
//! Nothing here decides anything: it only calls the code under test the way
//! `GraphDatabaseService` does (parse -> execute -> write / parse -> build -> read) and
//! classifies the way a call ended.

use discret::verif::database::mutation_query::MutationQuery;
use discret::verif::database::query::{PreparedQueries, Query};
use discret::verif::database::query_language::data_model_parser::DataModel;
use discret::verif::database::query_language::mutation_parser::MutationParser;
use discret::verif::database::query_language::parameter::Parameters;
use discret::verif::database::query_language::query_parser::QueryParser;
use discret::verif::database::query_language::ParamValue;
use discret::verif::database::sqlite_database::{prepare_connection, Writeable};
use discret::verif::database::Error as DbError;
use rusqlite::Connection;
use serde_json::Value;
use std::panic::{catch_unwind, AssertUnwindSafe};
use std::sync::Arc;

/// how a call into the code under test ended when it did not return a value
#[derive(Debug, Clone, PartialEq)]
pub enum Fail {
    /// the language parser rejected the text (pest error or semantic error of the parser)
    Parse(String),
    /// the parameters were rejected by `validate_params`
    Param(String),
    /// an error coming from SQLite (prepare, step, ...): never acceptable for C04
    Sqlite(String),
    /// any other error of the database layer
    Other(String),
    /// the code under test panicked
    Panic(String),
}
impl Fail {
    pub fn kind(&self) -> &'static str {
        match self {
            Fail::Parse(_) => "parse",
            Fail::Param(_) => "param",
            Fail::Sqlite(_) => "sqlite",
            Fail::Other(_) => "other",
            Fail::Panic(_) => "panic",
        }
    }
    pub fn msg(&self) -> &str {
        match self {
            Fail::Parse(s) | Fail::Param(s) | Fail::Sqlite(s) | Fail::Other(s) | Fail::Panic(s) => s,
        }
    }
}

pub fn classify(e: DbError) -> Fail {
    match e {
        DbError::Database(e) => Fail::Sqlite(e.to_string()),
        DbError::Parsing(e) => {
            use discret::verif::database::query_language::Error as P;
            match e {
                P::MissingParameter(_)
                | P::ConflictingParameterType(..)
                | P::InvalidBase64(_)
                | P::InvalidJson(_)
                | P::NotNullable(_) => Fail::Param(e.to_string()),
                other => Fail::Parse(other.to_string()),
            }
        }
        other => Fail::Other(other.to_string()),
    }
}

static LAST_PANIC: std::sync::Mutex<String> = std::sync::Mutex::new(String::new());

/// silent panic hook that remembers "file:line message" of the last panic
pub fn install_panic_hook() {
    std::panic::set_hook(Box::new(|info| {
        let loc = info.location().map(|l| format!("{}:{}", l.file(), l.line())).unwrap_or_else(|| "?".to_string());
        let msg = if let Some(s) = info.payload().downcast_ref::<String>() {
            s.clone()
        } else if let Some(s) = info.payload().downcast_ref::<&str>() {
            s.to_string()
        } else {
            "panic".to_string()
        };
        if let Ok(mut g) = LAST_PANIC.lock() {
            *g = format!("{} {}", loc, msg);
        }
        if std::env::var("C04_SHOW_PANICS").is_ok() {
            eprintln!("panic at {}: {}", loc, msg);
        }
    }));
}

fn panic_msg(e: Box<dyn std::any::Any + Send>) -> String {
    if let Ok(g) = LAST_PANIC.lock() {
        if !g.is_empty() {
            return g.clone();
        }
    }
    if let Some(s) = e.downcast_ref::<String>() {
        s.clone()
    } else if let Some(s) = e.downcast_ref::<&str>() {
        s.to_string()
    } else {
        "panic".to_string()
    }
}

/// parameter value of the harness, converted to the real `Parameters` at the call
#[derive(Debug, Clone)]
pub enum P {
    S(String),
    I(i64),
    F(f64),
    B(bool),
    Null,
}

pub fn params(list: &[(&str, P)]) -> Parameters {
    let mut p = Parameters::new();
    for (k, v) in list {
        let pv = match v {
            P::S(s) => ParamValue::String(s.clone()),
            P::I(i) => ParamValue::Integer(*i),
            P::F(f) => ParamValue::Float(*f),
            P::B(b) => ParamValue::Boolean(*b),
            P::Null => ParamValue::Null,
        };
        p.params.insert(k.to_string(), pv);
    }
    p
}

pub struct Db {
    pub conn: Connection,
    pub model: DataModel,
}

impl Db {
    pub fn open() -> Db {
        let conn = Connection::open_in_memory().expect("open_in_memory");
        prepare_connection(&conn).expect("prepare_connection");
        Db { conn, model: DataModel::new() }
    }

    pub fn update_model(&mut self, text: &str) -> Result<(), Fail> {
        let r = catch_unwind(AssertUnwindSafe(|| self.model.update(text)));
        match r {
            Ok(Ok(())) => Ok(()),
            Ok(Err(e)) => Err(Fail::Parse(e.to_string())),
            Err(p) => Err(Fail::Panic(panic_msg(p))),
        }
    }

    /// parse, execute and write a mutation; returns the JSON the API would return
    pub fn mutate(&self, text: &str, list: &[(&str, P)]) -> Result<Value, Fail> {
        let r = catch_unwind(AssertUnwindSafe(|| -> Result<Value, Fail> {
            let parser = MutationParser::parse(text, &self.model).map_err(|e| classify(DbError::Parsing(e)))?;
            let mut p = params(list);
            let mut mq = MutationQuery::execute(&mut p, Arc::new(parser), &self.conn).map_err(classify)?;
            mq.write(&self.conn).map_err(|e| Fail::Sqlite(e.to_string()))?;
            mq.to_json().map_err(classify)
        }));
        match r {
            Ok(v) => v,
            Err(p) => Err(Fail::Panic(panic_msg(p))),
        }
    }

    /// parse, build and read a query; returns the raw text of the result
    pub fn query(&self, text: &str, list: &[(&str, P)]) -> Result<String, Fail> {
        let r = catch_unwind(AssertUnwindSafe(|| -> Result<String, Fail> {
            let parser = QueryParser::parse(text, &self.model).map_err(|e| classify(DbError::Parsing(e)))?;
            let prepared = PreparedQueries::build(&parser).map_err(classify)?;
            let mut q = Query {
                parameters: params(list),
                parser: Arc::new(parser),
                sql_queries: Arc::new(prepared),
            };
            q.read(&self.conn).map_err(classify)
        }));
        match r {
            Ok(v) => v,
            Err(p) => Err(Fail::Panic(panic_msg(p))),
        }
    }

    /// SQL text a query compiles to (diagnostics only)
    pub fn sql_of(&self, text: &str) -> Option<String> {
        let parser = QueryParser::parse(text, &self.model).ok()?;
        let prepared = PreparedQueries::build(&parser).ok()?;
        Some(prepared.sql_queries.iter().map(|q| q.sql_query.clone()).collect::<Vec<_>>().join("\n;\n"))
    }

    /// raw dump of the node table, independent of the query language: (entity, json text) sorted
    pub fn dump(&self) -> Vec<(String, String, String)> {
        let mut st = self
            .conn
            .prepare("SELECT hex(id), _entity, ifnull(_json,'') FROM _node ORDER BY 1,2")
            .expect("dump prepare");
        let rows = st
            .query_map([], |r| Ok((r.get::<_, String>(0)?, r.get::<_, String>(1)?, r.get::<_, String>(2)?)))
            .expect("dump query");
        rows.map(|r| r.expect("dump row")).collect()
    }

    /// names of the objects in sqlite_master (structure of the database)
    pub fn schema(&self) -> Vec<String> {
        let mut st = self
            .conn
            .prepare("SELECT type||':'||name||':'||ifnull(sql,'') FROM sqlite_master ORDER BY 1")
            .expect("schema prepare");
        let rows = st.query_map([], |r| r.get::<_, String>(0)).expect("schema query");
        rows.map(|r| r.expect("schema row")).collect()
    }
}

pub fn clip(s: &str, n: usize) -> String {
    let mut out: String = s.chars().take(n).collect();
    if s.chars().count() > n {
        out.push_str("...");
    }
    out
}
