//! Case type and proptest strategies of C04.

use crate::json::JVal;
use proptest::prelude::*;
use proptest::strategy::BoxedStrategy;
use serde::{Deserialize, Serialize};

#[derive(Debug, Clone, Copy, PartialEq, Eq, Serialize, Deserialize)]
pub enum Ty {
    Str,
    Int,
    Flt,
    Bool,
    B64,
    Json,
}
impl Ty {
    pub fn name(&self) -> &'static str {
        match self {
            Ty::Str => "String",
            Ty::Int => "Integer",
            Ty::Flt => "Float",
            Ty::Bool => "Boolean",
            Ty::B64 => "Base64",
            Ty::Json => "Json",
        }
    }
    /// prefix of the field names of this type in the model
    pub fn prefix(&self) -> &'static str {
        match self {
            Ty::Str => "s",
            Ty::Int => "i",
            Ty::Flt => "f",
            Ty::Bool => "b",
            Ty::B64 => "x",
            Ty::Json => "j",
        }
    }
    pub const ALL: [Ty; 6] = [Ty::Str, Ty::Int, Ty::Flt, Ty::Bool, Ty::B64, Ty::Json];
}

/// which field of the type carries the value
#[derive(Debug, Clone, Copy, PartialEq, Eq, Serialize, Deserialize)]
pub enum Variant {
    /// `t_r : T` (required, no default)
    Req,
    /// `t_n : T nullable`
    Nul,
    /// `t_d : T default <v>` present from the start
    Def,
    /// `late : T default <v>` added by a model update after some rows exist
    Late,
}

/// a value of the target type (floats as bits: a case must survive its own JSON serialisation)
#[derive(Debug, Clone, PartialEq, Serialize, Deserialize)]
pub enum Val {
    Null,
    S(String),
    I(i64),
    F(u64),
    /// an integer handed to a Float field (|i| <= 2^53)
    FI(i64),
    B(bool),
    /// bytes, written as URL-safe unpadded base64
    X(Vec<u8>),
    J(JVal),
}

#[derive(Debug, Clone, Copy, PartialEq, Eq, Serialize, Deserialize)]
pub enum How {
    Param,
    Literal,
    /// the field is not mentioned: the default (Def/Late) or null (Nul) applies
    Omit,
}

#[derive(Debug, Clone, PartialEq, Serialize, Deserialize)]
pub struct RowSpec {
    pub val: Val,
    pub how: How,
}

#[derive(Debug, Clone, PartialEq, Serialize, Deserialize)]
pub enum ProbeSrc {
    /// the value of row `pick(i, rows)`
    Row(u16),
    /// the default value of the field
    Default,
    Fresh(Val),
}

#[derive(Debug, Clone, PartialEq, Serialize, Deserialize)]
pub struct UpdateSpec {
    pub row: u16,
    /// new value of the target field (None: only another field of the row is updated)
    pub new_val: Option<RowSpec>,
}

#[derive(Debug, Clone, PartialEq, Serialize, Deserialize)]
pub struct SearchSpec {
    /// Some(i): a slice of the string of row i is searched; None: `term` is searched as it is
    pub from_row: Option<u16>,
    pub start: u16,
    pub len: u8,
    pub term: String,
    pub literal: bool,
}

#[derive(Debug, Clone, PartialEq, Serialize, Deserialize)]
pub struct Case {
    /// generator switch: shapes that hit known deviations are avoided (see `rule()`)
    pub avoid_known: bool,
    /// rotation of the field groups inside the entity (changes the short ids of the fields)
    pub layout: u8,
    pub ty: Ty,
    pub variant: Variant,
    pub default: Val,
    pub rows: Vec<RowSpec>,
    pub probes: Vec<ProbeSrc>,
    /// 0 minimal escapes (`\"` `\\`), 1 JSON style escapes, 2 `\uXXXX` for everything non ASCII
    pub lit_style: u8,
    /// 0 exponent form, 1 positional form
    pub flt_style: u8,
    /// a second, unrelated string literal placed in front of the probe in the filter list
    pub second_literal: Option<String>,
    /// field alias used by the "selected alias" filter form and entity alias of that query
    pub alias: u8,
    pub update: Option<UpdateSpec>,
    pub paging: bool,
    pub search: Option<SearchSpec>,
    /// additionally run the write/read/filter steps through a full service instance
    pub service: bool,
}

// ------------------------------------------------------------------------------------------------
// strings
// ------------------------------------------------------------------------------------------------

/// fragments with a meaning for SQL, JSON, the query languages, FTS5 or the harness' own variable names
pub const EVIL: &[&str] = &[
    "'", "\"", "\\", "\0", "\n", "\r", "\t", "$", "?", "%", "_", "--", ";", ")", "(", "[", "]", "{", "}", ",", ":",
    "*", "/*", "*/", "''", "\\\"", "\\\\", "\\u0041", "\\n", "$v", "$name", "$w", "?1", "?2", ":v", "@v", "v", "w", "p0",
    "r0", "r1", "null", "NULL", "true", "' OR '1'='1", "'; DROP TABLE _node; --", "\") }", "\"}]", "' --", "')", "\" OR \"",
    " OR ", " AND ", " NOT ", "NEAR(", "^", "+", "-", "text:", "\u{1}", "\u{7f}", "\u{80}", "\u{ff}", "\u{feff}", "\u{2028}",
    "\u{d7ff}", "\u{e000}", "\u{fffd}", "\u{ffff}", "\u{10000}", "\u{10ffff}", "é", "ß", "İ", "ı", "K", "😀", " ", "  ",
    "abc", "Abc", "xyz", "lorem", "ipsum", "0", "1e5", "0x10", "//", "//x\n", "#", "`", "\\'", "%s", "{}", "${v}",
];

/// which characters a generated string may contain
#[derive(Debug, Clone, Copy, PartialEq, Eq)]
pub enum StrMode {
    Any,
    /// no backslash (the literal decoder of the parsers does not decode `\\`): strings that are only
    /// ever written as literals in avoid mode
    NoBackslash,
    /// additionally no `'` and no NUL: string defaults in avoid mode (the default is spliced into SQL)
    DefaultSafe,
    /// additionally nothing that JSON escapes (`"`, control characters): strings inside a Json default
    /// in avoid mode (the JSON text of the default is a literal of the model)
    JsonDefaultSafe,
}
impl StrMode {
    pub fn allows(&self, c: char) -> bool {
        match self {
            StrMode::Any => true,
            StrMode::NoBackslash => c != '\\',
            StrMode::DefaultSafe => c != '\\' && c != '\'' && c != '\0',
            StrMode::JsonDefaultSafe => c != '\\' && c != '\'' && c != '"' && (c as u32) >= 0x20,
        }
    }
    pub fn allows_str(&self, s: &str) -> bool {
        s.chars().all(|c| self.allows(c))
    }
}

pub fn string_strategy(mode: StrMode, max_long: usize) -> BoxedStrategy<String> {
    let evil: Vec<&'static str> = EVIL.iter().copied().filter(|s| mode.allows_str(s)).collect();
    let n = evil.len();
    let frag = prop_oneof![
        5 => (0..n).prop_map(move |i| evil[i].to_string()),
        2 => any::<char>().prop_map(move |c| if mode.allows(c) { c.to_string() } else { "x".to_string() }),
        2 => "[a-zA-Z0-9 ]{1,6}",
    ];
    let short = proptest::collection::vec(frag.clone(), 0..8).prop_map(|v| v.concat());
    let long = (frag, 1usize..=max_long.max(1)).prop_map(|(f, n)| {
        let f = if f.is_empty() { "x".to_string() } else { f };
        let mut s = String::new();
        while s.len() < n {
            s.push_str(&f);
            s.push('a');
        }
        s
    });
    prop_oneof![
        40 => short,
        1 => long,
        2 => Just(String::new()),
    ]
    .boxed()
}

// ------------------------------------------------------------------------------------------------
// numbers
// ------------------------------------------------------------------------------------------------

pub fn int_strategy() -> BoxedStrategy<i64> {
    const B: &[i64] = &[
        i64::MIN,
        i64::MIN + 1,
        -9007199254740993,
        -9007199254740992,
        -4294967296,
        -2147483649,
        -2147483648,
        -1,
        0,
        1,
        2147483647,
        2147483648,
        4294967295,
        9007199254740991,
        9007199254740992,
        9007199254740993,
        999999999999999999,
        1000000000000000000,
        i64::MAX - 1,
        i64::MAX,
    ];
    prop_oneof![
        3 => any::<i64>(),
        2 => (0..B.len()).prop_map(|i| B[i]),
        2 => -1000i64..1000,
    ]
    .boxed()
}

/// floats on which decimal <-> binary conversion is exact in every implementation: at most 15
/// significant digits and a small power of ten
pub fn safe_float_strategy() -> BoxedStrategy<u64> {
    (-999_999_999_999_999i64..=999_999_999_999_999i64, 0u32..=15)
        .prop_map(|(m, d)| {
            let f = (m as f64) / 10f64.powi(d as i32);
            f.to_bits()
        })
        .boxed()
}

pub fn hard_float_strategy() -> BoxedStrategy<u64> {
    const B: &[f64] = &[
        0.0,
        -0.0,
        f64::MIN_POSITIVE,
        f64::MAX,
        f64::MIN,
        f64::EPSILON,
        5e-324,
        -5e-324,
        2.2250738585072009e-308,
        2.2250738585072014e-308,
        0.1,
        0.30000000000000004,
        1.7976931348623157e308,
        9007199254740993.0,
        1e22,
        1e23,
        9.5367431640625e-7,
        123456789012345680.0,
        4.35,
        0.000001,
        1e-7,
        1e21,
        1e16,
        0.1234567890123456,
        1.2345678901234567,
        // SQLite 3.45 reads these shortest texts one ULP away (json ->> and SQL literal respectively)
        4.400106192463663e129,
        -1.6402636326203597e18,
        // serde_json without float_roundtrip reads this one ULP away
        1.0715660391465826e-75,
    ];
    prop_oneof![
        4 => any::<u64>().prop_map(|b| {
            let f = f64::from_bits(b);
            if f.is_finite() { b } else { (b & !(0x7ffu64 << 52)) | (0x3ffu64 << 52) }
        }),
        2 => (0..B.len()).prop_map(|i| B[i].to_bits()),
        // subnormals
        1 => (1u64..(1u64 << 52), any::<bool>()).prop_map(|(m, neg)| m | if neg { 1u64 << 63 } else { 0 }),
        // 17 significant digits around 1
        1 => (1_000_000_000_000_000u64..9_999_999_999_999_999u64).prop_map(|m| ((m as f64) / 1e15 + 1e-16).to_bits()),
    ]
    .boxed()
}

pub fn float_strategy(avoid_known: bool) -> BoxedStrategy<u64> {
    if avoid_known {
        safe_float_strategy()
    } else {
        prop_oneof![1 => safe_float_strategy(), 3 => hard_float_strategy()].boxed()
    }
}

// ------------------------------------------------------------------------------------------------
// json
// ------------------------------------------------------------------------------------------------

pub fn json_strategy(avoid_known: bool, mode: StrMode) -> BoxedStrategy<JVal> {
    let s = string_strategy(mode, 64);
    let leaf = prop_oneof![
        1 => Just(JVal::Null),
        1 => any::<bool>().prop_map(JVal::Bool),
        2 => int_strategy().prop_map(JVal::Int),
        2 => float_strategy(avoid_known).prop_map(JVal::Flt),
        4 => s.clone().prop_map(JVal::Str),
    ];
    let tree = leaf.prop_recursive(3, 16, 4, move |inner| {
        prop_oneof![
            proptest::collection::vec(inner.clone(), 0..4).prop_map(JVal::Arr),
            proptest::collection::vec((s.clone(), inner), 0..4).prop_map(JVal::Obj),
        ]
    });
    // the top level is a container most of the time; top level null is excluded (it is SQL NULL)
    tree.prop_map(|v| match v {
        JVal::Null => JVal::Arr(vec![JVal::Null]),
        other => other.normalise(),
    })
    .boxed()
}

// ------------------------------------------------------------------------------------------------
// values per type
// ------------------------------------------------------------------------------------------------

pub fn val_strategy(ty: Ty, avoid_known: bool, for_default: bool) -> BoxedStrategy<Val> {
    // a default is always written as a literal in the model text and spliced into filter SQL
    let safe_default = avoid_known && for_default;
    match ty {
        Ty::Str => {
            let any = string_strategy(
                if safe_default { StrMode::DefaultSafe } else { StrMode::Any },
                if for_default { 2048 } else { 40_000 },
            );
            if for_default && !avoid_known {
                // sometimes exactly the name of a variable used by a later filter
                prop_oneof![12 => any, 1 => Just("v".to_string())].prop_map(Val::S).boxed()
            } else {
                any.prop_map(Val::S).boxed()
            }
        }
        Ty::Int => int_strategy().prop_map(Val::I).boxed(),
        Ty::Flt => {
            if for_default {
                float_strategy(avoid_known).prop_map(Val::F).boxed()
            } else {
                prop_oneof![
                    9 => float_strategy(avoid_known).prop_map(Val::F),
                    1 => if avoid_known {
                        (-999_999_999_999_999i64..=999_999_999_999_999i64).prop_map(Val::FI).boxed()
                    } else {
                        (-9007199254740992i64..=9007199254740992i64).prop_map(Val::FI).boxed()
                    },
                ]
                .boxed()
            }
        }
        Ty::Bool => any::<bool>().prop_map(Val::B).boxed(),
        Ty::B64 => prop_oneof![
            20 => proptest::collection::vec(any::<u8>(), 0..40).prop_map(Val::X),
            1 => proptest::collection::vec(any::<u8>(), 1000..20_000).prop_map(Val::X),
        ]
        .boxed(),
        Ty::Json => {
            if safe_default {
                json_strategy(true, StrMode::JsonDefaultSafe).prop_map(Val::J).boxed()
            } else if avoid_known {
                // half of the values can be written as a literal by a decoder that only knows \"
                prop_oneof![
                    json_strategy(true, StrMode::JsonDefaultSafe),
                    json_strategy(true, StrMode::Any),
                ]
                .prop_map(Val::J)
                .boxed()
            } else {
                json_strategy(false, StrMode::Any).prop_map(Val::J).boxed()
            }
        }
    }
}

fn how_strategy(variant: Variant) -> BoxedStrategy<How> {
    match variant {
        Variant::Req => prop_oneof![Just(How::Param), Just(How::Literal)].boxed(),
        _ => prop_oneof![4 => Just(How::Param), 4 => Just(How::Literal), 1 => Just(How::Omit)].boxed(),
    }
}

fn row_strategy(ty: Ty, variant: Variant, avoid_known: bool) -> BoxedStrategy<RowSpec> {
    let v = val_strategy(ty, avoid_known, false);
    let v: BoxedStrategy<Val> = if variant == Variant::Nul {
        prop_oneof![6 => v, 1 => Just(Val::Null)].boxed()
    } else {
        v
    };
    (v, how_strategy(variant)).prop_map(|(val, how)| RowSpec { val, how }).boxed()
}

pub fn case_strategy(thorough: bool) -> BoxedStrategy<Case> {
    let max_rows = if thorough { 5 } else { 4 };
    // development aid (never set by the registered commands): C04_MODE=avoid|full forces the switch
    let mode: BoxedStrategy<bool> = match std::env::var("C04_MODE").ok().as_deref() {
        Some("avoid") => Just(true).boxed(),
        Some("full") => Just(false).boxed(),
        _ => prop_oneof![7 => Just(true), 3 => Just(false)].boxed(),
    };
    let head = (
        mode,
        (0..Ty::ALL.len()).prop_map(|i| Ty::ALL[i]),
        prop_oneof![
            3 => Just(Variant::Req),
            3 => Just(Variant::Nul),
            3 => Just(Variant::Def),
            2 => Just(Variant::Late)
        ],
    );
    head.prop_flat_map(move |(avoid_known, ty, variant)| {
        let rows = proptest::collection::vec(row_strategy(ty, variant, avoid_known), 1..=max_rows);
        let fresh = val_strategy(ty, avoid_known, false);
        let probe = prop_oneof![
            5 => any::<u16>().prop_map(ProbeSrc::Row),
            1 => Just(ProbeSrc::Default),
            2 => fresh.prop_map(ProbeSrc::Fresh),
        ];
        let probes = proptest::collection::vec(probe, 1..=3);
        let default = val_strategy(ty, avoid_known, true);
        let update = proptest::option::weighted(
            0.5,
            (any::<u16>(), proptest::option::weighted(0.6, row_strategy(ty, variant, avoid_known)))
                .prop_map(|(row, new_val)| UpdateSpec { row, new_val }),
        );
        // search terms: in avoid mode only letters and digits (anything else is FTS5 syntax)
        let term: BoxedStrategy<String> = if avoid_known {
            "[a-zA-Z0-9]{3,8}".boxed()
        } else {
            string_strategy(StrMode::Any, 64)
        };
        let search = proptest::option::weighted(
            if ty == Ty::Str { 0.35 } else { 0.05 },
            (proptest::option::weighted(0.7, any::<u16>()), any::<u16>(), 3u8..12, term, any::<bool>()).prop_map(
                |(from_row, start, len, term, literal)| SearchSpec { from_row, start, len, term, literal },
            ),
        );
        // in the full domain the literal is sometimes exactly the name of the variable that follows it
        let second: BoxedStrategy<Option<String>> = if avoid_known {
            proptest::option::weighted(0.3, string_strategy(StrMode::NoBackslash, 64)).boxed()
        } else {
            prop_oneof![
                6 => Just(None),
                3 => string_strategy(StrMode::Any, 64).prop_map(Some),
                1 => Just(Some("v".to_string())),
            ]
            .boxed()
        };
        (
            (Just(avoid_known), 0u8..7, Just(ty), Just(variant), default, rows, probes),
            (
                prop_oneof![6 => Just(0u8), 2 => Just(1u8), 1 => Just(2u8)],
                0u8..2,
                second,
                any::<u8>(),
                update,
                proptest::bool::weighted(0.4),
                search,
                proptest::bool::weighted(0.012),
            ),
        )
            .prop_map(
                |(
                    (avoid_known, layout, ty, variant, default, rows, probes),
                    (lit_style, flt_style, second_literal, alias, update, paging, search, service),
                )| Case {
                    avoid_known,
                    layout,
                    ty,
                    variant,
                    default,
                    rows,
                    probes,
                    lit_style: if avoid_known { 0 } else { lit_style },
                    flt_style,
                    second_literal,
                    alias,
                    update,
                    paging,
                    search,
                    service,
                },
            )
    })
    .boxed()
}
