//! Service path: a real instance holding rows; versions applied through `update_data_model` or
//! at start-up; restarts; a second instance applying the same accepted versions.

use crate::ast::*;
use crate::check::*;
use crate::gen::*;
use discret::verif::database::query_language::data_model_parser::DataModel;
use discret::verif::database::system_entities::SYSTEM_DATA_MODEL;
use dv::engine::{pick, Outcome, RunCtx};
use dv::world::*;
use serde_json::Value;
use std::collections::{BTreeMap, BTreeSet};
use std::path::PathBuf;

pub const SIG_SWALLOW: &str = "update_data_model-swallows-error";
pub const SIG_STALE_CACHE: &str = "query-cache-stale-after-model-update";

struct RefRow {
    entity: String,
    id: String,
    /// values written, by field name (Null = null written explicitly)
    values: BTreeMap<String, Value>,
}

struct Svc {
    name: &'static str,
    dir: PathBuf,
    rt: Option<tokio::runtime::Runtime>,
    peer: Option<Peer>,
    qcount: usize,
}

#[derive(Clone, PartialEq, Debug)]
struct Observation {
    /// in-memory model without its `model` text
    memory: Value,
    memory_text: String,
    persisted: Value,
    persisted_raw: String,
    queries: BTreeMap<String, Result<Value, String>>,
}

fn split_model(mut v: Value) -> (Value, String) {
    let text = v
        .as_object_mut()
        .and_then(|m| m.remove("model"))
        .and_then(|t| t.as_str().map(|s| s.to_string()))
        .unwrap_or_default();
    (v, text)
}

impl Svc {
    fn new(name: &'static str, dir: PathBuf) -> Svc {
        Svc { name, dir, rt: None, peer: None, qcount: 0 }
    }
    fn start(&mut self, model: &str) -> Result<(), String> {
        self.stop();
        let rt = runtime();
        let r = rt.block_on(Peer::start(self.name, model, self.dir.clone()));
        match r {
            Ok(p) => {
                self.peer = Some(p);
                self.rt = Some(rt);
                Ok(())
            }
            Err(e) => {
                drop(rt);
                Err(e)
            }
        }
    }
    fn stop(&mut self) {
        self.peer = None;
        self.rt = None;
    }
    fn peer(&self) -> &Peer {
        self.peer.as_ref().expect("instance running")
    }
    fn block<T>(&self, f: impl std::future::Future<Output = T>) -> T {
        self.rt.as_ref().expect("runtime").block_on(f)
    }
    fn update(&self, text: &str) -> Result<String, String> {
        self.block(self.peer().db.update_data_model(text)).map_err(|e| e.to_string())
    }
    fn memory(&self) -> Value {
        let s = self.block(self.peer().db.datamodel()).expect("datamodel()");
        serde_json::from_str(&s).expect("datamodel() is JSON")
    }
    fn persisted_raw(&self) -> String {
        self.block(self.peer().sql(|c| {
            c.query_row("SELECT value FROM _configuration WHERE key='Data Model'", [], |r| r.get::<_, String>(0))
                .unwrap_or_default()
        }))
    }
    fn persisted_model(&self) -> Option<DataModel> {
        serde_json::from_str(&self.persisted_raw()).ok()
    }
    fn index_names(&self) -> Vec<String> {
        self.block(self.peer().sql(|c| {
            let mut v = vec![];
            if let Ok(mut st) = c.prepare("SELECT name FROM sqlite_master WHERE type='index' AND name LIKE 'idx$%' ORDER BY name") {
                if let Ok(mut rows) = st.query([]) {
                    while let Ok(Some(r)) = rows.next() {
                        if let Ok(n) = r.get::<_, String>(0) {
                            v.push(n);
                        }
                    }
                }
            }
            v
        }))
    }
    /// `bust`: make the text unique so that the instance parses it against its current model
    /// reads the rows of an entity. One statement can select about 60 fields (each selection is a pair of
    /// arguments of SQLite's json_object, limited to 127 arguments): wider entities are read in several
    /// statements whose rows are merged by id
    fn query(&mut self, entity: &str, fields: &[String], bust: bool) -> Result<Value, String> {
        if fields.len() <= 40 {
            return self.query_part(entity, fields, bust);
        }
        let mut merged: Vec<Value> = vec![];
        for (i, chunk) in fields.chunks(40).enumerate() {
            let part = self.query_part(entity, chunk, bust)?;
            let list = match part {
                Value::Array(l) => l,
                other => return Ok(other),
            };
            if i == 0 {
                merged = list;
            } else {
                if list.len() != merged.len() {
                    return Err(format!("{} rows, then {} rows for the same entity", merged.len(), list.len()));
                }
                for (m, row) in merged.iter_mut().zip(list) {
                    if m.get("id") != row.get("id") {
                        return Err("rows returned in another order".to_string());
                    }
                    if let (Some(mo), Value::Object(ro)) = (m.as_object_mut(), row) {
                        for (k, v) in ro {
                            mo.insert(k, v);
                        }
                    }
                }
            }
        }
        Ok(Value::Array(merged))
    }
    fn query_part(&mut self, entity: &str, fields: &[String], bust: bool) -> Result<Value, String> {
        let mut q = format!("query {{ {}(order_by(id asc)) {{ id {} }} }}", entity, fields.join(" "));
        if bust {
            self.qcount += 1;
            q.push_str(&" ".repeat(self.qcount));
        }
        let s = self.block(self.peer().query(&q, None))?;
        let v: Value = serde_json::from_str(&s).map_err(|e| format!("result is not JSON: {} in {}", e, s))?;
        Ok(v.get(entity).cloned().unwrap_or(Value::Null))
    }
    fn mutate(&self, q: &str) -> Result<Value, String> {
        let s = self.block(self.peer().mutate(q, None))?;
        serde_json::from_str(&s).map_err(|e| e.to_string())
    }
}

fn scalar_fields(m: &Model, entity: &str) -> Vec<Fld> {
    m.find(entity).map(|e| e.fields.iter().filter(|f| !f.ty.is_ref() && f.ty != Ty::Json).cloned().collect()).unwrap_or_default()
}

/// names to read for an entity: scalar fields of the current version plus every name ever written
fn read_names(m: &Model, rows: &[RefRow], entity: &str) -> Vec<String> {
    let mut names: Vec<String> = scalar_fields(m, entity).into_iter().map(|f| f.name).collect();
    let mut extra = BTreeSet::new();
    for r in rows.iter().filter(|r| r.entity == entity) {
        for k in r.values.keys() {
            if !names.contains(k) {
                extra.insert(k.clone());
            }
        }
    }
    names.extend(extra);
    names
}

fn entities_with_rows(rows: &[RefRow]) -> Vec<String> {
    let s: BTreeSet<String> = rows.iter().map(|r| r.entity.clone()).collect();
    s.into_iter().collect()
}

fn observe(svc: &mut Svc, m: &Model, rows: &[RefRow]) -> Observation {
    let (memory, memory_text) = split_model(svc.memory());
    let persisted_raw = svc.persisted_raw();
    let persisted: Value = serde_json::from_str(&persisted_raw).unwrap_or(Value::Null);
    let mut queries = BTreeMap::new();
    for e in entities_with_rows(rows) {
        let names = read_names(m, rows, &e);
        queries.insert(e.clone(), svc.query(&e, &names, true));
    }
    Observation { memory, memory_text, persisted, persisted_raw, queries }
}

fn value_for(f: &Fld, seed: u8, i: usize) -> (String, Value) {
    let s = seed as i64 + (i as i64) * 7;
    if f.kind == Kind::Nullable && s % 4 == 0 {
        return ("null".to_string(), Value::Null);
    }
    match f.ty {
        Ty::Integer => {
            let v = s * 3 - 100;
            (v.to_string(), Value::from(v))
        }
        Ty::Float => {
            let v = s as f64 + 0.5;
            (format!("{:?}", v), Value::from(v))
        }
        Ty::Boolean => {
            let v = s % 2 == 0;
            (v.to_string(), Value::from(v))
        }
        Ty::Str => {
            let v = format!("v{}", s);
            (format!("\"{}\"", v), Value::from(v))
        }
        Ty::Base64 => {
            let v = b64(&[s as u8, 1, 2]);
            (format!("\"{}\"", v), Value::from(v))
        }
        _ => ("null".to_string(), Value::Null),
    }
}

fn same_scalar(f: Option<&Fld>, expected: &Value, got: &Value, o: &mut Outcome, from_default: bool) -> bool {
    if expected == got {
        return true;
    }
    match (expected, got) {
        (Value::Number(a), Value::Number(b)) => a.as_f64() == b.as_f64(),
        (Value::Bool(a), Value::Number(b)) if from_default && f.map(|f| f.ty == Ty::Boolean).unwrap_or(false) => {
            // a Boolean default is rendered by queries as 1/0: not this property's business
            o.count("boolean_default_read_as_integer", 1);
            b.as_i64() == Some(*a as i64)
        }
        _ => false,
    }
}

/// oracle (a): every row written earlier reads the same values under the same names; names never
/// written read the current default or null
fn check_rows(svc: &mut Svc, m: &Model, rows: &[RefRow], at: &str, o: &mut Outcome) -> bool {
    let mut ok = true;
    for e in entities_with_rows(rows) {
        let names = read_names(m, rows, &e);
        let fields = scalar_fields(m, &e);
        let res = svc.query(&e, &names, true);
        let list = match res {
            Ok(Value::Array(l)) => l,
            Ok(other) => {
                o.violation("rows-unreadable-after-accepted-version", format!("{}: query on {} returned {}", at, e, other));
                ok = false;
                continue;
            }
            Err(err) => {
                o.violation(
                    "rows-unreadable-after-accepted-version",
                    format!("{}: rows of {} cannot be read under the names {:?}: {}", at, e, names, err),
                );
                ok = false;
                continue;
            }
        };
        let mine: Vec<&RefRow> = rows.iter().filter(|r| r.entity == e).collect();
        if list.len() != mine.len() {
            o.violation(
                "row-count-changed",
                format!("{}: {} rows of {} were written, the query returns {}", at, mine.len(), e, list.len()),
            );
            ok = false;
        }
        for r in mine {
            let got = match list.iter().find(|x| x.get("id").and_then(|i| i.as_str()) == Some(r.id.as_str())) {
                Some(g) => g,
                None => {
                    o.violation("row-lost", format!("{}: row {} of {} is not returned any more", at, r.id, e));
                    ok = false;
                    continue;
                }
            };
            for n in &names {
                let f = fields.iter().find(|f| &f.name == n);
                let current_default = match f.map(|f| &f.kind) {
                    Some(Kind::Default(_, v)) => Some(v.clone()),
                    _ => None,
                };
                let g = got.get(n).cloned().unwrap_or(Value::Null);
                let (expected, from_default) = match r.values.get(n) {
                    // a null written explicitly reads null ("same value") or the default the field
                    // received later (the purpose of "nullable -> not nullable with a default")
                    Some(Value::Null) => match &current_default {
                        Some(d) if !g.is_null() => (d.clone(), true),
                        Some(_) => {
                            o.label("service:explicit-null-still-null-after-not-nullable-with-default");
                            (Value::Null, false)
                        }
                        None => (Value::Null, false),
                    },
                    Some(v) => (v.clone(), false),
                    None => match current_default {
                        Some(v) => (v, true),
                        None => (Value::Null, false),
                    },
                };
                if !same_scalar(f, &expected, &g, o, from_default) {
                    let sig = if r.values.get(n).map(|v| !v.is_null()).unwrap_or(false) {
                        "written-value-changed"
                    } else if from_default {
                        "default-not-read"
                    } else {
                        "unwritten-field-not-null"
                    };
                    o.violation(sig, format!("{}: row {} of {}: field {} reads {} instead of {}", at, r.id, e, n, g, expected));
                    ok = false;
                } else if from_default {
                    o.label("service:default-read-for-row-written-before-the-field-existed");
                }
            }
        }
    }
    ok
}

fn do_writes(svc: &mut Svc, m: &Model, writes: &[Write], rows: &mut Vec<RefRow>, o: &mut Outcome) {
    for w in writes {
        match w {
            Write::Create { ent, seed } => {
                let names = m.entity_names();
                if names.is_empty() {
                    continue;
                }
                let e = names[pick(*ent, names.len())].clone();
                let fields = scalar_fields(m, &e);
                let mut body = String::new();
                let mut values = BTreeMap::new();
                for (i, f) in fields.iter().enumerate() {
                    let (t, v) = value_for(f, *seed, i);
                    body.push_str(&format!(" {}: {}", f.name, t));
                    values.insert(f.name.clone(), v);
                }
                Clock::advance(3);
                match svc.mutate(&format!("mutate {{ {} {{{} }} }}", e, body)) {
                    Ok(v) => match v.get(&e).and_then(|x| x.get("id")).and_then(|i| i.as_str()) {
                        Some(id) => {
                            rows.push(RefRow { entity: e, id: id.to_string(), values });
                            o.count("rows_created", 1);
                        }
                        None => o.label("service:mutation-without-id"),
                    },
                    Err(err) => {
                        o.label("service:create-refused");
                        if std::env::var("C15_TRACE").is_ok() {
                            eprintln!("create refused: {} for {} {{{}}}", err, e, body);
                        }
                    }
                }
            }
            Write::Update { row, seed } => {
                if rows.is_empty() {
                    continue;
                }
                let ri = pick(*row, rows.len());
                let e = rows[ri].entity.clone();
                let fields = scalar_fields(m, &e);
                if fields.is_empty() {
                    continue;
                }
                let forced = (*seed as usize) % fields.len();
                let mut body = String::new();
                let mut changes: Vec<(String, Value)> = vec![];
                for (i, f) in fields.iter().enumerate() {
                    if i == forced || (seed >> (i % 7)) & 1 == 1 {
                        let (t, v) = value_for(f, seed.wrapping_add(31), i);
                        body.push_str(&format!(" {}: {}", f.name, t));
                        changes.push((f.name.clone(), v));
                    }
                }
                Clock::advance(3);
                match svc.mutate(&format!("mutate {{ {} {{ id:\"{}\"{} }} }}", e, rows[ri].id, body)) {
                    Ok(_) => {
                        let had: BTreeSet<String> = rows[ri].values.keys().cloned().collect();
                        for (n, v) in changes {
                            if !had.contains(&n) {
                                o.label("service:row-updated-with-a-field-it-did-not-have");
                            }
                            rows[ri].values.insert(n, v);
                        }
                        o.count("rows_updated", 1);
                    }
                    Err(err) => {
                        o.label("service:update-refused");
                        if std::env::var("C15_TRACE").is_ok() {
                            eprintln!("update refused: {} for {} {{{}}}", err, e, body);
                        }
                    }
                }
            }
        }
    }
}

/// compares two observations of a state that must not have changed; returns true when equal
fn unchanged(before: &Observation, after: &Observation, what: &str, at: &str, o: &mut Outcome, refused: Option<&Candidate>) -> bool {
    let mut same = true;
    if before.persisted != after.persisted {
        same = false;
        o.violation(
            format!("{}-changes-persisted-model", what),
            format!("{}: {}", at, first_diff(&before.persisted, &after.persisted, "").unwrap_or_default()),
        );
    }
    let mut memory_changed = false;
    if before.memory != after.memory {
        same = false;
        memory_changed = true;
        let d = first_diff(&before.memory, &after.memory, "").unwrap_or_default();
        if let Some(c) = refused {
            o.violation(
                SIG_PARTIAL,
                format!("{}: the instance keeps serving a partially updated model after refusing the version: {}; version:\n{}", at, d, c.text),
            );
        } else {
            o.violation(format!("{}-changes-model-in-memory", what), format!("{}: {}", at, d));
        }
    }
    if before.memory_text != after.memory_text {
        if after.memory_text == SYSTEM_DATA_MODEL {
            // update_system runs before the refusal and leaves its own text in the `model` field of
            // the in-memory value; nothing reads that field, it is counted and not reported
            o.count("refused_update_leaves_system_text_in_memory_model", 1);
        } else {
            same = false;
            o.violation(format!("{}-changes-model-text-in-memory", what), format!("{}: now\n{}", at, after.memory_text));
        }
    }
    if before.queries != after.queries {
        same = false;
        if memory_changed && refused.is_some() {
            // consequence of the partially applied model that is already reported
            o.count("refused_partial_update_changes_query_results", 1);
        } else {
            let e = before.queries.iter().find(|(k, v)| after.queries.get(*k) != Some(v)).map(|(k, _)| k.clone()).unwrap_or_default();
            o.violation(
                format!("{}-changes-query-results", what),
                format!("{}: {}: {:?} -> {:?}", at, e, before.queries.get(&e), after.queries.get(&e)),
            );
        }
    }
    same
}

pub fn run_service(case: &Case, ctx: &RunCtx, st: &mut ModelState, o: &mut Outcome) {
    begin_case(1);
    let dir = ctx.case_dir("svc");
    // the instances are dropped when the inner function returns, then the directory goes
    run_service_in(case, &dir, st, o);
    let _ = std::fs::remove_dir_all(&dir);
}

fn run_service_in(case: &Case, dir: &std::path::Path, st: &mut ModelState, o: &mut Outcome) {
    let mut svc = Svc::new("a", dir.join("a"));
    let mut rows: Vec<RefRow> = vec![];
    let trace = std::env::var("C15_TRACE").is_ok();

    if let Err(e) = svc.start(&st.cur_text) {
        o.violation("initial-version-refused-by-service", format!("{}\n{}", e, st.cur_text));
        return;
    }
    do_writes(&mut svc, &st.cur, &case.init_writes, &mut rows, o);
    check_rows(&mut svc, &st.cur, &rows, "initial version", o);

    let mut stable_seen: BTreeSet<String> = BTreeSet::new();

    for (si, step) in case.steps.iter().enumerate() {
        let at = format!("step {}", si);
        let cand = st.candidate(step, o);
        if trace {
            eprintln!("--- {} candidate (startup={}):\n{}", at, step.at_startup, cand.text);
        }
        let before = observe(&mut svc, &st.cur, &rows);
        // stable-text queries: parsed (and cached by the instance) under the current version
        for e in entities_with_rows(&rows) {
            let names = read_names(&st.cur, &rows, &e);
            let _ = svc.query(&e, &names, false);
            stable_seen.insert(format!("{}|{}", e, names.join(" ")));
        }

        // the code's own decision, on a copy of what the instance will load
        let decision = match svc.persisted_model() {
            Some(pm) => accepts(&pm, &cand.text).is_ok(),
            None => {
                o.violation("persisted-model-unreadable", format!("{}: {}", at, before.persisted_raw));
                return;
            }
        };
        let old_model = st.cur.clone();
        let old_text = st.cur_text.clone();
        let rep = st.apply(&cand, o);
        if rep.stop {
            o.label("stopped-early");
            return;
        }
        if decision != rep.accepted {
            o.violation(
                "acceptance-differs-between-instances",
                format!("{}: the service's persisted model decides {}, separate DataModel values decide {}:\n{}", at, decision, rep.accepted, cand.text),
            );
            return;
        }

        if decision {
            // ---------------- accepted version
            let applied = if step.at_startup {
                o.label("service:accepted-version-applied-at-startup");
                svc.stop();
                svc.start(&cand.text)
            } else {
                o.label("service:accepted-version-applied-at-runtime");
                svc.update(&cand.text).map(|_| ())
            };
            if let Err(e) = applied {
                o.violation("accepted-version-refused-by-service", format!("{}: {}\n{}", at, e, cand.text));
                return;
            }
            let after = observe(&mut svc, &st.cur, &rows);
            let (persisted_body, persisted_text) = split_model(after.persisted.clone());
            if after.memory != persisted_body || after.memory_text != persisted_text {
                o.violation(
                    "memory-and-persisted-model-differ-after-accepted-version",
                    format!(
                        "{}: {}",
                        at,
                        first_diff(&after.memory, &persisted_body, "").unwrap_or_else(|| "the model text differs".to_string())
                    ),
                );
            }
            if after.memory_text != cand.text {
                o.violation("accepted-version-text-not-stored", format!("{}: model text is\n{}", at, after.memory_text));
            }
            // identifiers: the service against an instance started with this version directly
            let svc_ids = svc.persisted_model().map(|m| ids_of(&m)).unwrap_or_default();
            let mut fresh = fresh_copy();
            let _ = fresh.update(&cand.text);
            let mm = id_mismatches(&svc_ids, &ids_of(&fresh));
            if !mm.is_empty() {
                if explained_by_multi_add(&mm, &cand) {
                    // confirm the consequence: the instance cannot restart with the version it holds
                    svc.stop();
                    let restart = match svc.start(&cand.text) {
                        Ok(()) => {
                            o.label("service:restart-accepted-despite-permuted-ids");
                            "restart with the same version succeeded".to_string()
                        }
                        Err(e) => {
                            o.label("service:restart-refused-after-hashmap-order-finding");
                            format!("restart with the same version is refused: {}", e)
                        }
                    };
                    o.violation(
                        SIG_HASHMAP_ORDER,
                        format!("{}: the service numbered the new fields {:?} differently from the declaration order and from other peers; {}; version:\n{}", at, mm, restart, cand.text),
                    );
                    o.label("service:stopped-after-hashmap-order-finding");
                    return;
                } else {
                    o.violation("ids-differ-from-fresh-install", format!("{}: service: {:?}\n{}", at, mm, cand.text));
                }
            }
            {
                let mm = id_mismatches(&svc_ids, &ids_of(&st.a));
                if !mm.is_empty() {
                    o.violation(
                        "short-ids-differ-between-instances",
                        format!("{}: service and a DataModel value that applied the same versions disagree on {:?}", at, mm),
                    );
                }
            }
            // (a) rows
            let rows_ok = check_rows(&mut svc, &st.cur, &rows, &at, o);
            // the same query text as before the update (the instance caches parsed queries)
            if rows_ok && !step.at_startup {
                let mut stale = None;
                for e in entities_with_rows(&rows) {
                    let names = read_names(&st.cur, &rows, &e);
                    if !stable_seen.contains(&format!("{}|{}", e, names.join(" "))) {
                        continue;
                    }
                    let cached = svc.query(&e, &names, false);
                    let fresh = svc.query(&e, &names, true);
                    if cached != fresh && stale.is_none() {
                        stale = Some(format!("{}: the query on {} ({:?}) answered before the update answers {:?}; the same query parsed now answers {:?}", at, e, names, cached, fresh));
                    }
                }
                if let Some(d) = stale {
                    o.violation(SIG_STALE_CACHE, d);
                    // continue past: a restart empties the cache
                    svc.stop();
                    if let Err(e) = svc.start(&cand.text) {
                        o.violation("restart-with-same-model-refused", format!("{}: {}", at, e));
                        return;
                    }
                    stable_seen.clear();
                }
            }
            // index maintenance: every declared index exists, every removed one is gone
            {
                let have = svc.index_names();
                let mut want = vec![];
                for en in st.cur.entity_names() {
                    if let Some(e) = st.cur.find(&en) {
                        for ix in &e.indexes {
                            want.push(format!("idx${}${}", en.replace('.', "$"), ix.join("$")));
                        }
                    }
                }
                want.sort();
                want.dedup();
                if have != want {
                    o.violation("declared-and-existing-indexes-differ", format!("{}: declared {:?}, existing {:?}", at, want, have));
                }
            }
        } else {
            // ---------------- refused version
            if step.at_startup {
                o.label("service:refused-version-at-startup");
                svc.stop();
                match svc.start(&cand.text) {
                    Ok(()) => {
                        o.violation("refused-version-accepted-at-startup", format!("{}:\n{}", at, cand.text));
                        return;
                    }
                    Err(_) => {}
                }
                if let Err(e) = svc.start(&old_text) {
                    o.violation("restart-refused-after-refused-startup", format!("{}: {}", at, e));
                    return;
                }
                stable_seen.clear();
                let after = observe(&mut svc, &old_model, &rows);
                unchanged(&before, &after, "refused-startup", &at, o, None);
            } else {
                o.label("service:refused-version-at-runtime");
                let r = svc.update(&cand.text);
                if r.is_ok() {
                    o.violation(
                        SIG_SWALLOW,
                        format!("{}: DataModel::update refuses the version ({}), GraphDatabaseService::update_data_model returns Ok:\n{}", at, rep.err.clone().unwrap_or_default(), cand.text),
                    );
                }
                let after = observe(&mut svc, &old_model, &rows);
                if before.persisted_raw != after.persisted_raw {
                    o.violation("refused-update-rewrites-persisted-model", format!("{}", at));
                }
                let same = unchanged(&before, &after, "refused-update", &at, o, Some(&cand));
                if !same || after.memory_text != before.memory_text {
                    // continue past: re-applying the current version reloads the persisted model
                    if let Err(e) = svc.update(&old_text) {
                        o.violation("reapplying-current-version-refused", format!("{}: {}", at, e));
                        return;
                    }
                    let healed = observe(&mut svc, &old_model, &rows);
                    if !unchanged(&before, &healed, "reapplying-current-version", &at, o, None) {
                        return;
                    }
                }
            }
        }

        // rows written under the current version
        do_writes(&mut svc, &st.cur, &step.writes, &mut rows, o);
        check_rows(&mut svc, &st.cur, &rows, &format!("{} after writes", at), o);

        if step.restart_after {
            o.label("service:restart-with-same-model");
            let before = observe(&mut svc, &st.cur, &rows);
            svc.stop();
            if let Err(e) = svc.start(&st.cur_text) {
                let kind = svc_restart_error_kind(&before.persisted_raw, &st.cur_text);
                o.violation(format!("restart-with-same-model-refused:{}", kind), format!("{}: {}\n{}", at, e, st.cur_text));
                return;
            }
            stable_seen.clear();
            let after = observe(&mut svc, &st.cur, &rows);
            unchanged(&before, &after, "restart-with-same-model", &at, o, None);
        }
    }

    if !rows.is_empty() {
        o.label("service:rows-held");
    }

    // (b) a second service applying the same accepted versions
    if case.second_service {
        o.label("service:second-instance");
        let first_ids = svc.persisted_model().map(|m| ids_of(&m)).unwrap_or_default();
        let mut other = Svc::new("b", dir.join("b"));
        let mut texts = st.accepted_texts.iter();
        let mut ok = match texts.next() {
            Some(t) => other.start(t).is_ok(),
            None => false,
        };
        for t in texts {
            if !ok {
                break;
            }
            ok = other.update(t).is_ok();
            // the service hides refusals: look at the stored text
            let (_, text) = split_model(serde_json::from_str(&other.persisted_raw()).unwrap_or(Value::Null));
            if &text != t {
                ok = false;
            }
        }
        if !ok {
            if st.multi_added.is_empty() {
                o.violation("second-instance-refuses-accepted-sequence", format!("{:?}", st.accepted_texts));
            } else {
                o.label("service:second-instance-refused-after-multi-add");
            }
        } else {
            let ids = other.persisted_model().map(|m| ids_of(&m)).unwrap_or_default();
            let mm = id_mismatches(&first_ids, &ids);
            if !mm.is_empty() {
                let explained = mm.iter().all(|(e, f)| f.as_ref().map(|f| st.multi_added.contains(&(e.clone(), f.clone()))).unwrap_or(false));
                if explained {
                    o.violation(SIG_HASHMAP_ORDER, format!("two services that applied the same accepted versions disagree on {:?}", mm));
                } else {
                    o.violation("short-ids-differ-between-instances", format!("two services that applied the same accepted versions disagree on {:?}", mm));
                }
            }
        }
        other.stop();
    }
    svc.stop();
}

fn svc_restart_error_kind(persisted_raw: &str, text: &str) -> String {
    match serde_json::from_str::<DataModel>(persisted_raw) {
        Ok(mut m) => {
            if let Err(e) = m.update_system(SYSTEM_DATA_MODEL) {
                return err_kind(&e);
            }
            match m.update(text) {
                Err(e) => err_kind(&e),
                Ok(()) => "not-reproduced-on-model".to_string(),
            }
        }
        Err(_) => "persisted-model-unreadable".to_string(),
    }
}
