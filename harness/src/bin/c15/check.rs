//! Model-only path: separate `DataModel` values (separate hash seeds) apply the same versions with
//! the real `update`; oracles on short identifiers, atomicity of refusals and reload.

use crate::ast::Model;
use crate::gen::*;
use discret::verif::database::query_language::data_model_parser::DataModel;
use discret::verif::database::system_entities::SYSTEM_DATA_MODEL;
use dv::engine::Outcome;
use serde_json::Value;
use std::collections::{BTreeMap, BTreeSet};

pub const SIG_HASHMAP_ORDER: &str = "new-fields-numbered-in-hashmap-order";
pub const SIG_PARTIAL: &str = "refused-update-partially-applied";

/// entity full name -> (short name, field name -> short name)
pub type Ids = BTreeMap<String, (String, BTreeMap<String, String>)>;

pub fn ids_of(dm: &DataModel) -> Ids {
    let mut out = Ids::new();
    for (_, ents) in dm.namespaces() {
        for (name, e) in ents {
            let mut f = BTreeMap::new();
            for (fname, fld) in &e.fields {
                f.insert(fname.clone(), fld.short_name.clone());
            }
            out.insert(name.clone(), (e.short_name.clone(), f));
        }
    }
    out
}

pub fn canon(dm: &DataModel) -> Value {
    serde_json::to_value(dm).expect("model serialises")
}

/// first difference between two JSON values (keys visited in sorted order)
pub fn first_diff(a: &Value, b: &Value, path: &str) -> Option<String> {
    match (a, b) {
        (Value::Object(x), Value::Object(y)) => {
            let keys: BTreeSet<&String> = x.keys().chain(y.keys()).collect();
            for k in keys {
                let p = format!("{}/{}", path, k);
                match (x.get(k), y.get(k)) {
                    (Some(u), Some(v)) => {
                        if let Some(d) = first_diff(u, v, &p) {
                            return Some(d);
                        }
                    }
                    (Some(_), None) => return Some(format!("{} removed", p)),
                    (None, Some(_)) => return Some(format!("{} added", p)),
                    (None, None) => {}
                }
            }
            None
        }
        (Value::Array(x), Value::Array(y)) => {
            if x.len() != y.len() {
                return Some(format!("{} length {} -> {}", path, x.len(), y.len()));
            }
            for (i, (u, v)) in x.iter().zip(y.iter()).enumerate() {
                if let Some(d) = first_diff(u, v, &format!("{}[{}]", path, i)) {
                    return Some(d);
                }
            }
            None
        }
        _ => {
            if a == b {
                None
            } else {
                Some(format!("{}: {} -> {}", path, a, b))
            }
        }
    }
}

pub fn err_kind(e: &impl std::fmt::Debug) -> String {
    let s = format!("{:?}", e);
    s.split(|c: char| !c.is_ascii_alphanumeric()).next().unwrap_or("").to_string()
}

/// a new `DataModel` value holding the same content (new hash seeds): what a restart does
pub fn reload(dm: &DataModel) -> DataModel {
    serde_json::from_str(&serde_json::to_string(dm).unwrap()).expect("model deserialises")
}

pub fn fresh_with_system() -> DataModel {
    let mut d = DataModel::new();
    d.update_system(SYSTEM_DATA_MODEL).expect("system model");
    d
}

thread_local! {
    static PROTOTYPE: DataModel = fresh_with_system();
}
/// an empty instance holding the system model (copy of one prototype: same hash seeds, which does
/// not matter for what a fresh install numbers)
pub fn fresh_copy() -> DataModel {
    PROTOTYPE.with(|p| p.clone())
}

/// the code's own decision on a copy; `system`: system update first, like the service does
pub fn accepts_opt(dm: &DataModel, text: &str, system: bool) -> Result<DataModel, String> {
    let mut c = dm.clone();
    if system {
        c.update_system(SYSTEM_DATA_MODEL).map_err(|e| err_kind(&e))?;
    }
    c.update(text).map_err(|e| err_kind(&e))?;
    Ok(c)
}
pub fn accepts(dm: &DataModel, text: &str) -> Result<DataModel, String> {
    accepts_opt(dm, text, true)
}

/// (entity, Some(field)) or (entity, None) whose identifier differs between two id maps
pub fn id_mismatches(a: &Ids, b: &Ids) -> Vec<(String, Option<String>)> {
    let mut out = vec![];
    let names: BTreeSet<&String> = a.keys().chain(b.keys()).collect();
    for n in names {
        match (a.get(n), b.get(n)) {
            (Some(x), Some(y)) => {
                if x.0 != y.0 {
                    out.push((n.clone(), None));
                }
                let fs: BTreeSet<&String> = x.1.keys().chain(y.1.keys()).collect();
                for f in fs {
                    if x.1.get(f) != y.1.get(f) {
                        out.push((n.clone(), Some(f.clone())));
                    }
                }
            }
            _ => out.push((n.clone(), None)),
        }
    }
    out
}

/// true when every mismatch is a field added by `cand` to an entity that received >= 2 new fields
pub fn explained_by_multi_add(mm: &[(String, Option<String>)], cand: &Candidate) -> bool {
    !mm.is_empty()
        && mm.iter().all(|(e, f)| match f {
            Some(f) => cand
                .new_fields_on_existing
                .get(e)
                .map(|v| v.len() >= 2 && v.contains(f))
                .unwrap_or(false),
            None => false,
        })
}

pub struct StepReport {
    pub accepted: bool,
    pub err: Option<String>,
    /// the multi-add finding was hit and could not be repaired: the case must stop
    pub stop: bool,
    pub hashmap_finding: bool,
}

pub struct ModelState {
    pub opt: Options,
    /// three instances applying the same versions; `c` is reloaded before every update
    pub a: DataModel,
    pub b: DataModel,
    pub c: DataModel,
    /// identifier of every entity/field when first seen
    pub known: Ids,
    pub cur: Model,
    pub cur_text: String,
    pub accepted_texts: Vec<String>,
    pub versions_accepted: u64,
    pub versions_refused: u64,
    pub nontrivial: bool,
    /// (entity, field) of every field that entered an existing entity together with another one
    pub multi_added: BTreeSet<(String, String)>,
}

impl ModelState {
    pub fn new(case: &Case, o: &mut Outcome) -> Option<ModelState> {
        let opt = Options { service: case.service, multi_add: case.multi_add };
        let cur = initial_model(&case.init, &opt);
        let text = cur.render();
        let mut insts = vec![];
        for _ in 0..3 {
            let mut d = fresh_with_system();
            if let Err(e) = d.update(&text) {
                o.discard = Some(format!("initial-model-refused:{}", err_kind(&e)));
                return None;
            }
            insts.push(d);
        }
        let c = insts.pop().unwrap();
        let b = insts.pop().unwrap();
        let a = insts.pop().unwrap();
        let mut st = ModelState {
            opt,
            a,
            b,
            c,
            known: Ids::new(),
            cur,
            cur_text: text.clone(),
            accepted_texts: vec![text],
            versions_accepted: 0,
            versions_refused: 0,
            nontrivial: false,
            multi_added: BTreeSet::new(),
        };
        st.check_ids(o, None, "initial version");
        Some(st)
    }

    pub fn candidate(&self, step: &Step, o: &mut Outcome) -> Candidate {
        let cand = apply_edits(&self.cur, &step.edits, &self.opt);
        o.count("excluded_multi_add", cand.excluded_multi_add);
        cand
    }

    /// stability, uniqueness, index consistency on `a`; equality across a, b, c
    fn check_ids(&mut self, o: &mut Outcome, cand: Option<&Candidate>, at: &str) -> bool {
        let ia = ids_of(&self.a);
        let mut hashmap_finding = false;
        // uniqueness
        let mut seen: BTreeMap<&String, &String> = BTreeMap::new();
        for (name, (short, fields)) in &ia {
            if let Some(other) = seen.insert(short, name) {
                o.violation(
                    "entity-short-id-collision",
                    format!("{}: entities {} and {} share the identifier {}", at, other, name, short),
                );
            }
            let mut fs: BTreeMap<&String, &String> = BTreeMap::new();
            for (f, s) in fields {
                if let Some(other) = fs.insert(s, f) {
                    o.violation(
                        "field-short-id-collision",
                        format!("{}: fields {}.{} and {}.{} share the identifier {}", at, name, other, name, f, s),
                    );
                }
            }
            match self.a.name_for(short) {
                Some(n) if &n == name => {}
                other => o.violation(
                    "short-id-index-wrong",
                    format!("{}: name_for({}) = {:?}, the entity is {}", at, short, other, name),
                ),
            }
        }
        // stability
        for (name, (short, fields)) in &ia {
            match self.known.get_mut(name) {
                None => {
                    self.known.insert(name.clone(), (short.clone(), fields.clone()));
                }
                Some(k) => {
                    if &k.0 != short {
                        o.violation(
                            "entity-short-id-changed",
                            format!("{}: entity {} had identifier {} and now has {}", at, name, k.0, short),
                        );
                    }
                    for (f, s) in fields {
                        match k.1.get(f) {
                            None => {
                                k.1.insert(f.clone(), s.clone());
                            }
                            Some(old) if old != s => o.violation(
                                "field-short-id-changed",
                                format!("{}: field {}.{} had identifier {} and now has {}", at, name, f, old, s),
                            ),
                            _ => {}
                        }
                    }
                }
            }
        }
        for (name, k) in &self.known {
            match ia.get(name) {
                None => o.violation("entity-disappeared", format!("{}: entity {} is gone", at, name)),
                Some(cur) => {
                    for f in k.1.keys() {
                        if !cur.1.contains_key(f) {
                            o.violation("field-disappeared", format!("{}: field {}.{} is gone", at, name, f));
                        }
                    }
                }
            }
        }
        // agreement between instances
        for (label, other) in [("b", &self.b), ("c", &self.c)] {
            let io = ids_of(other);
            let mm = id_mismatches(&ia, &io);
            if !mm.is_empty() {
                if cand.map(|c| explained_by_multi_add(&mm, c)).unwrap_or(false) {
                    hashmap_finding = true;
                } else {
                    o.violation(
                        "short-ids-differ-between-instances",
                        format!("{}: instances a and {} applied the same versions and disagree on {:?}", at, label, mm),
                    );
                }
            }
        }
        hashmap_finding
    }

    /// applies one candidate version to the three instances and checks every model-level oracle
    pub fn apply(&mut self, cand: &Candidate, o: &mut Outcome) -> StepReport {
        let at = format!("version {}", self.accepted_texts.len() + self.versions_refused as usize);
        for (name, intent) in &cand.intents {
            if *intent != Intent::Noop {
                o.label(format!("edit:{}", name));
            }
        }
        // the service reloads the persisted model before every update: so does c
        self.c = reload(&self.c);

        let decision = accepts_opt(&self.a, &cand.text, false);
        let db = accepts_opt(&self.b, &cand.text, false).is_ok();
        let dc = accepts_opt(&self.c, &cand.text, true).is_ok();
        if decision.is_ok() != db || decision.is_ok() != dc {
            o.violation(
                "acceptance-differs-between-instances",
                format!("{}: a:{} b:{} c:{} for\n{}", at, decision.is_ok(), db, dc, cand.text),
            );
            return StepReport { accepted: false, err: None, stop: true, hashmap_finding: false };
        }

        match decision {
            Err(kind) => {
                self.versions_refused += 1;
                o.label(format!("refused:{}", kind));
                let parse_ok = DataModel::new().update(&cand.text).is_ok();
                if parse_ok {
                    o.label("refused:at-update-stage");
                    if self.cur.entity_names().len() >= 2 {
                        self.nontrivial = true;
                    }
                    if cand.has_valid_change() {
                        o.label("refused:partially-valid-version");
                    }
                } else {
                    o.label("refused:at-parse-stage");
                }
                if !cand.has_invalid() && !cand.intents.iter().any(|(_, i)| *i == Intent::Unspecified) {
                    o.label("generator:intended-valid-but-refused");
                    if std::env::var("C15_TRACE_GEN").is_ok() {
                        eprintln!("INTENDED-VALID-REFUSED {} {:?}\nfrom:\n{}\nto:\n{}", kind, cand.intents, self.cur_text, cand.text);
                    }
                }
                // (c) atomicity on the real value, not on the copy
                let mut partial = false;
                for (label, inst) in [("a", &mut self.a), ("b", &mut self.b), ("c", &mut self.c)] {
                    // the same untouched map serialises in the same order: equal strings = unchanged
                    let before_s = serde_json::to_string(&*inst).unwrap();
                    let backup = inst.clone();
                    let r = inst.update(&cand.text);
                    if r.is_ok() {
                        o.violation(
                            "refusal-not-reproducible",
                            format!("{}: a copy of instance {} refused the version, the instance accepted it", at, label),
                        );
                    }
                    if before_s == serde_json::to_string(&*inst).unwrap() {
                        continue;
                    }
                    let before = canon(&backup);
                    let after = canon(inst);
                    if before != after {
                        if !partial {
                            o.violation(
                                SIG_PARTIAL,
                                format!(
                                    "{}: DataModel::update returned Err({}) and changed the model of instance {}: {}; version:\n{}",
                                    at,
                                    kind,
                                    label,
                                    first_diff(&before, &after, "").unwrap_or_default(),
                                    cand.text
                                ),
                            );
                        }
                        partial = true;
                        *inst = backup;
                    }
                }
                if partial {
                    o.count("refused_versions_partially_applied", 1);
                }
                o.count("refused_versions", 1);
                StepReport { accepted: false, err: Some(kind), stop: false, hashmap_finding: false }
            }
            Ok(_) => {
                self.versions_accepted += 1;
                o.count("accepted_versions", 1);
                if cand.has_invalid() {
                    o.label("generator:intended-invalid-but-accepted");
                }
                if cand.intents.iter().any(|(_, i)| *i == Intent::Unspecified) {
                    o.label("accepted:unspecified-edit(drop/change default)");
                }
                let items = cand.items_added();
                if items >= 2 {
                    o.label("accepted:adds>=2-items");
                    self.nontrivial = true;
                }
                let multi = cand.multi_add_entities();
                if !multi.is_empty() {
                    o.label("accepted:>=2-new-fields-in-one-existing-entity");
                    for e in &multi {
                        for f in &cand.new_fields_on_existing[e] {
                            self.multi_added.insert((e.clone(), f.clone()));
                        }
                    }
                }
                let before_a = self.a.clone();
                for (i, inst) in [&mut self.a, &mut self.b, &mut self.c].into_iter().enumerate() {
                    // c follows the service: system update first
                    if i == 2 {
                        let _ = inst.update_system(SYSTEM_DATA_MODEL);
                    }
                    if let Err(e) = inst.update(&cand.text) {
                        o.violation(
                            "acceptance-not-reproducible",
                            format!("{}: a copy accepted the version, the instance answered {}", at, err_kind(&e)),
                        );
                        return StepReport { accepted: false, err: None, stop: true, hashmap_finding: false };
                    }
                }
                self.cur = cand.model.clone();
                self.cur_text = cand.text.clone();
                self.accepted_texts.push(cand.text.clone());

                let mut hashmap_finding = self.check_ids(o, Some(cand), &at);

                // more instances when several fields enter one entity at once: each is a peer that
                // restarts into the new version (new hash seeds)
                let mut good: Option<DataModel> = None;
                let fresh_ids = {
                    let mut f = fresh_copy();
                    match f.update(&cand.text) {
                        Ok(()) => Some(ids_of(&f)),
                        Err(e) => {
                            o.violation(
                                "accepted-version-refused-by-fresh-install",
                                format!("{}: accepted as an update, refused ({}) by an empty instance:\n{}", at, err_kind(&e), cand.text),
                            );
                            None
                        }
                    }
                };
                if !multi.is_empty() {
                    let ia = ids_of(&self.a);
                    for _ in 0..12 {
                        let mut p = reload(&before_a);
                        if p.update(&cand.text).is_err() {
                            continue;
                        }
                        let ip = ids_of(&p);
                        let mm = id_mismatches(&ia, &ip);
                        if !mm.is_empty() {
                            if explained_by_multi_add(&mm, cand) {
                                hashmap_finding = true;
                            } else {
                                o.violation(
                                    "short-ids-differ-between-instances",
                                    format!("{}: a reloaded peer disagrees on {:?}", at, mm),
                                );
                            }
                        }
                        if Some(&ip) == fresh_ids.as_ref() && good.is_none() {
                            good = Some(p);
                        }
                    }
                }

                // the identifiers of an upgraded instance and of a fresh install of the same version
                if let Some(fi) = &fresh_ids {
                    let mm = id_mismatches(&ids_of(&self.a), fi);
                    if !mm.is_empty() {
                        if explained_by_multi_add(&mm, cand) {
                            hashmap_finding = true;
                        } else {
                            o.violation(
                                "ids-differ-from-fresh-install",
                                format!("{}: after the accepted sequence {:?} differ from an instance that starts with this version:\n{}", at, mm, cand.text),
                            );
                        }
                    }
                }

                // (d) restart with the same model: reload + system update + same text
                let mut restart_ok = true;
                for (label, inst) in [("a", &self.a), ("c", &self.c)] {
                    let mut r = reload(inst);
                    let sys = if label == "c" { r.update_system(SYSTEM_DATA_MODEL).map_err(|e| err_kind(&e)) } else { Ok(()) };
                    let res = sys.and_then(|_| r.update(&cand.text).map_err(|e| err_kind(&e)));
                    match res {
                        Err(kind) => {
                            restart_ok = false;
                            let mm = fresh_ids.as_ref().map(|fi| id_mismatches(&ids_of(inst), fi)).unwrap_or_default();
                            if explained_by_multi_add(&mm, cand) {
                                hashmap_finding = true;
                            } else {
                                o.violation(
                                    format!("restart-with-same-model-refused:{}", kind),
                                    format!("{}: instance {} cannot re-apply the version it holds:\n{}", at, label, cand.text),
                                );
                            }
                        }
                        Ok(()) => {
                            let x = canon(inst);
                            let y = canon(&r);
                            if x != y {
                                o.violation(
                                    "restart-with-same-model-changes-model",
                                    format!("{}: instance {}: {}", at, label, first_diff(&x, &y, "").unwrap_or_default()),
                                );
                            }
                        }
                    }
                }
                let _ = restart_ok;

                let mut stop = false;
                if hashmap_finding {
                    o.violation(
                        SIG_HASHMAP_ORDER,
                        format!(
                            "{}: the version adds {:?} to existing entities; instances that applied the same versions number the new fields differently (a: {:?}), and an instance whose numbering differs from the declaration order refuses to restart; version:\n{}",
                            at,
                            cand.new_fields_on_existing,
                            multi.iter().map(|e| (e.clone(), ids_of(&self.a).get(e).map(|x| x.1.clone()))).collect::<Vec<_>>(),
                            cand.text
                        ),
                    );
                    // continue past the finding from a state in which all instances agree
                    match good {
                        Some(g) => {
                            self.a = reload(&g);
                            self.b = reload(&g);
                            self.c = reload(&g);
                            // forget what the permuted instance had recorded for the new fields
                            let ig = ids_of(&g);
                            for (e, fs) in &cand.new_fields_on_existing {
                                if let (Some(k), Some(n)) = (self.known.get_mut(e), ig.get(e)) {
                                    for f in fs {
                                        if let Some(s) = n.1.get(f) {
                                            k.1.insert(f.clone(), s.clone());
                                        }
                                    }
                                }
                            }
                        }
                        None => stop = true,
                    }
                }
                StepReport { accepted: true, err: None, stop, hashmap_finding }
            }
        }
    }

    pub fn finish(&self, o: &mut Outcome) {
        if self.nontrivial {
            o.nontrivial = true;
        }
        let a = self.versions_accepted;
        o.label(match a {
            0 => "accepted-versions:0",
            1..=2 => "accepted-versions:1-2",
            3..=5 => "accepted-versions:3-5",
            _ => "accepted-versions:6+",
        });
        let r = self.versions_refused;
        o.label(match r {
            0 => "refused-versions:0",
            1..=2 => "refused-versions:1-2",
            _ => "refused-versions:3+",
        });
    }
}
