//! Case language: an initial model and a sequence of steps; each step is a list of edits that is
//! applied (at run time) to the last ACCEPTED version, which yields the next candidate version.

use crate::ast::*;
use dv::engine::pick;
use proptest::prelude::*;
use serde::{Deserialize, Serialize};
use std::collections::BTreeMap;

#[derive(Clone, Debug, Serialize, Deserialize, PartialEq)]
pub struct FieldSpec {
    /// 0 Integer, 1 Float, 2 Boolean, 3 String, 4 Base64, 5 Json, 6 reference, 7 array of references
    pub ty: u8,
    /// 0 plain (not nullable, no default), 1 nullable, 2 default
    pub kind: u8,
    pub target: u16,
    pub lit: u8,
}

#[derive(Clone, Debug, Serialize, Deserialize, PartialEq)]
pub struct EntSpec {
    /// namespace chosen among "", "nsa", "nsb" (initial model only)
    pub ns: u8,
    pub fields: Vec<FieldSpec>,
    pub no_fts: bool,
    pub index: Option<u16>,
}

#[derive(Clone, Debug, Serialize, Deserialize, PartialEq)]
pub enum Edit {
    // ---- edits the documented rules allow
    AddNs { ent: EntSpec },
    AddEnt { ns: u16, ent: EntSpec },
    /// new field appended at the end of an entity (nullable or with a default)
    AddFld { ent: u16, f: FieldSpec },
    /// many new fields appended to one entity in a single version (storage identifiers run past two and
    /// three digits)
    AddManyFlds { ent: u16, n: u8, ty: u8 },
    /// change plain / nullable / default of a field (nullable -> plain is the refused one)
    SetKind { ent: u16, fld: u16, kind: u8, lit: u8 },
    DepFld { ent: u16, fld: u16 },
    DepEnt { ent: u16 },
    AddIdx { ent: u16, a: u16, b: Option<u16> },
    DelIdx { ent: u16, idx: u16 },
    Fts { ent: u16 },
    Recase { ns: u16 },
    // ---- edits the documented rules refuse
    DelFld { ent: u16, fld: u16 },
    DelEnt { ent: u16 },
    DelNs { ns: u16 },
    SwapFld { ent: u16, a: u16, b: u16 },
    SwapEnt { ns: u16, a: u16, b: u16 },
    SwapNs { a: u16, b: u16 },
    /// new (otherwise valid) field inserted before existing ones
    InsFld { ent: u16, pos: u16, f: FieldSpec },
    Retype { ent: u16, fld: u16, ty: u8 },
    /// new scalar field, not nullable, without default
    AddPlain { ent: u16, ty: u8 },
    /// reserved / system / underscore names
    BadName { ent: u16, kind: u8 },
    Dup { ent: u16, fld: Option<u16> },
    BadRef { ent: u16 },
    BadDefault { ent: u16 },
    Syntax { kind: u8 },
    RenFld { ent: u16, fld: u16 },
    RenEnt { ent: u16 },
}

impl Edit {
    pub fn name(&self) -> &'static str {
        match self {
            Edit::AddNs { .. } => "AddNs",
            Edit::AddEnt { .. } => "AddEnt",
            Edit::AddFld { .. } => "AddFld",
            Edit::AddManyFlds { .. } => "AddManyFlds",
            Edit::SetKind { .. } => "SetKind",
            Edit::DepFld { .. } => "DepFld",
            Edit::DepEnt { .. } => "DepEnt",
            Edit::AddIdx { .. } => "AddIdx",
            Edit::DelIdx { .. } => "DelIdx",
            Edit::Fts { .. } => "Fts",
            Edit::Recase { .. } => "Recase",
            Edit::DelFld { .. } => "DelFld",
            Edit::DelEnt { .. } => "DelEnt",
            Edit::DelNs { .. } => "DelNs",
            Edit::SwapFld { .. } => "SwapFld",
            Edit::SwapEnt { .. } => "SwapEnt",
            Edit::SwapNs { .. } => "SwapNs",
            Edit::InsFld { .. } => "InsFld",
            Edit::Retype { .. } => "Retype",
            Edit::AddPlain { .. } => "AddPlain",
            Edit::BadName { .. } => "BadName",
            Edit::Dup { .. } => "Dup",
            Edit::BadRef { .. } => "BadRef",
            Edit::BadDefault { .. } => "BadDefault",
            Edit::Syntax { .. } => "Syntax",
            Edit::RenFld { .. } => "RenFld",
            Edit::RenEnt { .. } => "RenEnt",
        }
    }
}

#[derive(Clone, Debug, Serialize, Deserialize, PartialEq)]
pub enum Write {
    /// create a row of an entity, every scalar field given a value derived from `seed`
    Create { ent: u16, seed: u8 },
    /// update a subset of the scalar fields of an existing row
    Update { row: u16, seed: u8 },
}

#[derive(Clone, Debug, Serialize, Deserialize, PartialEq)]
pub struct Step {
    pub edits: Vec<Edit>,
    /// service path: the version is applied by restarting the instance with it
    pub at_startup: bool,
    /// service path: restart with the current model after the step
    pub restart_after: bool,
    /// service path: rows written after the step
    pub writes: Vec<Write>,
}

#[derive(Clone, Debug, Serialize, Deserialize, PartialEq)]
pub struct Case {
    /// false: DataModel values only; true: a real instance holding rows as well
    pub service: bool,
    /// generator switch: when false, at most one new field per existing entity and version
    pub multi_add: bool,
    /// service path: a second instance applies the same accepted versions at the end
    pub second_service: bool,
    pub init: Vec<EntSpec>,
    pub init_writes: Vec<Write>,
    pub steps: Vec<Step>,
}

// ---------------------------------------------------------------------------------------------
// strategies
// ---------------------------------------------------------------------------------------------

fn field_spec() -> impl Strategy<Value = FieldSpec> {
    (
        prop_oneof![6 => 0u8..4, 1 => 4u8..6, 2 => 6u8..8],
        0u8..3,
        any::<u16>(),
        0u8..4,
    )
        .prop_map(|(ty, kind, target, lit)| FieldSpec { ty, kind, target, lit })
}

fn ent_spec() -> impl Strategy<Value = EntSpec> {
    (
        0u8..3,
        prop::collection::vec(field_spec(), 1..4),
        prop::bool::weighted(0.2),
        prop::option::weighted(0.3, any::<u16>()),
    )
        .prop_map(|(ns, fields, no_fts, index)| EntSpec { ns, fields, no_fts, index })
}

fn edit() -> impl Strategy<Value = Edit> {
    let i = || any::<u16>();
    prop_oneof![
        // valid intent (weights sum 70)
        3 => ent_spec().prop_map(|ent| Edit::AddNs { ent }),
        8 => (i(), ent_spec()).prop_map(|(ns, ent)| Edit::AddEnt { ns, ent }),
        23 => (i(), field_spec()).prop_map(|(ent, f)| Edit::AddFld { ent, f }),
        1 => (i(), prop_oneof![2 => 2u8..12, 3 => 55u8..90], 0u8..4).prop_map(|(ent, n, ty)| Edit::AddManyFlds { ent, n, ty }),
        12 => (i(), i(), 0u8..3, 0u8..4).prop_map(|(ent, fld, kind, lit)| Edit::SetKind { ent, fld, kind, lit }),
        5 => (i(), i()).prop_map(|(ent, fld)| Edit::DepFld { ent, fld }),
        3 => i().prop_map(|ent| Edit::DepEnt { ent }),
        6 => (i(), i(), prop::option::of(i())).prop_map(|(ent, a, b)| Edit::AddIdx { ent, a, b }),
        4 => (i(), i()).prop_map(|(ent, idx)| Edit::DelIdx { ent, idx }),
        3 => i().prop_map(|ent| Edit::Fts { ent }),
        2 => i().prop_map(|ns| Edit::Recase { ns }),
        // invalid intent (weights sum 30)
        3 => (i(), i()).prop_map(|(ent, fld)| Edit::DelFld { ent, fld }),
        2 => i().prop_map(|ent| Edit::DelEnt { ent }),
        1 => i().prop_map(|ns| Edit::DelNs { ns }),
        3 => (i(), i(), i()).prop_map(|(ent, a, b)| Edit::SwapFld { ent, a, b }),
        2 => (i(), i(), i()).prop_map(|(ns, a, b)| Edit::SwapEnt { ns, a, b }),
        1 => (i(), i()).prop_map(|(a, b)| Edit::SwapNs { a, b }),
        3 => (i(), i(), field_spec()).prop_map(|(ent, pos, f)| Edit::InsFld { ent, pos, f }),
        4 => (i(), i(), 0u8..8).prop_map(|(ent, fld, ty)| Edit::Retype { ent, fld, ty }),
        3 => (i(), 0u8..6).prop_map(|(ent, ty)| Edit::AddPlain { ent, ty }),
        2 => (i(), 0u8..6).prop_map(|(ent, kind)| Edit::BadName { ent, kind }),
        1 => (i(), prop::option::of(i())).prop_map(|(ent, fld)| Edit::Dup { ent, fld }),
        1 => i().prop_map(|ent| Edit::BadRef { ent }),
        1 => i().prop_map(|ent| Edit::BadDefault { ent }),
        1 => (0u8..3).prop_map(|kind| Edit::Syntax { kind }),
        1 => (i(), i()).prop_map(|(ent, fld)| Edit::RenFld { ent, fld }),
        1 => i().prop_map(|ent| Edit::RenEnt { ent }),
    ]
}

fn write() -> impl Strategy<Value = Write> {
    prop_oneof![
        3 => (any::<u16>(), any::<u8>()).prop_map(|(ent, seed)| Write::Create { ent, seed }),
        1 => (any::<u16>(), any::<u8>()).prop_map(|(row, seed)| Write::Update { row, seed }),
    ]
}

fn step(service: bool) -> impl Strategy<Value = Step> {
    let writes = if service { 0..4usize } else { 0..1usize };
    (
        prop::collection::vec(edit(), 1..5),
        prop::bool::weighted(if service { 0.25 } else { 0.0 }),
        prop::bool::weighted(if service { 0.3 } else { 0.0 }),
        prop::collection::vec(write(), writes),
    )
        .prop_map(|(edits, at_startup, restart_after, writes)| Step { edits, at_startup, restart_after, writes })
}

/// `service_one_in`: one case in that many uses a real instance
pub fn case_strategy(service_one_in: u32, max_steps: usize, max_service_steps: usize) -> BoxedStrategy<Case> {
    prop::bool::weighted(1.0 / service_one_in as f64)
        .prop_flat_map(move |service| {
            let steps = if service { 2..max_service_steps + 1 } else { 1..max_steps + 1 };
            (
                Just(service),
                prop::bool::weighted(0.15),
                prop::bool::weighted(0.35),
                prop::collection::vec(ent_spec(), 1..5),
                prop::collection::vec(write(), if service { 1..5usize } else { 0..1usize }),
                prop::collection::vec(step(service), steps),
            )
        })
        .prop_map(|(service, multi_add, second_service, init, init_writes, steps)| Case {
            service,
            multi_add,
            second_service: service && second_service,
            init,
            init_writes,
            steps,
        })
        .boxed()
}

// ---------------------------------------------------------------------------------------------
// interpretation of specs and edits on the harness' model
// ---------------------------------------------------------------------------------------------

#[derive(Clone, Copy, Debug, PartialEq, Eq)]
pub enum Intent {
    Valid,
    Invalid,
    /// accepted by the code although the documented rules do not mention it (e.g. dropping a default)
    Unspecified,
    /// the edit had no target (empty pool) and did nothing
    Noop,
}

pub struct Options {
    /// Json fields and exotic literals only outside the service path
    pub service: bool,
    pub multi_add: bool,
}

fn scalar_ty(ty: u8, service: bool) -> Ty {
    match ty % 6 {
        0 => Ty::Integer,
        1 => Ty::Float,
        2 => Ty::Boolean,
        3 => Ty::Str,
        4 => Ty::Base64,
        _ => {
            if service {
                Ty::Str
            } else {
                Ty::Json
            }
        }
    }
}

fn make_field(m: &mut Model, spec: &FieldSpec, opt: &Options, force_valid_new: bool, self_name: Option<&str>) -> Fld {
    let mut targets = m.entity_names();
    if let Some(s) = self_name {
        if !targets.iter().any(|t| t == s) {
            targets.push(s.to_string());
        }
    }
    let ty = match spec.ty {
        6 | 7 if !targets.is_empty() => {
            let t = targets[pick(spec.target, targets.len())].clone();
            if spec.ty == 6 {
                Ty::Ent(t)
            } else {
                Ty::Arr(t)
            }
        }
        6 | 7 => Ty::Str,
        t => scalar_ty(t, opt.service),
    };
    let mut kind = match spec.kind {
        0 => Kind::Plain,
        1 => Kind::Nullable,
        _ => {
            if ty.is_ref() {
                Kind::Nullable
            } else {
                let (t, v) = literal(&ty, spec.lit, opt.service);
                Kind::Default(t, v)
            }
        }
    };
    if opt.service && matches!(ty, Ty::Base64) && matches!(kind, Kind::Default(..)) {
        // the rendering of Base64 defaults by queries is not this property's business
        kind = Kind::Nullable;
    }
    if force_valid_new && kind == Kind::Plain && !ty.is_ref() {
        kind = Kind::Nullable;
    }
    Fld { name: m.fresh("f"), ty, kind, deprecated: false }
}

fn make_entity(m: &mut Model, spec: &EntSpec, opt: &Options, ns_name: &str) -> Ent {
    let name = m.fresh("E");
    let me = full_name(ns_name, &name);
    let mut e = Ent { name, deprecated: false, no_fts: spec.no_fts, fields: vec![], indexes: vec![] };
    for fs in &spec.fields {
        let f = make_field(m, fs, opt, false, Some(&me));
        e.fields.push(f);
    }
    if let Some(ix) = spec.index {
        let cands: Vec<&Fld> = e.fields.iter().filter(|f| f.ty.indexable()).collect();
        if !cands.is_empty() {
            e.indexes.push(vec![cands[pick(ix, cands.len())].name.clone()]);
        }
    }
    e
}

pub fn initial_model(init: &[EntSpec], opt: &Options) -> Model {
    let mut m = Model::default();
    for spec in init {
        let ns_name = ["", "nsa", "nsb"][(spec.ns % 3) as usize];
        let at = match m.nss.iter().position(|n| n.name == ns_name) {
            Some(i) => i,
            None => {
                m.nss.push(Ns { name: ns_name.to_string(), upper: false, entities: vec![] });
                m.nss.len() - 1
            }
        };
        let e = make_entity(&mut m, spec, opt, ns_name);
        m.nss[at].entities.push(e);
    }
    m
}

pub struct Candidate {
    pub model: Model,
    pub text: String,
    /// (edit name, intent) of every edit of the step, in order
    pub intents: Vec<(&'static str, Intent)>,
    pub excluded_multi_add: u64,
    /// fields that are new in entities that already existed: entity full name -> field names
    pub new_fields_on_existing: BTreeMap<String, Vec<String>>,
    pub new_entities: usize,
    pub new_namespaces: usize,
}
impl Candidate {
    pub fn items_added(&self) -> usize {
        self.new_namespaces + self.new_entities + self.new_fields_on_existing.values().map(|v| v.len()).sum::<usize>()
    }
    /// entities that receive at least two new fields in this version
    pub fn multi_add_entities(&self) -> Vec<String> {
        self.new_fields_on_existing.iter().filter(|(_, v)| v.len() >= 2).map(|(k, _)| k.clone()).collect()
    }
    pub fn has_valid_change(&self) -> bool {
        self.intents.iter().any(|(_, i)| *i == Intent::Valid)
    }
    pub fn has_invalid(&self) -> bool {
        self.intents.iter().any(|(_, i)| *i == Intent::Invalid)
    }
}

pub fn apply_edits(cur: &Model, edits: &[Edit], opt: &Options) -> Candidate {
    let mut m = cur.clone();
    let mut intents = vec![];
    let mut excluded = 0u64;
    let mut syntax: Option<u8> = None;
    let existing: Vec<String> = cur.entity_names();
    let mut added: BTreeMap<String, usize> = BTreeMap::new();

    // adding a field to an entity that exists in the current accepted version
    let mut may_add = |m: &Model, at: (usize, usize), excluded: &mut u64| -> bool {
        let name = m.name_at(at);
        if !existing.contains(&name) {
            return true;
        }
        let n = added.entry(name).or_insert(0);
        if *n >= 1 && !opt.multi_add {
            *excluded += 1;
            return false;
        }
        *n += 1;
        true
    };

    for e in edits {
        let flat = m.flat();
        let ent_at = |i: u16| -> Option<(usize, usize)> {
            if flat.is_empty() {
                None
            } else {
                Some(flat[pick(i, flat.len())])
            }
        };
        let intent = match e {
            Edit::AddNs { ent } => {
                let ns_name = m.fresh("n");
                let en = make_entity(&mut m, ent, opt, &ns_name);
                m.nss.push(Ns { name: ns_name, upper: false, entities: vec![en] });
                Intent::Valid
            }
            Edit::AddEnt { ns, ent } => {
                if m.nss.is_empty() {
                    Intent::Noop
                } else {
                    let at = pick(*ns, m.nss.len());
                    let ns_name = m.nss[at].name.clone();
                    let en = make_entity(&mut m, ent, opt, &ns_name);
                    m.nss[at].entities.push(en);
                    Intent::Valid
                }
            }
            Edit::AddManyFlds { ent, n, ty } => match ent_at(*ent) {
                Some(at) if opt.multi_add || !existing.contains(&m.name_at(at)) => {
                    for k in 0..*n {
                        let spec = FieldSpec { ty: (*ty + k) % 4, kind: 1 + (k % 2), target: 0, lit: k % 4 };
                        let fld = make_field(&mut m, &spec, opt, true, None);
                        m.ent_mut(at).fields.push(fld);
                    }
                    Intent::Valid
                }
                _ => Intent::Noop,
            },
            Edit::AddFld { ent, f } => match ent_at(*ent) {
                Some(at) if may_add(&m, at, &mut excluded) => {
                    let fld = make_field(&mut m, f, opt, true, None);
                    m.ent_mut(at).fields.push(fld);
                    Intent::Valid
                }
                _ => Intent::Noop,
            },
            Edit::SetKind { ent, fld, kind, lit } => match ent_at(*ent) {
                Some(at) if !m.ent(at).fields.is_empty() => {
                    let fi = pick(*fld, m.ent(at).fields.len());
                    let f = &mut m.ent_mut(at).fields[fi];
                    let old = f.kind.clone();
                    let new = if f.ty.is_ref() {
                        if old == Kind::Nullable {
                            Kind::Plain
                        } else {
                            Kind::Nullable
                        }
                    } else {
                        match kind {
                            0 => Kind::Plain,
                            1 => Kind::Nullable,
                            _ => {
                                if opt.service && f.ty == Ty::Base64 {
                                    Kind::Nullable
                                } else {
                                    let (t, v) = literal(&f.ty, *lit, opt.service);
                                    Kind::Default(t, v)
                                }
                            }
                        }
                    };
                    f.kind = new.clone();
                    if new == old {
                        Intent::Noop
                    } else if f.ty.is_ref() {
                        Intent::Valid
                    } else {
                        match (&old, &new) {
                            (Kind::Nullable, Kind::Plain) => Intent::Invalid,
                            (Kind::Default(..), Kind::Plain) => Intent::Unspecified,
                            (Kind::Default(..), Kind::Default(..)) => Intent::Unspecified,
                            _ => Intent::Valid,
                        }
                    }
                }
                _ => Intent::Noop,
            },
            Edit::DepFld { ent, fld } => match ent_at(*ent) {
                Some(at) if !m.ent(at).fields.is_empty() => {
                    let fi = pick(*fld, m.ent(at).fields.len());
                    let f = &mut m.ent_mut(at).fields[fi];
                    f.deprecated = !f.deprecated;
                    Intent::Valid
                }
                _ => Intent::Noop,
            },
            Edit::DepEnt { ent } => match ent_at(*ent) {
                Some(at) => {
                    let en = m.ent_mut(at);
                    en.deprecated = !en.deprecated;
                    Intent::Valid
                }
                None => Intent::Noop,
            },
            Edit::AddIdx { ent, a, b } => match ent_at(*ent) {
                Some(at) => {
                    let cands: Vec<String> =
                        m.ent(at).fields.iter().filter(|f| f.ty.indexable()).map(|f| f.name.clone()).collect();
                    if cands.is_empty() {
                        Intent::Noop
                    } else {
                        let mut ix = vec![cands[pick(*a, cands.len())].clone()];
                        if let Some(b) = b {
                            let second = cands[pick(*b, cands.len())].clone();
                            if second != ix[0] {
                                ix.push(second);
                            } else {
                                ix.push("mdate".to_string());
                            }
                        }
                        if m.ent(at).indexes.contains(&ix) {
                            Intent::Noop
                        } else {
                            m.ent_mut(at).indexes.push(ix);
                            Intent::Valid
                        }
                    }
                }
                None => Intent::Noop,
            },
            Edit::DelIdx { ent, idx } => match ent_at(*ent) {
                Some(at) if !m.ent(at).indexes.is_empty() => {
                    let i = pick(*idx, m.ent(at).indexes.len());
                    m.ent_mut(at).indexes.remove(i);
                    Intent::Valid
                }
                _ => Intent::Noop,
            },
            Edit::Fts { ent } => match ent_at(*ent) {
                Some(at) => {
                    let en = m.ent_mut(at);
                    en.no_fts = !en.no_fts;
                    Intent::Valid
                }
                None => Intent::Noop,
            },
            Edit::Recase { ns } => {
                let named: Vec<usize> = (0..m.nss.len()).filter(|i| !m.nss[*i].name.is_empty()).collect();
                if named.is_empty() {
                    Intent::Noop
                } else {
                    let i = named[pick(*ns, named.len())];
                    m.nss[i].upper = !m.nss[i].upper;
                    Intent::Valid
                }
            }
            Edit::DelFld { ent, fld } => match ent_at(*ent) {
                Some(at) if !m.ent(at).fields.is_empty() => {
                    let fi = pick(*fld, m.ent(at).fields.len());
                    m.ent_mut(at).fields.remove(fi);
                    Intent::Invalid
                }
                _ => Intent::Noop,
            },
            Edit::DelEnt { ent } => match ent_at(*ent) {
                Some(at) => {
                    m.nss[at.0].entities.remove(at.1);
                    Intent::Invalid
                }
                None => Intent::Noop,
            },
            Edit::DelNs { ns } => {
                if m.nss.is_empty() {
                    Intent::Noop
                } else {
                    let i = pick(*ns, m.nss.len());
                    m.nss.remove(i);
                    Intent::Invalid
                }
            }
            Edit::SwapFld { ent, a, b } => match ent_at(*ent) {
                Some(at) if m.ent(at).fields.len() >= 2 => {
                    let n = m.ent(at).fields.len();
                    let x = pick(*a, n);
                    let mut y = pick(*b, n - 1);
                    if y >= x {
                        y += 1;
                    }
                    m.ent_mut(at).fields.swap(x, y);
                    Intent::Invalid
                }
                _ => Intent::Noop,
            },
            Edit::SwapEnt { ns, a, b } => {
                let big: Vec<usize> = (0..m.nss.len()).filter(|i| m.nss[*i].entities.len() >= 2).collect();
                if big.is_empty() {
                    Intent::Noop
                } else {
                    let i = big[pick(*ns, big.len())];
                    let n = m.nss[i].entities.len();
                    let x = pick(*a, n);
                    let mut y = pick(*b, n - 1);
                    if y >= x {
                        y += 1;
                    }
                    m.nss[i].entities.swap(x, y);
                    Intent::Invalid
                }
            }
            Edit::SwapNs { a, b } => {
                let n = m.nss.len();
                if n < 2 {
                    Intent::Noop
                } else {
                    let x = pick(*a, n);
                    let mut y = pick(*b, n - 1);
                    if y >= x {
                        y += 1;
                    }
                    m.nss.swap(x, y);
                    Intent::Invalid
                }
            }
            Edit::InsFld { ent, pos, f } => match ent_at(*ent) {
                Some(at) if !m.ent(at).fields.is_empty() && may_add(&m, at, &mut excluded) => {
                    let fld = make_field(&mut m, f, opt, true, None);
                    let p = pick(*pos, m.ent(at).fields.len());
                    m.ent_mut(at).fields.insert(p, fld);
                    Intent::Invalid
                }
                _ => Intent::Noop,
            },
            Edit::Retype { ent, fld, ty } => match ent_at(*ent) {
                Some(at) if !m.ent(at).fields.is_empty() => {
                    let fi = pick(*fld, m.ent(at).fields.len());
                    let names = m.entity_names();
                    let f = &mut m.ent_mut(at).fields[fi];
                    let old = f.ty.clone();
                    let new = match ty {
                        6 => Ty::Ent(names[pick(*fld, names.len())].clone()),
                        7 => Ty::Arr(names[pick(*fld, names.len())].clone()),
                        t => scalar_ty(*t, opt.service),
                    };
                    if new == old {
                        Intent::Noop
                    } else {
                        f.ty = new.clone();
                        // keep the text well formed: a default literal must fit the new type
                        if let Kind::Default(..) = f.kind {
                            if new.is_ref() || (opt.service && new == Ty::Base64) {
                                f.kind = Kind::Nullable;
                            } else {
                                let (t, v) = literal(&new, 0, opt.service);
                                f.kind = Kind::Default(t, v);
                            }
                        }
                        Intent::Invalid
                    }
                }
                _ => Intent::Noop,
            },
            Edit::AddPlain { ent, ty } => match ent_at(*ent) {
                Some(at) if may_add(&m, at, &mut excluded) => {
                    let existed = existing.contains(&m.name_at(at));
                    let name = m.fresh("f");
                    m.ent_mut(at).fields.push(Fld {
                        name,
                        ty: scalar_ty(*ty, opt.service),
                        kind: Kind::Plain,
                        deprecated: false,
                    });
                    // a plain field in an entity created by the same version is fine
                    if existed {
                        Intent::Invalid
                    } else {
                        Intent::Valid
                    }
                }
                _ => Intent::Noop,
            },
            Edit::BadName { ent, kind } => match ent_at(*ent) {
                Some(at) => {
                    match kind % 6 {
                        0 | 1 | 2 => {
                            if may_add(&m, at, &mut excluded) {
                                let name = match kind % 6 {
                                    0 => "_hidden",
                                    1 => ["String", "json", "Boolean", "float"][(*ent % 4) as usize],
                                    _ => ["id", "room_id", "mdate", "cdate", "_json", "verifying_key"][(*ent % 6) as usize],
                                };
                                m.ent_mut(at).fields.push(Fld {
                                    name: name.to_string(),
                                    ty: Ty::Integer,
                                    kind: Kind::Nullable,
                                    deprecated: false,
                                });
                                Intent::Invalid
                            } else {
                                Intent::Noop
                            }
                        }
                        3 => {
                            let ns = at.0;
                            m.nss[ns].entities.push(Ent {
                                name: ["Integer", "base64", "Json"][(*ent % 3) as usize].to_string(),
                                deprecated: false,
                                no_fts: false,
                                fields: vec![Fld { name: "x".into(), ty: Ty::Integer, kind: Kind::Nullable, deprecated: false }],
                                indexes: vec![],
                            });
                            Intent::Invalid
                        }
                        4 => {
                            m.nss.push(Ns {
                                name: "sys".into(),
                                upper: false,
                                entities: vec![Ent {
                                    name: "Extra".into(),
                                    deprecated: false,
                                    no_fts: false,
                                    fields: vec![Fld { name: "x".into(), ty: Ty::Integer, kind: Kind::Nullable, deprecated: false }],
                                    indexes: vec![],
                                }],
                            });
                            Intent::Invalid
                        }
                        _ => {
                            if may_add(&m, at, &mut excluded) {
                                let name = m.fresh("f");
                                m.ent_mut(at).fields.push(Fld {
                                    name,
                                    ty: Ty::Arr("Boolean".into()),
                                    kind: Kind::Nullable,
                                    deprecated: false,
                                });
                                Intent::Invalid
                            } else {
                                Intent::Noop
                            }
                        }
                    }
                }
                None => Intent::Noop,
            },
            Edit::Dup { ent, fld } => match ent_at(*ent) {
                Some(at) => match fld {
                    Some(f) if !m.ent(at).fields.is_empty() => {
                        let fi = pick(*f, m.ent(at).fields.len());
                        let copy = m.ent(at).fields[fi].clone();
                        m.ent_mut(at).fields.push(copy);
                        Intent::Invalid
                    }
                    _ => {
                        let copy = m.ent(at).clone();
                        m.nss[at.0].entities.push(copy);
                        Intent::Invalid
                    }
                },
                None => Intent::Noop,
            },
            Edit::BadRef { ent } => match ent_at(*ent) {
                Some(at) if may_add(&m, at, &mut excluded) => {
                    let name = m.fresh("f");
                    m.ent_mut(at).fields.push(Fld {
                        name,
                        ty: Ty::Ent("Nowhere".into()),
                        kind: Kind::Nullable,
                        deprecated: false,
                    });
                    Intent::Invalid
                }
                _ => Intent::Noop,
            },
            Edit::BadDefault { ent } => match ent_at(*ent) {
                Some(at) if may_add(&m, at, &mut excluded) => {
                    let name = m.fresh("f");
                    m.ent_mut(at).fields.push(Fld {
                        name,
                        ty: Ty::Integer,
                        kind: Kind::Default("\"text\"".into(), serde_json::Value::Null),
                        deprecated: false,
                    });
                    Intent::Invalid
                }
                _ => Intent::Noop,
            },
            Edit::Syntax { kind } => {
                syntax = Some(*kind);
                Intent::Invalid
            }
            Edit::RenFld { ent, fld } => match ent_at(*ent) {
                Some(at) if !m.ent(at).fields.is_empty() => {
                    let fi = pick(*fld, m.ent(at).fields.len());
                    let name = m.fresh("f");
                    m.ent_mut(at).fields[fi].name = name;
                    Intent::Invalid
                }
                _ => Intent::Noop,
            },
            Edit::RenEnt { ent } => match ent_at(*ent) {
                Some(at) => {
                    let name = m.fresh("E");
                    m.ent_mut(at).name = name;
                    Intent::Invalid
                }
                None => Intent::Noop,
            },
        };
        intents.push((e.name(), intent));
    }

    let mut text = m.render();
    match syntax {
        Some(0) => {
            if let Some(p) = text.rfind('}') {
                text.truncate(p);
            }
        }
        Some(1) => text.push_str(" trailing { garbage"),
        Some(_) => text = text.replacen(':', ";", 1),
        None => {}
    }

    // what the candidate adds relative to the current accepted version (by names)
    let mut new_fields_on_existing: BTreeMap<String, Vec<String>> = BTreeMap::new();
    let mut new_entities = 0;
    let mut new_namespaces = 0;
    for ns in &m.nss {
        if !cur.nss.iter().any(|n| n.name == ns.name) {
            new_namespaces += 1;
        }
        for en in &ns.entities {
            let full = full_name(&ns.name, &en.name);
            match cur.find(&full) {
                None => new_entities += 1,
                Some(old) => {
                    let nf: Vec<String> = en
                        .fields
                        .iter()
                        .filter(|f| !old.fields.iter().any(|o| o.name == f.name))
                        .map(|f| f.name.clone())
                        .collect();
                    if !nf.is_empty() {
                        new_fields_on_existing.insert(full, nf);
                    }
                }
            }
        }
    }

    Candidate {
        model: m,
        text,
        intents,
        excluded_multi_add: excluded,
        new_fields_on_existing,
        new_entities,
        new_namespaces,
    }
}
