//! C15: changing the data model never loses data; a refused change changes nothing.

mod ast;
mod check;
mod gen;
mod service;

use check::ModelState;
use dv::engine::*;
use gen::*;
use proptest::strategy::BoxedStrategy;

struct C15;

impl Property for C15 {
    type Case = Case;
    const ID: &'static str = "C15";

    fn plan(tier: Tier) -> Plan {
        match tier {
            Tier::Quick => Plan { shards: 16, cases_per_shard: 6500, max_shrink_iters: 300 },
            Tier::Thorough => Plan { shards: 16, cases_per_shard: 40_000, max_shrink_iters: 600 },
        }
    }

    fn strategy(tier: Tier) -> BoxedStrategy<Case> {
        // development aid (never set by the registered commands): share of service cases
        if let Some(n) = std::env::var("C15_SERVICE_ONE_IN").ok().and_then(|s| s.parse::<u32>().ok()) {
            return case_strategy(n.max(1), 8, 6);
        }
        match tier {
            Tier::Quick => case_strategy(250, 8, 6),
            Tier::Thorough => case_strategy(100, 14, 10),
        }
    }

    fn run(case: &Case, ctx: &RunCtx) -> Outcome {
        let mut o = Outcome::default();
        o.label(if case.service { "path:service" } else { "path:model-only" });
        if case.multi_add {
            o.label("switch:several-new-fields-per-entity-allowed");
        }
        let mut st = match ModelState::new(case, &mut o) {
            Some(s) => s,
            None => return o,
        };
        if case.service {
            service::run_service(case, ctx, &mut st, &mut o);
        } else {
            for step in &case.steps {
                let cand = st.candidate(step, &mut o);
                if std::env::var("C15_TRACE").is_ok() {
                    eprintln!("--- candidate:\n{}", cand.text);
                }
                let rep = st.apply(&cand, &mut o);
                if rep.stop {
                    o.label("stopped-early");
                    break;
                }
            }
        }
        st.finish(&mut o);
        o
    }

    fn rule() -> String {
        "a case is an initial model (1-4 entities over up to 3 namespaces, scalar/reference fields, indexes) and a sequence of steps; a step is 1-4 edits applied to the last ACCEPTED version (add namespace/entity/field, plain/nullable/default changes, deprecations, index add/remove, full text switch, namespace case; and removals, swaps, insertions, retypes, missing defaults, reserved/system/duplicate names, unknown references, bad default literals, syntax damage, renames), rendered to text. Acceptance is decided by the code's own update on a copy. Model-only path: three separate DataModel values (one reloaded from JSON before each update, like the service) apply every version; service path (one case in 250 quick / 100 thorough): a real instance holding rows applies the versions through update_data_model or at start-up, is restarted, and a second instance applies the accepted versions. non-trivial = an accepted version adds >= 2 items (namespaces, entities, fields) at once, or a version that parses on its own is refused by the update while the model holds >= 2 entities; distinct = distinct case digest".to_string()
    }

    fn assumptions() -> Vec<String> {
        vec![
            "which edits are legal is not judged: acceptance is the code's own decision on a copy (DataModel::update after update_system); the oracles are about identifiers, stored rows, atomicity of refusals and restarts".into(),
            "identifiers of an upgraded instance are also compared with those of an instance that starts directly with the last accepted version (a fresh install must agree with upgraded peers)".into(),
            "service path: Integer, Float, Boolean, String and Base64 fields (no Json, no Base64 default); rows are read through the query API with a unique query text (the instance caches parsed queries by text), the cached text is checked separately; a Boolean default read as 1/0 is tolerated and counted".into(),
            "the text kept in the `model` field of the in-memory value after a refusal (system model text) is counted, not reported".into(),
        ]
    }
}

fn main() {
    main_for::<C15>()
}
