//! The harness' own representation of a data model version: an ordered tree
//! (namespaces -> entities -> fields/indexes) that is rendered to the text the parser reads.
//! Declaration order is explicit here, which is what the reference for short identifiers needs.

use serde_json::Value;

#[derive(Clone, Debug, PartialEq)]
pub enum Ty {
    Integer,
    Float,
    Boolean,
    Str,
    Base64,
    Json,
    /// single reference to an entity (full name)
    Ent(String),
    /// array of references
    Arr(String),
}
impl Ty {
    pub fn is_ref(&self) -> bool {
        matches!(self, Ty::Ent(_) | Ty::Arr(_))
    }
    pub fn indexable(&self) -> bool {
        matches!(self, Ty::Integer | Ty::Float | Ty::Boolean | Ty::Str | Ty::Base64)
    }
    pub fn render(&self) -> String {
        match self {
            Ty::Integer => "Integer".into(),
            Ty::Float => "Float".into(),
            Ty::Boolean => "Boolean".into(),
            Ty::Str => "String".into(),
            Ty::Base64 => "Base64".into(),
            Ty::Json => "Json".into(),
            Ty::Ent(e) => e.clone(),
            Ty::Arr(e) => format!("[{}]", e),
        }
    }
}

/// the three states the grammar allows for a scalar: `T`, `T nullable`, `T default lit`
#[derive(Clone, Debug, PartialEq)]
pub enum Kind {
    Plain,
    Nullable,
    /// literal exactly as written in the model text (quotes included for strings) and the
    /// value a query is expected to return for it
    Default(String, Value),
}

#[derive(Clone, Debug, PartialEq)]
pub struct Fld {
    pub name: String,
    pub ty: Ty,
    pub kind: Kind,
    pub deprecated: bool,
}

#[derive(Clone, Debug, PartialEq)]
pub struct Ent {
    /// name without namespace
    pub name: String,
    pub deprecated: bool,
    pub no_fts: bool,
    pub fields: Vec<Fld>,
    pub indexes: Vec<Vec<String>>,
}

#[derive(Clone, Debug, PartialEq)]
pub struct Ns {
    /// lower case; "" is the default namespace
    pub name: String,
    /// render the name with an upper case first letter (the parser lower-cases namespaces)
    pub upper: bool,
    pub entities: Vec<Ent>,
}

#[derive(Clone, Debug, PartialEq, Default)]
pub struct Model {
    pub nss: Vec<Ns>,
    /// monotone counter used for fresh names
    pub next: usize,
}

pub fn full_name(ns: &str, ent: &str) -> String {
    if ns.is_empty() {
        ent.to_string()
    } else {
        format!("{}.{}", ns, ent)
    }
}

impl Model {
    /// flat list of (namespace index, entity index) in declaration order
    pub fn flat(&self) -> Vec<(usize, usize)> {
        let mut v = vec![];
        for (i, ns) in self.nss.iter().enumerate() {
            for (j, _) in ns.entities.iter().enumerate() {
                v.push((i, j));
            }
        }
        v
    }
    pub fn ent(&self, at: (usize, usize)) -> &Ent {
        &self.nss[at.0].entities[at.1]
    }
    pub fn ent_mut(&mut self, at: (usize, usize)) -> &mut Ent {
        &mut self.nss[at.0].entities[at.1]
    }
    pub fn name_at(&self, at: (usize, usize)) -> String {
        full_name(&self.nss[at.0].name, &self.nss[at.0].entities[at.1].name)
    }
    pub fn entity_names(&self) -> Vec<String> {
        self.flat().into_iter().map(|a| self.name_at(a)).collect()
    }
    pub fn find(&self, full: &str) -> Option<&Ent> {
        self.flat().into_iter().find(|a| self.name_at(*a) == full).map(|a| self.ent(a))
    }
    pub fn fresh(&mut self, prefix: &str) -> String {
        let n = self.next;
        self.next += 1;
        format!("{}{}", prefix, n)
    }

    pub fn render(&self) -> String {
        let mut s = String::new();
        for ns in &self.nss {
            if !ns.name.is_empty() {
                if ns.upper {
                    let mut c = ns.name.chars();
                    let first = c.next().unwrap().to_uppercase().collect::<String>();
                    s.push_str(&first);
                    s.push_str(c.as_str());
                } else {
                    s.push_str(&ns.name);
                }
                s.push(' ');
            }
            s.push_str("{\n");
            for e in &ns.entities {
                s.push_str("  ");
                if e.deprecated {
                    s.push_str("@deprecated ");
                }
                s.push_str(&e.name);
                if e.no_fts {
                    s.push_str("(no_full_text_index)");
                }
                s.push_str(" {\n");
                let mut entries: Vec<String> = vec![];
                for f in &e.fields {
                    let mut l = String::from("    ");
                    if f.deprecated {
                        l.push_str("@deprecated ");
                    }
                    l.push_str(&f.name);
                    l.push_str(": ");
                    l.push_str(&f.ty.render());
                    match &f.kind {
                        Kind::Plain => {}
                        Kind::Nullable => l.push_str(" nullable"),
                        Kind::Default(lit, _) => {
                            l.push_str(" default ");
                            l.push_str(lit);
                        }
                    }
                    entries.push(l);
                }
                for ix in &e.indexes {
                    entries.push(format!("    index({})", ix.join(", ")));
                }
                s.push_str(&entries.join(",\n"));
                s.push_str("\n  }\n");
            }
            s.push_str("}\n");
        }
        s
    }
}

/// literal pool per scalar type: (text in the model, value a query returns for it)
pub fn literal(ty: &Ty, i: u8, simple: bool) -> (String, Value) {
    let i = i as usize;
    match ty {
        Ty::Integer => {
            let v = [0i64, -3, 42, 7][i % 4];
            (v.to_string(), Value::from(v))
        }
        Ty::Float => {
            let (t, v) = [("1.5", 1.5f64), ("-2.25", -2.25), ("10", 10.0), ("0.0", 0.0)][i % 4];
            (t.to_string(), Value::from(v))
        }
        Ty::Boolean => {
            let v = i % 2 == 0;
            (v.to_string(), Value::from(v))
        }
        Ty::Str => {
            let pool: &[&str] = if simple { &["", "abc", "x y", "Zed9"] } else { &["", "abc", "x y", "d\u{e9}j\u{e0}"] };
            let v = pool[i % 4];
            (format!("\"{}\"", v), Value::from(v))
        }
        Ty::Base64 => {
            let v = ["AQID", "", "_-8", "AAAA"][i % 4];
            (format!("\"{}\"", v), Value::from(v))
        }
        Ty::Json => {
            let (t, v) = [("\"{}\"", "{}"), ("\"[1,2]\"", "[1,2]"), ("\"{\\\"a\\\":1}\"", "{\"a\":1}"), ("\"[]\"", "[]")][i % 4];
            (t.to_string(), Value::from(v))
        }
        Ty::Ent(_) | Ty::Arr(_) => (String::new(), Value::Null),
    }
}
