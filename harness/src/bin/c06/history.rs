//! "Every row that can be synchronised carries a signature that verifies against the row exactly as
//! stored", over histories: real instances, local writes of every shape by several users holding the
//! all-rows right (so rows are changed, re-dated, moved and unlinked by users who did not author them),
//! room changes, pulls in both directions. After every step every stored node, reference and deletion
//! record of every peer is rebuilt from the tables and handed to the library's own verify().
use discret::verif as dvv;
use dv::engine::*;
use dv::syncworld::*;
use dv::world::*;
use dvv::database::edge::{Edge, EdgeDeletionEntry};
use dvv::database::node::{Node, NodeDeletionEntry};
use proptest::prelude::*;
use serde::{Deserialize, Serialize};
use std::collections::BTreeSet;

#[derive(Clone, Debug, Serialize, Deserialize)]
pub struct HistoryCase {
    pub peers: u8,
    pub ops: Vec<Op>,
}

pub fn strategy(max_ops: usize) -> BoxedStrategy<HistoryCase> {
    (2u8..4)
        .prop_flat_map(move |peers| (Just(peers), proptest::collection::vec(op_strategy(peers, 2), 4..max_ops)))
        .prop_map(|(peers, mut ops)| {
            // every history starts with rows of both entities held by two users
            // (row indices are mapped monotonically onto the rows that exist: of three rows, 0 is the first,
            // 21846 the second, 43691 the third)
            let item = |text: u8| Action::Create { entity: 0, room: 0, text, parent: None };
            let head = vec![
                Op::Write { peer: 0, dt: 3, action: item(1) },
                Op::Write { peer: 0, dt: 3, action: item(2) },
                Op::Write { peer: 0, dt: 3, action: item(3) },
                Op::Write { peer: 0, dt: 3, action: Action::AddLink { row: 0, target: 43691 } },
                Op::Write { peer: 0, dt: 3, action: Action::SetParent { row: 43691, target: Some(0) } },
                Op::Sync { puller: 1, server: 0 },
                // another user removes references from rows it did not author, and changes one
                Op::Write { peer: 1, dt: 3, action: Action::DeleteLink { row: 0, target: 43691 } },
                Op::Write { peer: 1, dt: 3, action: Action::SetParent { row: 43691, target: None } },
                Op::Write { peer: 1, dt: 3, action: Action::Update { row: 21846, value: 3 } },
                Op::Write { peer: 1, dt: 3, action: Action::Create { entity: 1, room: 1, text: 3, parent: Some(0) } },
                Op::Sync { puller: 0, server: 1 },
            ];
            ops.splice(0..0, head);
            HistoryCase { peers, ops }
        })
        .boxed()
}

fn uid(s: &str) -> [u8; 16] {
    uid_of(s)
}

pub fn run(case: &HistoryCase, ctx: &RunCtx) -> Outcome {
    begin_case(1);
    let dir = ctx.case_dir("c06h");
    let rt = runtime();
    let out = rt.block_on(async {
        let mut o = Outcome::default();
        let mut w = match SyncWorld::start(case.peers as usize, 2, &dir).await {
            Ok(w) => w,
            Err(e) => {
                o.discard = Some(e);
                return o;
            }
        };
        let mut seen: BTreeSet<String> = BTreeSet::new();
        let mut foreign_change = false;
        for (i, op) in case.ops.iter().enumerate() {
            let info = w.apply(op).await;
            if !info.applied {
                continue;
            }
            o.count(&format!("op:{}", info.kind), 1);
            for p in &w.peers {
                let snap = p.snapshot().await.user_data();
                // rows held under a key that is not the peer's own, or rows of this peer changed by others
                for n in &snap.nodes {
                    let node = Node {
                        id: uid(&n.id),
                        room_id: n.room.as_deref().map(uid),
                        cdate: n.cdate,
                        mdate: n.mdate,
                        _entity: n.entity.clone(),
                        _json: n.json.clone(),
                        _binary: None,
                        verifying_key: unb64(&n.key),
                        _signature: unb64(&n.sig),
                        ..Default::default()
                    };
                    o.count("rows-verified", 1);
                    if n.cdate != n.mdate && n.key != p.key64() {
                        foreign_change = true;
                    }
                    if let Err(e) = node.verify() {
                        let sig = format!("stored-row-does-not-verify:node:after:{}", info.kind);
                        if seen.insert(sig.clone()) {
                            o.violation(sig, format!("step {} {:?}, {}: node {} ({}) mdate {}: {}", i, op, p.name, n.id, n.entity, n.mdate, e));
                        }
                    }
                }
                for e in &snap.edges {
                    let edge = Edge {
                        src: uid(&e.src),
                        src_entity: e.src_entity.clone(),
                        label: e.label.clone(),
                        dest: uid(&e.dest),
                        cdate: e.cdate,
                        verifying_key: unb64(&e.key),
                        signature: unb64(&e.sig),
                    };
                    o.count("rows-verified", 1);
                    if let Err(err) = edge.verify() {
                        let sig = format!("stored-row-does-not-verify:reference:after:{}", info.kind);
                        if seen.insert(sig.clone()) {
                            o.violation(sig, format!("step {} {:?}, {}: reference {}-{}->{}: {}", i, op, p.name, e.src, e.label, e.dest, err));
                        }
                    }
                }
                for d in &snap.node_dels {
                    let rec = NodeDeletionEntry {
                        room_id: uid(&d.room),
                        id: uid(&d.id),
                        entity: d.entity.clone(),
                        mdate: d.mdate,
                        deletion_date: d.deletion_date,
                        verifying_key: unb64(&d.key),
                        signature: unb64(&d.sig),
                        entity_name: None,
                    };
                    o.count("rows-verified", 1);
                    if let Err(err) = rec.verify() {
                        let sig = format!("stored-row-does-not-verify:node-deletion:after:{}", info.kind);
                        if seen.insert(sig.clone()) {
                            o.violation(sig, format!("step {} {:?}, {}: deletion record of {}: {}", i, op, p.name, d.id, err));
                        }
                    }
                }
                for d in &snap.edge_dels {
                    let rec = EdgeDeletionEntry {
                        room_id: uid(&d.room),
                        src: uid(&d.src),
                        src_entity: d.src_entity.clone(),
                        dest: uid(&d.dest),
                        label: d.label.clone(),
                        cdate: d.cdate,
                        deletion_date: d.deletion_date,
                        verifying_key: unb64(&d.key),
                        signature: unb64(&d.sig),
                        entity_name: None,
                    };
                    o.count("rows-verified", 1);
                    if let Err(err) = rec.verify() {
                        let sig = format!("stored-row-does-not-verify:reference-deletion:after:{}", info.kind);
                        if seen.insert(sig.clone()) {
                            o.violation(sig, format!("step {} {:?}, {}: reference deletion record {}-{}->{}: {}", i, op, p.name, d.src, d.label, d.dest, err));
                        }
                    }
                }
            }
        }
        o.label("history");
        if foreign_change {
            o.label("history:row-changed-by-another-user");
        }
        o.nontrivial = foreign_change;
        o
    });
    drop(rt);
    let _ = std::fs::remove_dir_all(&dir);
    out
}
