//! proptest strategies: rows of the four signed kinds and transforms.

use crate::rows::*;
use crate::transform::*;
use proptest::prelude::*;

/// 2024-01-01T00:00:00Z
const T0: i64 = 1_704_067_200_000;

fn printable() -> impl Strategy<Value = u8> {
    0x21u8..0x7f
}

pub fn uid(ascii: bool) -> BoxedStrategy<Hex> {
    if ascii {
        proptest::collection::vec(printable(), 16).prop_map(Hex).boxed()
    } else {
        prop_oneof![
            6 => proptest::collection::vec(any::<u8>(), 16).prop_map(Hex),
            1 => proptest::collection::vec(printable(), 16).prop_map(Hex),
        ]
        .boxed()
    }
}

pub fn date(ascii: bool) -> BoxedStrategy<i64> {
    let asc = proptest::collection::vec(printable(), 8).prop_map(|v| {
        let mut x = [0u8; 8];
        x.copy_from_slice(&v);
        i64::from_le_bytes(x)
    });
    if ascii {
        asc.boxed()
    } else {
        prop_oneof![
            8 => (0i64..(4 * 365 * 86_400_000)).prop_map(|d| T0 + d),
            1 => 0i64..1000,
            1 => any::<i64>(),
            1 => asc,
        ]
        .boxed()
    }
}

const NAMES: &[&str] = &[
    "Person", "ns.Entity", "0.1", "a", "sys.Room", "parents", "pet", "1.5", "ab", "$deleted",
];
const FRAGS: &[&str] = &[
    "\"{}\"",
    "\"{\\\"a\\\":1}\"",
    "\" {}\"",
    " ",
    "  ",
    "\"",
    "\\",
    "{",
    "}",
    "é",
    "中",
    "😀",
    "\u{0}",
    "\n",
];

/// strings: identifiers, printable text of varied length, text with quotes / escapes / multi-byte
/// characters, text embedding the JSON string literal of an object
pub fn text(min: usize) -> BoxedStrategy<String> {
    let ascii = move |lo: usize, hi: usize| {
        proptest::collection::vec(printable(), lo.max(min)..hi.max(min + 1))
            .prop_map(|v| String::from_utf8(v).unwrap())
    };
    let mixed = proptest::collection::vec(
        prop_oneof![
            4 => printable().prop_map(|b| (b as char).to_string()),
            2 => (0..FRAGS.len()).prop_map(|i| FRAGS[i].to_string()),
            1 => (0..NAMES.len()).prop_map(|i| NAMES[i].to_string()),
        ],
        min.max(1)..(min + 8),
    )
    .prop_map(|v| v.concat());
    prop_oneof![
        3 => (0..NAMES.len()).prop_map(move |i| {
            let mut s = NAMES[i].to_string();
            while s.len() < min { s.push('x'); }
            s
        }),
        3 => ascii(1, 8),
        3 => ascii(17, 48),
        3 => mixed,
    ]
    .boxed()
}

fn json_value(depth: u32) -> BoxedStrategy<String> {
    let scalar = prop_oneof![
        (0u32..1000).prop_map(|n| n.to_string()),
        Just("null".to_string()),
        Just("true".to_string()),
        text(0).prop_map(|s| serde_json::to_string(&s).unwrap()),
    ];
    if depth == 0 {
        scalar.boxed()
    } else {
        prop_oneof![
            3 => scalar,
            1 => json_object(depth - 1),
            1 => proptest::collection::vec(json_value(depth - 1), 0..3)
                .prop_map(|v| format!("[{}]", v.join(","))),
        ]
        .boxed()
    }
}
fn json_object(depth: u32) -> BoxedStrategy<String> {
    proptest::collection::vec((text(0), json_value(depth)), 0..4)
        .prop_map(|m| {
            let inner: Vec<String> = m
                .into_iter()
                .enumerate()
                .map(|(i, (k, v))| format!("{}:{}", serde_json::to_string(&format!("{}{}", k, i)).unwrap(), v))
                .collect();
            format!("{{{}}}", inner.join(","))
        })
        .boxed()
}
fn ws() -> impl Strategy<Value = String> {
    prop_oneof![
        6 => Just(String::new()),
        2 => Just(" ".to_string()),
        1 => Just("  \n".to_string()),
        1 => Just("\t".to_string()),
    ]
}
/// the `_json` column: always a JSON object, sometimes surrounded by white space
pub fn json() -> BoxedStrategy<Option<String>> {
    prop_oneof![
        2 => Just(None),
        1 => Just(Some("{}".to_string())),
        5 => (ws(), json_object(1), ws()).prop_map(|(a, j, b)| Some(format!("{}{}{}", a, j, b))),
    ]
    .boxed()
}

pub fn binary(ascii: bool) -> BoxedStrategy<Option<Hex>> {
    let lit = (json_object(0), proptest::collection::vec(any::<u8>(), 0..8)).prop_map(|(j, tail)| {
        let mut v = json_literal(&j);
        v.extend(tail);
        Some(Hex(v))
    });
    let txt = (ws(), text(1)).prop_map(|(w, s)| Some(Hex(format!("{}{}", w, s).into_bytes())));
    if ascii {
        prop_oneof![1 => Just(None), 1 => Just(Some(Hex(vec![]))), 3 => txt, 1 => lit].boxed()
    } else {
        prop_oneof![
            3 => Just(None),
            1 => Just(Some(Hex(vec![]))),
            3 => proptest::collection::vec(any::<u8>(), 1..40).prop_map(|v| Some(Hex(v))),
            2 => txt,
            1 => lit,
        ]
        .boxed()
    }
}

pub fn node(ascii: bool) -> BoxedStrategy<Row> {
    (
        uid(ascii),
        proptest::option::weighted(0.7, uid(ascii)),
        date(ascii),
        date(ascii),
        text(1),
        json(),
        binary(ascii),
    )
        .prop_map(|(id, room_id, cdate, mdate, entity, json, binary)| {
            Row::Node(NodeR { id, room_id, cdate, mdate, entity, json, binary })
        })
        .boxed()
}
pub fn edge(ascii: bool) -> BoxedStrategy<Row> {
    (uid(ascii), text(1), text(1), uid(ascii), date(ascii))
        .prop_map(|(src, src_entity, label, dest, cdate)| Row::Edge(EdgeR { src, src_entity, label, dest, cdate }))
        .boxed()
}
pub fn node_del(ascii: bool) -> BoxedStrategy<Row> {
    (uid(ascii), uid(ascii), date(ascii), text(1), date(ascii))
        .prop_map(|(room_id, id, mdate, entity, deletion_date)| {
            Row::NodeDel(NodeDelR { room_id, id, mdate, entity, deletion_date })
        })
        .boxed()
}
pub fn edge_del(ascii: bool) -> BoxedStrategy<Row> {
    (uid(ascii), uid(ascii), text(1), text(1), uid(ascii), date(ascii), date(ascii))
        .prop_map(|(room_id, src, src_entity, label, dest, cdate, deletion_date)| {
            Row::EdgeDel(EdgeDelR { room_id, src, src_entity, label, dest, cdate, deletion_date })
        })
        .boxed()
}

pub fn row_of(kind: Kind, ascii: bool) -> BoxedStrategy<Row> {
    match kind {
        Kind::Node => node(ascii),
        Kind::Edge => edge(ascii),
        Kind::NodeDel => node_del(ascii),
        Kind::EdgeDel => edge_del(ascii),
    }
}

pub fn any_row() -> BoxedStrategy<Row> {
    let mut v = vec![];
    for k in Kind::ALL {
        v.push(row_of(k, false));
        v.push(row_of(k, true));
    }
    proptest::strategy::Union::new(v).boxed()
}

fn kind_s() -> impl Strategy<Value = Kind> {
    (0usize..4).prop_map(|i| Kind::ALL[i])
}

fn field_t() -> BoxedStrategy<Transform> {
    (any::<u16>(), any::<u8>(), any::<u16>(), any::<u8>())
        .prop_map(|(field, op, pos, val)| Transform::Field { field, op, pos, val })
        .boxed()
}
fn shift_t() -> BoxedStrategy<Transform> {
    (
        any::<u16>(),
        any::<bool>(),
        prop_oneof![3 => 0u16..4096, 1 => any::<u16>()],
        prop_oneof![2 => Just(ShiftMode::Move), 1 => Just(ShiftMode::Copy), 1 => Just(ShiftMode::Drop)],
    )
        .prop_map(|(boundary, to_right, k, mode)| Transform::Shift { boundary, to_right, k, mode })
        .boxed()
}
fn toggle_t() -> BoxedStrategy<Transform> {
    (any::<u16>(), 0u8..3, any::<u16>())
        .prop_map(|(which, mode, pos)| Transform::Toggle { which, mode, pos })
        .boxed()
}
fn reslice_t(same: Option<Kind>) -> BoxedStrategy<Transform> {
    let target = match same {
        Some(k) => Just(k).boxed(),
        None => kind_s().boxed(),
    };
    (target, any::<bool>(), prop::bool::weighted(0.3), prop::bool::weighted(0.7), any::<u16>(), any::<bool>())
        .prop_map(|(target, room, json, binary, cut, snap)| Transform::Reslice { target, room, json, binary, cut, snap })
        .boxed()
}

/// (row, transform): the transform families offered depend on the kind (a node-deletion record
/// has one variable-length field and no optional one)
pub fn pair() -> BoxedStrategy<(Row, Transform)> {
    let mut arms: Vec<BoxedStrategy<(Row, Transform)>> = vec![];
    for (kind, ascii) in Kind::ALL.iter().flat_map(|k| [(*k, false), (*k, true)]) {
        let t: BoxedStrategy<Transform> = match kind {
            Kind::Node => prop_oneof![
                4 => field_t(),
                3 => shift_t(),
                3 => toggle_t(),
                2 => reslice_t(Some(Kind::Node)),
                3 => reslice_t(None),
            ]
            .boxed(),
            Kind::Edge | Kind::EdgeDel => prop_oneof![
                4 => field_t(),
                3 => shift_t(),
                1 => reslice_t(Some(kind)),
                4 => reslice_t(None),
            ]
            .boxed(),
            Kind::NodeDel => prop_oneof![
                4 => field_t(),
                4 => reslice_t(None),
            ]
            .boxed(),
        };
        arms.push((row_of(kind, ascii), t).boxed());
    }
    proptest::strategy::Union::new(arms).boxed()
}
