//! C06: a signature binds exactly one row and only its author can produce it.
//!
//! Part 1 (in memory): a row A of one of the four signed kinds is signed with a harness key by
//! the real signing code; a row B != A is derived from A by a transform (one field changed, bytes
//! moved across a boundary of two variable-length fields, an optional field toggled with or
//! without compensation in the neighbours, the digest bytes re-sliced as another kind). B carrying
//! A's signature and key must be rejected by verify() and by the batch checks of
//! SignatureVerificationService.
//!
//! Part 2 (real instance): every signing request is sent to a running instance; the signature it
//! returns, placed on a row the instance never authored, must not verify.

mod gen;
mod history;
mod oracle;
mod rows;
mod stored;
mod transform;

use dv::engine::*;
use proptest::prelude::*;
use proptest::strategy::BoxedStrategy;
use rows::*;
use serde::{Deserialize, Serialize};
use transform::*;

#[derive(Clone, Debug, Serialize, Deserialize)]
pub struct PairCase {
    /// harness key that signs
    pub key: u8,
    pub a: Row,
    pub t: Transform,
    /// the derived row is the one that is signed and the original is the forgery candidate
    pub swap: bool,
    /// false (most cases): pairs of a shape already recorded as a known finding are not decided
    /// again (counted as excluded)
    pub known_shapes: bool,
    /// position of the forged row in the batch given to the verification service (0..3)
    pub batch_pos: u8,
    /// also store the signed row in SQLite, read it back and verify it
    pub store: bool,
}

#[derive(Clone, Debug, Serialize, Deserialize)]
pub enum Case {
    Pair(PairCase),
    Oracle(oracle::OracleCase),
    /// histories on real instances: every stored row verifies after every step
    History(history::HistoryCase),
}

/// shapes confirmed against the real code: consequences of the digest being the plain
/// concatenation of the fields. A pair is of a known shape only when the two digest inputs are
/// byte-identical (nothing else can be wrong with such a pair) and its signature is listed here.
const KNOWN_SHAPES: &[&str] = &[
    "collision:node:_entity|_binary",
    "collision:node:_entity|_json",
    "collision:node:_json|_binary",
    "collision:node:_entity|_json|_binary",
    "collision:node:field:_binary:none-vs-empty",
    "collision:node:room_id|cdate|mdate|_entity",
    "collision:node:room_id|cdate|mdate|_entity|_json",
    "collision:node:room_id|cdate|mdate|_entity|_binary",
    "collision:node:room_id|cdate|mdate|_entity|_json|_binary",
    "collision:edge:src_entity|label",
    "collision:edge-deletion:src_entity|label",
    "kind:node->edge",
    "kind:node->node-deletion",
    "kind:node->edge-deletion",
    "kind:edge->node",
    "kind:edge->node-deletion",
    "kind:edge->edge-deletion",
    "kind:node-deletion->node",
    "kind:node-deletion->edge",
    "kind:node-deletion->edge-deletion",
    "kind:edge-deletion->node",
    "kind:edge-deletion->edge",
    "kind:edge-deletion->node-deletion",
];

/// diagnostic predicate over an accepted forgery (signed row, forged row)
fn classify(signed: &Signed, forged: &Signed) -> String {
    let same_input = {
        let mut x = signed.row.body();
        x.extend_from_slice(&signed.vk);
        let mut y = forged.row.body();
        y.extend_from_slice(&forged.vk);
        x == y
    };
    let ka = signed.row.kind();
    let kb = forged.row.kind();
    if ka != kb {
        return format!(
            "kind:{}->{}{}",
            ka.name(),
            kb.name(),
            if same_input { "" } else { ":digest-input-differs" }
        );
    }
    // same digest input: name the boundaries that moved (independent of coincidences between
    // values); otherwise name the fields whose values differ
    let mut d = if same_input { signed.row.extent_diff(&forged.row) } else { signed.row.diff(&forged.row) };
    if signed.vk != forged.vk {
        d.push("verifying_key");
    }
    if d.len() == 1 {
        let f = d[0];
        if signed.row.none_vs_empty(&forged.row, f) {
            return format!("collision:{}:field:{}:none-vs-empty", ka.name(), f);
        }
        return format!("collision:{}:field:{}", ka.name(), f);
    }
    format!(
        "collision:{}:{}{}",
        ka.name(),
        d.join("|"),
        if same_input { "" } else { ":digest-input-differs" }
    )
}

fn run_pair(c: &PairCase) -> Outcome {
    let mut o = Outcome::default();
    let d = derive(&c.a, &c.t);
    o.label(d.family.clone());
    let Some(b_row) = d.row.clone() else {
        o.label(format!("inapplicable:{}", d.why.clone().unwrap_or_default()));
        return o;
    };
    let (signed_row, forged_row) = if c.swap { (b_row, c.a.clone()) } else { (c.a.clone(), b_row) };
    if c.swap {
        o.label("swapped");
    }

    // positive half: a valid row signs and verifies
    if let Err(why) = signed_row.structural() {
        o.label(format!("signed-row-invalid:{}", why));
        // the real code must refuse to sign it (nodes and edges check before signing)
        if matches!(signed_row, Row::Node(_) | Row::Edge(_)) && sign(&signed_row, key(c.key as usize)).is_ok() {
            o.violation(
                format!("signs-invalid-row:{}:{}", signed_row.kind().name(), why),
                format!("{:?}", signed_row),
            );
        }
        return o;
    }
    let signed = match sign(&signed_row, key(c.key as usize)) {
        Ok(s) => s,
        Err(e) => {
            o.violation(
                format!("valid-row-not-signed:{}", signed_row.kind().name()),
                format!("{}: {:?}", e, signed_row),
            );
            return o;
        }
    };
    if let Err(e) = verify(&signed) {
        o.violation(
            format!("valid-row-rejected:{}", signed_row.kind().name()),
            format!("{}: {:?}", e, signed_row),
        );
        return o;
    }
    if c.store {
        o.label("stored-round-trip");
        if let Err(e) = stored::round_trip(&signed) {
            o.violation(format!("stored-row-differs:{}", signed_row.kind().name()), format!("{}: {:?}", e, signed_row));
        }
    }

    // the forgery: B with A's signature (and key, unless the transform changes the key)
    let forged = Signed {
        row: forged_row.clone(),
        vk: if d.other_key { vk(c.key as usize + 1) } else { signed.vk.clone() },
        sig: signed.sig.clone(),
    };
    if forged.row == signed.row && forged.vk == signed.vk {
        o.label("identical");
        return o;
    }
    if let Err(why) = forged.row.structural() {
        // verify() must refuse it whatever the signature
        o.label(format!("forged-row-invalid:{}", why));
        if verify(&forged).is_ok() {
            o.violation(
                format!("invalid-row-accepted:{}:{}", forged.row.kind().name(), why),
                format!("{:?}", forged.row),
            );
        }
        return o;
    }
    o.nontrivial = true;
    let sig_name = classify(&signed, &forged);
    let same_input = signed.row.body() == forged.row.body() && signed.vk == forged.vk;
    o.label(if same_input { "digest-input:identical" } else { "digest-input:differs" });

    if same_input && KNOWN_SHAPES.contains(&sig_name.as_str()) && !c.known_shapes {
        o.nontrivial = false;
        o.label("excluded-known-shape");
        o.count(&format!("excluded:{}", sig_name), 1);
        return o;
    }

    let direct = verify(&forged);
    // batch given to the verification service: valid rows of the same kind around the forged one
    let service = {
        let mut batch: Vec<&Signed> = vec![];
        let pos = (c.batch_pos % 3) as usize;
        let same_kind = signed.row.kind() == forged.row.kind();
        if same_kind {
            for _ in 0..pos {
                batch.push(&signed);
            }
        }
        batch.push(&forged);
        if same_kind && c.batch_pos >= 3 {
            batch.push(&signed);
        }
        service_check(&batch)
    };
    if direct.is_ok() {
        o.violation(
            sig_name.clone(),
            format!(
                "a {} signed by its author verifies, with the same signature, as the different {} (verification service: {}); signed: {:?}; accepted: {:?}",
                signed.row.kind().name(),
                forged.row.kind().name(),
                if service.is_ok() { "accepted" } else { "rejected" },
                signed.row,
                forged.row
            ),
        );
    } else if service.is_ok() {
        o.violation(
            format!("service-accepts-unverifiable:{}", forged.row.kind().name()),
            format!(
                "verify() rejects the row ({}) but the batch check of SignatureVerificationService accepts a batch containing it at position {}; row: {:?}",
                direct.unwrap_err(),
                c.batch_pos % 3,
                forged.row
            ),
        );
    } else {
        o.count("forgeries_rejected", 1);
        if same_input {
            // cannot happen: same bytes, same key, same signature
            o.label("identical-input-rejected");
        }
    }
    o
}

struct C06;
impl Property for C06 {
    type Case = Case;
    const ID: &'static str = "C06";
    const ISOLATE: bool = false;
    fn plan(tier: Tier) -> Plan {
        match tier {
            Tier::Quick => Plan { shards: 16, cases_per_shard: 40_000, max_shrink_iters: 2000 },
            Tier::Thorough => Plan { shards: 16, cases_per_shard: 640_000, max_shrink_iters: 4000 },
        }
    }
    fn strategy(_tier: Tier) -> BoxedStrategy<Case> {
        let pair = (
            0u8..(KEYS as u8),
            gen::pair(),
            prop::bool::weighted(0.25),
            prop::bool::weighted(0.08),
            0u8..6,
            prop::bool::weighted(0.06),
        )
            .prop_map(|(key, (a, t), swap, known_shapes, batch_pos, store)| {
                Case::Pair(PairCase { key, a, t, swap, known_shapes, batch_pos, store })
            });
        let ask = prop_oneof![
            2 => Just(oracle::Ask::IdentityDigest),
            2 => Just(oracle::Ask::IdentityPreimage),
            2 => Just(oracle::Ask::IdentityDigestOtherKey),
            3 => proptest::collection::vec(any::<u8>(), 0..80).prop_map(|v| oracle::Ask::IdentityBytes(Hex(v))),
            2 => (gen::uid(false), proptest::collection::vec(any::<u8>(), 32))
                .prop_map(|(endpoint, cert)| oracle::Ask::Announce { endpoint, cert: Hex(cert) }),
            1 => gen::text(0).prop_map(|application| oracle::Ask::Invite { application }),
            2 => proptest::collection::vec(gen::text(0), 1..5).prop_map(|texts| oracle::Ask::StoredRows { texts }),
        ];
        let oracle = (gen::any_row(), ask).prop_map(|(r, ask)| Case::Oracle(oracle::OracleCase { r, ask }));
        let history = history::strategy(match _tier {
            Tier::Quick => 14,
            Tier::Thorough => 24,
        })
        .prop_map(Case::History);
        prop_oneof![
            2000 => pair,
            5 => oracle,
            2 => history,
        ]
        .boxed()
    }
    fn run(case: &Case, ctx: &RunCtx) -> Outcome {
        match case {
            Case::Pair(p) => run_pair(p),
            Case::Oracle(c) => oracle::run(c, ctx),
            Case::History(h) => history::run(h, ctx),
        }
    }
    fn rule() -> String {
        "part 1: a proptest-generated row A of one of the four signed kinds (realistic or all-ASCII ids and dates; text with quotes, escapes, multi-byte characters, embedded JSON string literals; JSON objects with surrounding white space; absent / empty / binary / textual _binary) and a transform (one field changed; k bytes moved, copied or dropped across _entity|_json, _json|_binary, _entity|_binary, src_entity|label; an optional field toggled plainly or with the neighbours compensating; the digest bytes re-sliced with a free cut as the same or another kind), optionally with the roles of A and B swapped; the signed row is signed and verified by the real code, the other row carries its signature and key. Non-trivial = the two rows differ and the forged row passes every structural precondition of verify() (non-empty entity / label, JSON object, edge size) and the pair is not an excluded known shape. part 2: a generated row R and a signing request (identity challenge = digest of R / digest input of R / digest under another key / arbitrary bytes, announce header, invitation) sent to a running instance; non-trivial = R structurally valid and a signature obtained. part 3 (about 1 case in 1000): a generated history on 2-3 real instances whose users all hold the all-rows right (creations, updates, reference changes, moves, deletions of rows and references by users who did not author them, room changes with and without data rows, pulls, bursts, recomputations); after every step every stored node, reference and deletion record of every instance is rebuilt from the tables and must pass the library's verify(); non-trivial = some instance holds a row last changed by another user. distinct = distinct case digest".to_string()
    }
    fn assumptions() -> Vec<String> {
        vec![
            "rows are checked at the level of verify() and SignatureVerificationService::*_check, the gate every synchronised row passes; authorisation checks that follow (room rights, entity names) are other properties".into(),
            "the reference layout of the digest input (rows.rs) is used to classify accepted forgeries and to construct colliding candidates, never to decide acceptance".into(),
            "announce-header and invitation signatures are requested the way PeerManager / Invite::create request them (GraphDatabaseService::sign); the QUIC endpoint is not started".into(),
        ]
    }
    fn extra_coverage(_tier: Tier, m: &Merged) -> std::collections::BTreeMap<String, serde_json::Value> {
        let mut out = std::collections::BTreeMap::new();
        // pairs with byte-identical digest input that were left undecided on purpose
        let excluded: u64 = m.counters.iter().filter(|(k, _)| k.starts_with("excluded:")).map(|(_, v)| *v).sum();
        out.insert("excluded_known_shape_pairs".to_string(), serde_json::json!(excluded));
        out.insert("confirmed_shapes".to_string(), serde_json::json!(KNOWN_SHAPES));
        out.insert(
            "forgeries_rejected".to_string(),
            serde_json::json!(m.counters.get("forgeries_rejected").copied().unwrap_or(0)),
        );
        out
    }
}

fn main() {
    main_for::<C06>()
}
