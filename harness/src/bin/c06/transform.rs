//! Derivation of a row B from a row A: the transform families of DESIGN.md section C06.

use crate::rows::*;
use dv::engine::pick;
use serde::{Deserialize, Serialize};

#[derive(Clone, Copy, Debug, PartialEq, Eq, Serialize, Deserialize)]
pub enum ShiftMode {
    /// bytes leave one field and enter its neighbour (the concatenation is unchanged)
    Move,
    /// bytes are copied into the neighbour (the concatenation changes)
    Copy,
    /// bytes are removed from one field only
    Drop,
}

#[derive(Clone, Debug, Serialize, Deserialize)]
pub enum Transform {
    /// change one field
    Field { field: u16, op: u8, pos: u16, val: u8 },
    /// move k bytes across the boundary of two adjacent variable-length fields
    Shift { boundary: u16, to_right: bool, k: u16, mode: ShiftMode },
    /// toggle the presence of an optional field; mode 0: nothing else changes, mode >= 1: the
    /// neighbours absorb / provide the bytes so that the concatenation is unchanged
    Toggle { which: u16, mode: u8, pos: u16 },
    /// re-interpret the digest bytes of A as a row of kind `target` with a free slicing
    Reslice { target: Kind, room: bool, json: bool, binary: bool, cut: u16, snap: bool },
}

pub struct Derived {
    pub row: Option<Row>,
    /// B names another verifying key than A (only for Field on verifying_key)
    pub other_key: bool,
    pub family: String,
    pub why: Option<String>,
}
fn na(family: String, why: &str) -> Derived {
    Derived { row: None, other_key: false, family, why: Some(why.to_string()) }
}
fn ok(family: String, row: Row) -> Derived {
    Derived { row: Some(row), other_key: false, family, why: None }
}

// ------------------------------------------------------------------------------------------
// re-slicing
// ------------------------------------------------------------------------------------------

#[derive(Clone, Copy, Debug)]
pub enum Cut {
    /// absolute offset in the body where the first variable field ends
    Abs(usize),
    Pick { i: u16, snap: bool },
}
#[derive(Clone, Copy, Debug)]
pub struct Layout {
    pub room: bool,
    pub json: bool,
    pub binary: bool,
    pub cut: Cut,
}

fn i64_at(b: &[u8]) -> i64 {
    let mut x = [0u8; 8];
    x.copy_from_slice(&b[0..8]);
    i64::from_le_bytes(x)
}
fn floor_char(s: &str, mut i: usize) -> usize {
    if i > s.len() {
        i = s.len();
    }
    while !s.is_char_boundary(i) {
        i -= 1;
    }
    i
}

/// end (exclusive) of the JSON string literal starting at b[0] == '"'
fn literal_end(b: &[u8]) -> Option<usize> {
    if b.first() != Some(&b'"') {
        return None;
    }
    let mut i = 1;
    while i < b.len() {
        match b[i] {
            b'\\' => i += 2,
            b'"' => return Some(i + 1),
            _ => i += 1,
        }
    }
    None
}

/// slice `body` (a digest input without its trailing key) as a row of kind `target`
pub fn parse(target: Kind, body: &[u8], l: &Layout) -> Result<Row, &'static str> {
    let len = body.len();
    match target {
        Kind::Node => {
            let fixed = 16 + if l.room { 16 } else { 0 } + 16;
            if len < fixed {
                return Err("too-short");
            }
            let id = Hex(body[0..16].to_vec());
            let mut p = 16;
            let room_id = if l.room {
                p += 16;
                Some(Hex(body[16..32].to_vec()))
            } else {
                None
            };
            let cdate = i64_at(&body[p..]);
            let mdate = i64_at(&body[p + 8..]);
            let var = &body[fixed..];
            let mut c1 = match l.cut {
                Cut::Abs(a) => {
                    if a < fixed || a > len {
                        return Err("cut-out-of-range");
                    }
                    a - fixed
                }
                Cut::Pick { i, snap } => {
                    if !l.json && !l.binary {
                        var.len()
                    } else if l.json && snap {
                        let c: Vec<usize> =
                            (0..var.len()).filter(|p| var[*p] == b'"').collect();
                        if c.is_empty() {
                            return Err("no-literal");
                        }
                        c[pick(i, c.len())]
                    } else {
                        pick(i, var.len() + 1)
                    }
                }
            };
            let entity = match std::str::from_utf8(&var[..c1]) {
                Ok(s) => s.to_string(),
                Err(e) => {
                    if matches!(l.cut, Cut::Pick { .. }) && l.binary && !l.json {
                        c1 = e.valid_up_to();
                        std::str::from_utf8(&var[..c1]).unwrap().to_string()
                    } else {
                        return Err("entity-not-utf8");
                    }
                }
            };
            let mut rest = &var[c1..];
            let json = if l.json {
                let end = literal_end(rest).ok_or("no-literal-at-cut")?;
                let text: String =
                    serde_json::from_slice(&rest[..end]).map_err(|_| "literal-invalid")?;
                rest = &rest[end..];
                Some(text)
            } else {
                None
            };
            let binary = if l.binary {
                Some(Hex(rest.to_vec()))
            } else {
                if !rest.is_empty() {
                    return Err("leftover");
                }
                None
            };
            Ok(Row::Node(NodeR { id, room_id, cdate, mdate, entity, json, binary }))
        }
        Kind::Edge => {
            if len < 16 + 24 {
                return Err("too-short");
            }
            let var = std::str::from_utf8(&body[16..len - 24]).map_err(|_| "strings-not-utf8")?;
            let c1 = match l.cut {
                Cut::Abs(a) => {
                    if a < 16 || a - 16 > var.len() || !var.is_char_boundary(a - 16) {
                        return Err("cut-out-of-range");
                    }
                    a - 16
                }
                Cut::Pick { i, .. } => floor_char(var, pick(i, var.len() + 1)),
            };
            Ok(Row::Edge(EdgeR {
                src: Hex(body[0..16].to_vec()),
                src_entity: var[..c1].to_string(),
                label: var[c1..].to_string(),
                dest: Hex(body[len - 24..len - 8].to_vec()),
                cdate: i64_at(&body[len - 8..]),
            }))
        }
        Kind::NodeDel => {
            if len < 48 {
                return Err("too-short");
            }
            let entity = std::str::from_utf8(&body[40..len - 8]).map_err(|_| "strings-not-utf8")?;
            Ok(Row::NodeDel(NodeDelR {
                room_id: Hex(body[0..16].to_vec()),
                id: Hex(body[16..32].to_vec()),
                mdate: i64_at(&body[32..]),
                entity: entity.to_string(),
                deletion_date: i64_at(&body[len - 8..]),
            }))
        }
        Kind::EdgeDel => {
            if len < 64 {
                return Err("too-short");
            }
            let var = std::str::from_utf8(&body[32..len - 32]).map_err(|_| "strings-not-utf8")?;
            let c1 = match l.cut {
                Cut::Abs(a) => {
                    if a < 32 || a - 32 > var.len() || !var.is_char_boundary(a - 32) {
                        return Err("cut-out-of-range");
                    }
                    a - 32
                }
                Cut::Pick { i, .. } => floor_char(var, pick(i, var.len() + 1)),
            };
            Ok(Row::EdgeDel(EdgeDelR {
                room_id: Hex(body[0..16].to_vec()),
                src: Hex(body[16..32].to_vec()),
                src_entity: var[..c1].to_string(),
                label: var[c1..].to_string(),
                dest: Hex(body[len - 32..len - 16].to_vec()),
                cdate: i64_at(&body[len - 16..]),
                deletion_date: i64_at(&body[len - 8..]),
            }))
        }
    }
}

// ------------------------------------------------------------------------------------------
// field mutation
// ------------------------------------------------------------------------------------------

pub fn field_names(k: Kind) -> &'static [&'static str] {
    match k {
        Kind::Node => &["id", "room_id", "cdate", "mdate", "_entity", "_json", "_binary", "verifying_key"],
        Kind::Edge => &["src", "src_entity", "label", "dest", "cdate", "verifying_key"],
        Kind::NodeDel => &["room_id", "id", "mdate", "entity", "deletion_date", "verifying_key"],
        Kind::EdgeDel => &[
            "room_id",
            "src",
            "src_entity",
            "label",
            "dest",
            "cdate",
            "deletion_date",
            "verifying_key",
        ],
    }
}

fn mut_uid(u: &Hex, op: u8, pos: u16, val: u8) -> Hex {
    let mut b = u.uid().to_vec();
    match op % 3 {
        0 => {
            let bit = (pos % 128) as usize;
            b[bit / 8] ^= 1 << (bit % 8);
        }
        1 => {
            let i = (pos % 16) as usize;
            b[i] = if b[i] == val { val.wrapping_add(1) } else { val };
        }
        _ => {
            b.rotate_left(1);
            if b == u.uid().to_vec() {
                b[0] ^= 1;
            }
        }
    }
    Hex(b)
}
fn mut_i64(x: i64, op: u8, pos: u16, val: u8) -> i64 {
    let y = match op % 6 {
        0 => x.wrapping_add(1),
        1 => x.wrapping_sub(1),
        2 => x ^ (1i64 << (pos % 64)),
        3 => x.swap_bytes(),
        4 => !x,
        _ => x.wrapping_add(((val as i64) | 1) << (8 * (pos % 8))),
    };
    if y == x {
        x ^ 1
    } else {
        y
    }
}
const CHARS: &[char] = &['a', 'Z', '0', ' ', '"', '\\', '.', '{', '}', '\u{0}', 'é', '中', '😀', '\n', '_', '$'];
fn mut_string(s: &str, op: u8, pos: u16, val: u8) -> String {
    let chars: Vec<char> = s.chars().collect();
    let c = CHARS[(val as usize) % CHARS.len()];
    let out: String = match op % 7 {
        0 => format!("{}{}", s, c),
        1 if !chars.is_empty() => chars[..chars.len() - 1].iter().collect(),
        2 if !chars.is_empty() => chars[1..].iter().collect(),
        3 if !chars.is_empty() => {
            let i = pick(pos, chars.len());
            let mut v = chars.clone();
            v[i] = if v[i] == c { 'q' } else { c };
            v.into_iter().collect()
        }
        4 if !chars.is_empty() => {
            let i = pick(pos, chars.len());
            let mut v = chars.clone();
            let x = v[i];
            v[i] = if x.is_lowercase() {
                x.to_uppercase().next().unwrap()
            } else if x.is_uppercase() {
                x.to_lowercase().next().unwrap()
            } else {
                x
            };
            v.into_iter().collect()
        }
        5 => format!("{}\u{0}", s),
        6 => format!("{}{}", c, s),
        _ => format!("{}{}", s, c),
    };
    out
}
fn mut_json(j: &Option<String>, op: u8, _pos: u16, val: u8) -> Option<String> {
    match j {
        None => Some(if op % 2 == 0 { "{}".to_string() } else { format!("{{\"v\":{}}}", val) }),
        Some(s) => match op % 6 {
            0 => None,
            1 => Some(format!(" {}", s)),
            2 => Some(format!("{} ", s)),
            3 => Some(if s == "{}" { "{\"x\":0}".to_string() } else { "{}".to_string() }),
            4 => {
                // add a member before the last closing brace
                match s.rfind('}') {
                    Some(i) => {
                        let inner_empty = s[..i].trim_end().ends_with('{');
                        let sep = if inner_empty { "" } else { "," };
                        Some(format!("{}{}\"zz\":{}{}", &s[..i], sep, val, &s[i..]))
                    }
                    None => Some(format!("{}x", s)),
                }
            }
            _ => {
                // same JSON value, different text: first ASCII letter written as \u00XX
                match s.char_indices().find(|(_, c)| c.is_ascii_alphabetic()) {
                    Some((i, c)) => Some(format!("{}\\u{:04x}{}", &s[..i], c as u32, &s[i + 1..])),
                    None => Some(format!("{}\n", s)),
                }
            }
        },
    }
}
fn mut_binary(b: &Option<Hex>, op: u8, pos: u16, val: u8) -> Option<Hex> {
    match b {
        None => Some(Hex(if op % 2 == 0 { vec![] } else { vec![val] })),
        Some(h) => {
            let mut v = h.0.clone();
            match op % 5 {
                0 => return None,
                1 if !v.is_empty() => {
                    let bit = pick(pos, v.len() * 8);
                    v[bit / 8] ^= 1 << (bit % 8);
                }
                2 => v.push(val),
                3 if !v.is_empty() => {
                    v.pop();
                }
                4 => v.insert(0, val),
                _ => v.push(val),
            }
            Some(Hex(v))
        }
    }
}
fn mut_opt_uid(u: &Option<Hex>, seed: &Hex, op: u8, pos: u16, val: u8) -> Option<Hex> {
    match u {
        None => {
            let mut b = seed.uid().to_vec();
            b.reverse();
            b[0] ^= val;
            Some(Hex(b))
        }
        Some(h) => {
            if op % 3 == 0 {
                None
            } else {
                Some(mut_uid(h, op / 3, pos, val))
            }
        }
    }
}

fn derive_field(a: &Row, field: u16, op: u8, pos: u16, val: u8) -> Derived {
    let names = field_names(a.kind());
    let f = names[pick(field, names.len())];
    let fam = format!("field:{}:{}", a.kind().name(), f);
    if f == "verifying_key" {
        return Derived { row: Some(a.clone()), other_key: true, family: fam, why: None };
    }
    let mut b = a.clone();
    match &mut b {
        Row::Node(n) => match f {
            "id" => n.id = mut_uid(&n.id, op, pos, val),
            "room_id" => n.room_id = mut_opt_uid(&n.room_id, &n.id, op, pos, val),
            "cdate" => n.cdate = mut_i64(n.cdate, op, pos, val),
            "mdate" => n.mdate = mut_i64(n.mdate, op, pos, val),
            "_entity" => n.entity = mut_string(&n.entity, op, pos, val),
            "_json" => n.json = mut_json(&n.json, op, pos, val),
            "_binary" => n.binary = mut_binary(&n.binary, op, pos, val),
            _ => unreachable!(),
        },
        Row::Edge(e) => match f {
            "src" => e.src = mut_uid(&e.src, op, pos, val),
            "src_entity" => e.src_entity = mut_string(&e.src_entity, op, pos, val),
            "label" => e.label = mut_string(&e.label, op, pos, val),
            "dest" => e.dest = mut_uid(&e.dest, op, pos, val),
            "cdate" => e.cdate = mut_i64(e.cdate, op, pos, val),
            _ => unreachable!(),
        },
        Row::NodeDel(d) => match f {
            "room_id" => d.room_id = mut_uid(&d.room_id, op, pos, val),
            "id" => d.id = mut_uid(&d.id, op, pos, val),
            "mdate" => d.mdate = mut_i64(d.mdate, op, pos, val),
            "entity" => d.entity = mut_string(&d.entity, op, pos, val),
            "deletion_date" => d.deletion_date = mut_i64(d.deletion_date, op, pos, val),
            _ => unreachable!(),
        },
        Row::EdgeDel(d) => match f {
            "room_id" => d.room_id = mut_uid(&d.room_id, op, pos, val),
            "src" => d.src = mut_uid(&d.src, op, pos, val),
            "src_entity" => d.src_entity = mut_string(&d.src_entity, op, pos, val),
            "label" => d.label = mut_string(&d.label, op, pos, val),
            "dest" => d.dest = mut_uid(&d.dest, op, pos, val),
            "cdate" => d.cdate = mut_i64(d.cdate, op, pos, val),
            "deletion_date" => d.deletion_date = mut_i64(d.deletion_date, op, pos, val),
            _ => unreachable!(),
        },
    }
    ok(fam, b)
}

// ------------------------------------------------------------------------------------------
// boundary shift on the stored values
// ------------------------------------------------------------------------------------------

#[derive(Clone, Copy, PartialEq, Eq)]
enum Ty {
    Str,
    Json,
    Bin,
}

fn ws_run_end(b: &[u8]) -> usize {
    b.iter().rev().take_while(|c| matches!(c, b' ' | b'\n' | b'\t' | b'\r')).count()
}
fn ws_run_start(b: &[u8]) -> usize {
    b.iter().take_while(|c| matches!(c, b' ' | b'\n' | b'\t' | b'\r')).count()
}

/// (left, right) after shifting; None when nothing can be shifted
fn shift_bytes(
    left: &[u8],
    lt: Ty,
    right: &[u8],
    rt: Ty,
    to_right: bool,
    k: u16,
    mode: ShiftMode,
) -> Option<(Vec<u8>, Vec<u8>)> {
    let (src, st, dt) = if to_right { (left, lt, rt) } else { (right, rt, lt) };
    if src.is_empty() {
        return None;
    }
    let mut amount = 1 + pick(k, src.len());
    // keep a JSON text parseable: only its surrounding white space can leave it
    if st == Ty::Json {
        let w = if to_right { ws_run_end(src) } else { ws_run_start(src) };
        if w > 0 {
            amount = amount.min(w);
        }
    }
    // the moved slice
    let slice: Vec<u8> = if to_right {
        let mut start = src.len() - amount;
        if st != Ty::Bin {
            let s = std::str::from_utf8(src).ok()?;
            while !s.is_char_boundary(start) {
                start -= 1;
            }
        }
        src[start..].to_vec()
    } else {
        let mut end = amount;
        if st != Ty::Bin {
            let s = std::str::from_utf8(src).ok()?;
            while !s.is_char_boundary(end) {
                end += 1;
            }
        }
        src[..end].to_vec()
    };
    // text fields only take text
    let slice = if dt != Ty::Bin {
        match std::str::from_utf8(&slice) {
            Ok(_) => slice,
            Err(e) => {
                if to_right {
                    return None; // a suffix that is not text cannot be trimmed from the left simply
                }
                let n = e.valid_up_to();
                if n == 0 {
                    return None;
                }
                slice[..n].to_vec()
            }
        }
    } else {
        slice
    };
    let n = slice.len();
    let mut l = left.to_vec();
    let mut r = right.to_vec();
    if to_right {
        if mode != ShiftMode::Copy {
            l.truncate(l.len() - n);
        }
        if mode != ShiftMode::Drop {
            let mut x = slice.clone();
            x.extend_from_slice(&r);
            r = x;
        }
    } else {
        if mode != ShiftMode::Copy {
            r.drain(..n);
        }
        if mode != ShiftMode::Drop {
            l.extend_from_slice(&slice);
        }
    }
    Some((l, r))
}

fn derive_shift(a: &Row, boundary: u16, to_right: bool, k: u16, mode: ShiftMode) -> Derived {
    let kind = a.kind().name();
    let m = match mode {
        ShiftMode::Move => "move",
        ShiftMode::Copy => "copy",
        ShiftMode::Drop => "drop",
    };
    match a {
        Row::Node(n) => {
            let mut bs: Vec<(&str, &str)> = vec![];
            if n.json.is_some() {
                bs.push(("_entity", "_json"));
                bs.push(("_json", "_binary"));
            } else {
                bs.push(("_entity", "_binary"));
            }
            let (lf, rf) = bs[pick(boundary, bs.len())];
            let fam = format!("shift:{}:{}|{}:{}", kind, lf, rf, m);
            let get = |f: &str| -> (Vec<u8>, Ty) {
                match f {
                    "_entity" => (n.entity.as_bytes().to_vec(), Ty::Str),
                    "_json" => (n.json.clone().unwrap_or_default().into_bytes(), Ty::Json),
                    _ => (n.binary.clone().map(|h| h.0).unwrap_or_default(), Ty::Bin),
                }
            };
            let (l, lt) = get(lf);
            let (r, rt) = get(rf);
            let Some((l2, r2)) = shift_bytes(&l, lt, &r, rt, to_right, k, mode) else {
                return na(fam, "nothing-to-shift");
            };
            let mut b = n.clone();
            let mut set = |f: &str, v: Vec<u8>| -> bool {
                match f {
                    "_entity" => match String::from_utf8(v) {
                        Ok(s) => b.entity = s,
                        Err(_) => return false,
                    },
                    "_json" => match String::from_utf8(v) {
                        Ok(s) => b.json = Some(s),
                        Err(_) => return false,
                    },
                    _ => {
                        // an emptied / still absent binary stays as it was (None stays None)
                        b.binary = if v.is_empty() && n.binary.is_none() { None } else { Some(Hex(v)) };
                    }
                }
                true
            };
            if !set(lf, l2) || !set(rf, r2) {
                return na(fam, "not-text");
            }
            ok(fam, Row::Node(b))
        }
        Row::Edge(e) => {
            let fam = format!("shift:{}:src_entity|label:{}", kind, m);
            let Some((l2, r2)) = shift_bytes(
                e.src_entity.as_bytes(),
                Ty::Str,
                e.label.as_bytes(),
                Ty::Str,
                to_right,
                k,
                mode,
            ) else {
                return na(fam, "nothing-to-shift");
            };
            let mut b = e.clone();
            b.src_entity = String::from_utf8(l2).unwrap();
            b.label = String::from_utf8(r2).unwrap();
            ok(fam, Row::Edge(b))
        }
        Row::EdgeDel(e) => {
            let fam = format!("shift:{}:src_entity|label:{}", kind, m);
            let Some((l2, r2)) = shift_bytes(
                e.src_entity.as_bytes(),
                Ty::Str,
                e.label.as_bytes(),
                Ty::Str,
                to_right,
                k,
                mode,
            ) else {
                return na(fam, "nothing-to-shift");
            };
            let mut b = e.clone();
            b.src_entity = String::from_utf8(l2).unwrap();
            b.label = String::from_utf8(r2).unwrap();
            ok(fam, Row::EdgeDel(b))
        }
        Row::NodeDel(_) => na(format!("shift:{}", kind), "one-variable-field-only"),
    }
}

// ------------------------------------------------------------------------------------------
// optional fields
// ------------------------------------------------------------------------------------------

fn derive_toggle(a: &Row, which: u16, mode: u8, pos: u16) -> Derived {
    let Row::Node(n) = a else {
        return na(format!("toggle:{}", a.kind().name()), "no-optional-field");
    };
    let fields = ["room_id", "_json", "_binary"];
    let f = fields[pick(which, fields.len())];
    let body = a.body();
    let fixed = 16 + if n.room_id.is_some() { 16 } else { 0 } + 16;
    let entity_end = fixed + n.entity.len();
    let literal_end = entity_end + n.json.as_ref().map(|j| json_literal(j).len()).unwrap_or(0);
    let mode = mode % 3;
    let fam = format!(
        "toggle:node:{}:{}:{}",
        f,
        match (f, n.room_id.is_some(), n.json.is_some(), n.binary.is_some()) {
            ("room_id", p, _, _) | ("_json", _, p, _) | ("_binary", _, _, p) => {
                if p {
                    "some->none"
                } else {
                    "none->some"
                }
            }
            _ => "",
        },
        if mode == 0 { "plain" } else { "compensated" }
    );
    if mode == 0 {
        let mut b = n.clone();
        match f {
            "room_id" => {
                b.room_id = match &n.room_id {
                    Some(_) => None,
                    None => {
                        let mut x = n.id.uid().to_vec();
                        x.reverse();
                        Some(Hex(x))
                    }
                }
            }
            "_json" => {
                b.json = match &n.json {
                    Some(_) => None,
                    None => Some("{}".to_string()),
                }
            }
            _ => {
                b.binary = match &n.binary {
                    Some(_) => None,
                    None => Some(Hex(vec![])),
                }
            }
        }
        return ok(fam, Row::Node(b));
    }
    // compensated: same bytes, other presence
    let layout = match f {
        "room_id" => Layout {
            room: n.room_id.is_none(),
            json: n.json.is_some(),
            binary: n.binary.is_some(),
            cut: Cut::Abs(entity_end),
        },
        "_json" => {
            if n.json.is_some() {
                if mode == 1 {
                    // the literal joins the entity
                    Layout { room: n.room_id.is_some(), json: false, binary: n.binary.is_some(), cut: Cut::Abs(literal_end) }
                } else {
                    // the literal joins the binary
                    Layout { room: n.room_id.is_some(), json: false, binary: true, cut: Cut::Abs(entity_end) }
                }
            } else {
                // a literal found inside the entity / binary becomes the json
                Layout {
                    room: n.room_id.is_some(),
                    json: true,
                    binary: mode == 1 || n.binary.is_some(),
                    cut: Cut::Pick { i: pos, snap: true },
                }
            }
        }
        _ => {
            if n.binary.is_some() {
                // the binary joins the preceding text
                Layout { room: n.room_id.is_some(), json: n.json.is_some(), binary: false, cut: Cut::Abs(if n.json.is_some() { entity_end } else { body.len() }) }
            } else {
                // a suffix of the entity becomes the binary
                Layout { room: n.room_id.is_some(), json: n.json.is_some(), binary: true, cut: if n.json.is_some() { Cut::Abs(entity_end) } else { Cut::Pick { i: pos, snap: false } } }
            }
        }
    };
    match parse(Kind::Node, &body, &layout) {
        Ok(b) => ok(fam, b),
        Err(e) => na(fam, e),
    }
}

pub fn derive(a: &Row, t: &Transform) -> Derived {
    match t {
        Transform::Field { field, op, pos, val } => derive_field(a, *field, *op, *pos, *val),
        Transform::Shift { boundary, to_right, k, mode } => derive_shift(a, *boundary, *to_right, *k, *mode),
        Transform::Toggle { which, mode, pos } => derive_toggle(a, *which, *mode, *pos),
        Transform::Reslice { target, room, json, binary, cut, snap } => {
            let fam = format!("reslice:{}->{}", a.kind().name(), target.name());
            let l = Layout { room: *room, json: *json, binary: *binary, cut: Cut::Pick { i: *cut, snap: *snap } };
            match parse(*target, &a.body(), &l) {
                Ok(b) => ok(fam, b),
                Err(e) => na(fam, e),
            }
        }
    }
}
