//! "verifies against the row exactly as stored": the signed row is written by the real write code
//! into the real tables (in-memory SQLite), read back, compared field by field and verified.

use crate::rows::*;
use discret::verif as dvv;
use dvv::database::edge::Edge;
use dvv::database::node::Node;
use dvv::database::sqlite_database::{prepare_connection, Writeable};
use rusqlite::Connection;
use std::cell::RefCell;

thread_local! {
    static CONN: RefCell<Option<Connection>> = const { RefCell::new(None) };
}

fn with_conn<T>(f: impl FnOnce(&Connection) -> Result<T, String>) -> Result<T, String> {
    CONN.with(|c| {
        let mut c = c.borrow_mut();
        if c.is_none() {
            let conn = Connection::open_in_memory().map_err(|e| e.to_string())?;
            prepare_connection(&conn).map_err(|e| e.to_string())?;
            *c = Some(conn);
        }
        f(c.as_ref().unwrap())
    })
}

pub fn round_trip(s: &Signed) -> Result<(), String> {
    with_conn(|conn| {
        let e = |e: rusqlite::Error| e.to_string();
        let back: Signed = match &s.row {
            Row::Node(n) => {
                let mut node = real_node(n, &s.vk, &s.sig);
                node.write(conn, false, &None, &None).map_err(e)?;
                let r = Node::get_with_entity(&node.id, &node._entity, conn).map_err(e)?;
                Node::delete(&node.id, conn).map_err(e)?;
                let r = r.ok_or("stored node not found by (id, _entity)")?;
                Signed {
                    row: Row::Node(NodeR {
                        id: Hex(r.id.to_vec()),
                        room_id: r.room_id.map(|x| Hex(x.to_vec())),
                        cdate: r.cdate,
                        mdate: r.mdate,
                        entity: r._entity.clone(),
                        json: r._json.clone(),
                        binary: r._binary.clone().map(Hex),
                    }),
                    vk: r.verifying_key.clone(),
                    sig: r._signature.clone(),
                }
            }
            Row::Edge(x) => {
                let edge = real_edge(x, &s.vk, &s.sig);
                edge.write(conn).map_err(e)?;
                let r = Edge::get(&edge.src, &edge.label, &edge.dest, conn).map_err(|e| e.to_string())?;
                edge.delete(conn).map_err(e)?;
                let r = r.ok_or("stored edge not found by (src, label, dest)")?;
                Signed {
                    row: Row::Edge(EdgeR {
                        src: Hex(r.src.to_vec()),
                        src_entity: r.src_entity.clone(),
                        label: r.label.clone(),
                        dest: Hex(r.dest.to_vec()),
                        cdate: r.cdate,
                    }),
                    vk: r.verifying_key.clone(),
                    sig: r.signature.clone(),
                }
            }
            Row::NodeDel(d) => {
                let mut x = real_node_del(d, &s.vk, &s.sig);
                x.write(conn).map_err(e)?;
                let r = conn
                    .query_row(
                        "SELECT room_id, id, mdate, entity, deletion_date, verifying_key, signature FROM _node_deletion_log",
                        [],
                        |r| {
                            Ok(Signed {
                                row: Row::NodeDel(NodeDelR {
                                    room_id: Hex(r.get::<_, Vec<u8>>(0)?),
                                    id: Hex(r.get::<_, Vec<u8>>(1)?),
                                    mdate: r.get(2)?,
                                    entity: r.get(3)?,
                                    deletion_date: r.get(4)?,
                                }),
                                vk: r.get(5)?,
                                sig: r.get(6)?,
                            })
                        },
                    )
                    .map_err(e)?;
                conn.execute("DELETE FROM _node_deletion_log", []).map_err(e)?;
                r
            }
            Row::EdgeDel(d) => {
                let mut x = real_edge_del(d, &s.vk, &s.sig);
                x.write(conn).map_err(e)?;
                let r = conn
                    .query_row(
                        "SELECT room_id, src, src_entity, label, dest, cdate, deletion_date, verifying_key, signature FROM _edge_deletion_log",
                        [],
                        |r| {
                            Ok(Signed {
                                row: Row::EdgeDel(EdgeDelR {
                                    room_id: Hex(r.get::<_, Vec<u8>>(0)?),
                                    src: Hex(r.get::<_, Vec<u8>>(1)?),
                                    src_entity: r.get(2)?,
                                    label: r.get(3)?,
                                    dest: Hex(r.get::<_, Vec<u8>>(4)?),
                                    cdate: r.get(5)?,
                                    deletion_date: r.get(6)?,
                                }),
                                vk: r.get(7)?,
                                sig: r.get(8)?,
                            })
                        },
                    )
                    .map_err(e)?;
                conn.execute("DELETE FROM _edge_deletion_log", []).map_err(e)?;
                r
            }
        };
        if back.row != s.row || back.vk != s.vk || back.sig != s.sig {
            return Err(format!("read back {:?}", back.row));
        }
        verify(&back).map_err(|e| format!("read back row does not verify: {}", e))
    })
}
