//! Part 2: what a peer can make a running instance sign. A real instance (dv::world::Peer) is
//! started once per process; signing requests do not change its rows (the invitation request adds
//! one sys.OwnedInvite row, which no oracle here looks at).

use crate::rows::*;
use discret::verif as dvv;
use dv::engine::{Outcome, RunCtx};
use dv::world::{runtime, Peer};
use dvv::database::system_entities::Invite;
use dvv::network::AnnounceHeader;
use dvv::security::{uid_encode, HardwareFingerprint};
use dvv::synchronisation::peer_outbound_service::{InboundQueryService, RemotePeerHandle};
use dvv::synchronisation::{Answer, IdentityAnswer, Query, QueryProtocol};
use serde::{Deserialize, Serialize};
use std::collections::HashSet;
use std::sync::atomic::AtomicBool;
use std::sync::{Arc, Mutex as StdMutex, OnceLock};
use tokio::sync::{mpsc, Mutex};

#[derive(Clone, Debug, Serialize, Deserialize)]
pub enum Ask {
    /// ProveIdentity(blake3 digest of R naming the victim's key): 32 bytes, like a real challenge
    IdentityDigest,
    /// ProveIdentity(the digest input itself)
    IdentityPreimage,
    /// ProveIdentity(digest of R naming another key)
    IdentityDigestOtherKey,
    /// ProveIdentity(arbitrary bytes)
    IdentityBytes(Hex),
    /// the announce header signature (locally triggered: PeerManager signs
    /// AnnounceHeader::hash() through GraphDatabaseService::sign)
    Announce { endpoint: Hex, cert: Hex },
    /// the invitation signature (locally triggered: Invite::create)
    Invite { application: String },
    /// not a signing request: rows are written through the API (create, link, unlink, delete) and
    /// every row of the four signed tables of the instance, system rows included, is read back
    /// and verified exactly as stored
    StoredRows { texts: Vec<String> },
}
impl Ask {
    pub fn name(&self) -> &'static str {
        match self {
            Ask::IdentityDigest => "identity:row-digest",
            Ask::IdentityPreimage => "identity:row-digest-input",
            Ask::IdentityDigestOtherKey => "identity:row-digest-other-key",
            Ask::IdentityBytes(_) => "identity:bytes",
            Ask::Announce { .. } => "announce-header",
            Ask::Invite { .. } => "invitation",
            Ask::StoredRows { .. } => "stored-rows",
        }
    }
}

#[derive(Clone, Debug, Serialize, Deserialize)]
pub struct OracleCase {
    pub r: Row,
    pub ask: Ask,
}

struct World {
    rt: tokio::runtime::Runtime,
    peer: Peer,
    /// signatures of the stored rows already verified (the instance lives as long as the process)
    verified: StdMutex<HashSet<Vec<u8>>>,
}
static WORLD: OnceLock<StdMutex<Result<World, String>>> = OnceLock::new();

fn world(ctx: &RunCtx) -> &'static StdMutex<Result<World, String>> {
    WORLD.get_or_init(|| {
        dv::world::begin_case(1);
        let rt = runtime();
        let dir = ctx.scratch.join(format!("c06_victim_{}", std::process::id()));
        let _ = std::fs::remove_dir_all(&dir);
        let peer = rt.block_on(Peer::start("c06 victim", dv::syncworld::MODEL, dir));
        StdMutex::new(peer.map(|peer| World { rt, peer, verified: StdMutex::new(HashSet::new()) }))
    })
}

/// one ProveIdentity query through the real serving code, on a connection that has not
/// authenticated (empty remote key, connection not ready)
async fn prove_identity(peer: &Peer, challenge: Vec<u8>) -> Result<IdentityAnswer, String> {
    let (tx, mut rx) = mpsc::channel::<Answer>(4);
    let mut handle = RemotePeerHandle {
        allowed_room: HashSet::new(),
        db: peer.db.clone(),
        verifying_key: peer.verifying_key.clone(),
        reply: tx,
    };
    let key = Arc::new(Mutex::new(Vec::new()));
    let ready = Arc::new(AtomicBool::new(false));
    let fingerprint = HardwareFingerprint { id: [7; 16], name: "dv".to_string() };
    InboundQueryService::process_inbound(
        QueryProtocol { id: 1, query: Query::ProveIdentity(challenge) },
        &mut handle,
        &key,
        &ready,
        &fingerprint,
    )
    .await
    .map_err(|e| format!("process_inbound: {}", e))?;
    let a = rx.recv().await.ok_or("no answer")?;
    if !a.success {
        return Err("unsuccessful answer".into());
    }
    bincode::deserialize::<IdentityAnswer>(&a.serialized).map_err(|e| format!("answer: {}", e))
}

fn announce_header(endpoint: &Hex, cert: &Hex) -> AnnounceHeader {
    // the fields are private: build the header from its wire form
    let mut wire = endpoint.uid().to_vec();
    let mut c = cert.0.clone();
    c.resize(32, 0);
    wire.extend_from_slice(&c);
    wire.extend_from_slice(&0u64.to_le_bytes()); // empty signature
    bincode::deserialize(&wire).expect("announce header wire form")
}

/// writes rows through the API, then verifies every stored row of the four signed tables
fn stored_rows(w: &World, texts: &[String], o: &mut Outcome) {
    use dv::world::Parameters;
    use dv::world::ParametersAdd;
    let peer = &w.peer;
    o.label("oracle:stored-rows");
    let rows: Vec<Signed> = w.rt.block_on(async {
        let room = uid_encode(&peer.private_room);
        let mut ids: Vec<String> = vec![];
        for t in texts {
            let mut p = Parameters::new();
            p.add("room", room.clone()).unwrap();
            p.add("text", t.clone()).unwrap();
            if let Ok(js) = peer.mutate("mutate { app.Item { room_id:$room name:$text } }", Some(p)).await {
                if let Ok(v) = serde_json::from_str::<serde_json::Value>(&js) {
                    if let Some(id) = v["app.Item"]["id"].as_str() {
                        ids.push(id.to_string());
                    }
                }
            }
        }
        if ids.len() >= 2 {
            for (a, b) in [(0usize, 1usize), (1, 0)] {
                let mut p = Parameters::new();
                p.add("id", ids[a].clone()).unwrap();
                p.add("tid", ids[b].clone()).unwrap();
                let _ = peer.mutate("mutate { app.Item { id:$id links:[{id:$tid}] } }", Some(p)).await;
            }
            let mut p = Parameters::new();
            p.add("id", ids[0].clone()).unwrap();
            p.add("tid", ids[1].clone()).unwrap();
            let _ = peer.delete("delete { app.Item { $id links[$tid] } }", Some(p)).await;
        }
        if ids.len() >= 3 {
            let mut p = Parameters::new();
            p.add("id", ids[2].clone()).unwrap();
            let _ = peer.delete("delete { app.Item { $id } }", Some(p)).await;
        }
        peer.fence().await;
        peer.sql(|c| {
            let mut out: Vec<Signed> = vec![];
            let mut q = |sql: &str, f: &dyn Fn(&rusqlite::Row) -> rusqlite::Result<Signed>| {
                let mut st = c.prepare(sql).expect("prepare");
                let mut rows = st.query([]).expect("query");
                while let Some(r) = rows.next().expect("row") {
                    out.push(f(r).expect("column"));
                }
            };
            let h = |r: &rusqlite::Row, i: usize| -> rusqlite::Result<Hex> { Ok(Hex(r.get::<_, Vec<u8>>(i)?)) };
            q(
                "SELECT id, room_id, cdate, mdate, _entity, _json, _binary, verifying_key, _signature FROM _node",
                &|r| {
                    Ok(Signed {
                        row: Row::Node(NodeR {
                            id: h(r, 0)?,
                            room_id: r.get::<_, Option<Vec<u8>>>(1)?.map(Hex),
                            cdate: r.get(2)?,
                            mdate: r.get(3)?,
                            entity: r.get(4)?,
                            json: r.get(5)?,
                            binary: r.get::<_, Option<Vec<u8>>>(6)?.map(Hex),
                        }),
                        vk: r.get(7)?,
                        sig: r.get(8)?,
                    })
                },
            );
            q("SELECT src, src_entity, label, dest, cdate, verifying_key, signature FROM _edge", &|r| {
                Ok(Signed {
                    row: Row::Edge(EdgeR {
                        src: h(r, 0)?,
                        src_entity: r.get(1)?,
                        label: r.get(2)?,
                        dest: h(r, 3)?,
                        cdate: r.get(4)?,
                    }),
                    vk: r.get(5)?,
                    sig: r.get(6)?,
                })
            });
            q(
                "SELECT room_id, id, mdate, entity, deletion_date, verifying_key, signature FROM _node_deletion_log",
                &|r| {
                    Ok(Signed {
                        row: Row::NodeDel(NodeDelR {
                            room_id: h(r, 0)?,
                            id: h(r, 1)?,
                            mdate: r.get(2)?,
                            entity: r.get(3)?,
                            deletion_date: r.get(4)?,
                        }),
                        vk: r.get(5)?,
                        sig: r.get(6)?,
                    })
                },
            );
            q(
                "SELECT room_id, src, src_entity, label, dest, cdate, deletion_date, verifying_key, signature FROM _edge_deletion_log",
                &|r| {
                    Ok(Signed {
                        row: Row::EdgeDel(EdgeDelR {
                            room_id: h(r, 0)?,
                            src: h(r, 1)?,
                            src_entity: r.get(2)?,
                            label: r.get(3)?,
                            dest: h(r, 4)?,
                            cdate: r.get(5)?,
                            deletion_date: r.get(6)?,
                        }),
                        vk: r.get(7)?,
                        sig: r.get(8)?,
                    })
                },
            );
            out
        })
        .await
    });
    let mut seen = w.verified.lock().unwrap();
    let mut fresh = 0u64;
    for s in &rows {
        if seen.contains(&s.sig) {
            continue;
        }
        fresh += 1;
        o.count(&format!("stored_rows_verified:{}", s.row.kind().name()), 1);
        if let Err(e) = verify(s) {
            o.violation(
                format!("stored-row-does-not-verify:{}", s.row.kind().name()),
                format!("{}: {:?}", e, s.row),
            );
        } else {
            seen.insert(s.sig.clone());
        }
    }
    o.nontrivial = fresh > 0;
}

pub fn run(case: &OracleCase, ctx: &RunCtx) -> Outcome {
    let mut o = Outcome::default();
    let guard = world(ctx).lock().unwrap();
    let w = match &*guard {
        Ok(w) => w,
        Err(e) => {
            o.discard = Some(format!("world-start:{}", e));
            return o;
        }
    };
    if let Ask::StoredRows { texts } = &case.ask {
        stored_rows(w, texts, &mut o);
        return o;
    }
    let peer = &w.peer;
    let victim_vk = peer.verifying_key.clone();
    let ask = case.ask.name();
    o.label(format!("oracle:{}:{}", ask, case.r.kind().name()));

    // the signature a peer (or the local application, for the two negative controls) obtains
    let obtained: Result<Vec<u8>, String> = w.rt.block_on(async {
        match &case.ask {
            Ask::IdentityDigest
            | Ask::IdentityPreimage
            | Ask::IdentityDigestOtherKey
            | Ask::IdentityBytes(_) => {
                let challenge = match &case.ask {
                    Ask::IdentityDigest => case.r.digest(&victim_vk).to_vec(),
                    Ask::IdentityPreimage => {
                        let mut b = case.r.body();
                        b.extend_from_slice(&victim_vk);
                        b
                    }
                    Ask::IdentityDigestOtherKey => case.r.digest(&vk(1)).to_vec(),
                    Ask::IdentityBytes(h) => h.0.clone(),
                    _ => unreachable!(),
                };
                let answer = prove_identity(peer, challenge.clone()).await?;
                if answer.peer.verifying_key != victim_vk {
                    return Err("the answer names another key than the instance's".to_string());
                }
                // the proof must be what the initiator of a connection checks
                if answer.verify(&challenge).is_err() {
                    return Err("identity proof does not verify for its own challenge".to_string());
                }
                Ok(answer.chall_signature)
            }
            Ask::Announce { endpoint, cert } => {
                let header = announce_header(endpoint, cert);
                let (_k, sig) = peer.db.sign(header.hash().to_vec()).await;
                Ok(sig)
            }
            Ask::Invite { application } => {
                let (invite, _owned) =
                    Invite::create(uid_encode(&peer.private_room), None, application.clone(), &peer.db)
                        .await
                        .map_err(|e| format!("invite: {}", e))?;
                Ok(invite.invite_sign)
            }
            Ask::StoredRows { .. } => unreachable!(),
        }
    });
    let sig = match obtained {
        Ok(s) => s,
        Err(e) => {
            // the identity proof not verifying for its own challenge is not a C06 matter, but
            // the case decided nothing
            o.discard = Some(format!("oracle-request:{}", e));
            return o;
        }
    };
    o.count("signing_requests", 1);

    // R, which the victim never authored, carrying the obtained signature
    let mut candidates = vec![("victim-key", Signed { row: case.r.clone(), vk: victim_vk.clone(), sig: sig.clone() })];
    if matches!(case.ask, Ask::IdentityDigestOtherKey) {
        candidates.push(("other-key", Signed { row: case.r.clone(), vk: vk(1), sig: sig.clone() }));
    }
    let structural = case.r.structural().is_ok();
    o.nontrivial = structural;
    if !structural {
        o.label("oracle:row-structurally-invalid");
    }
    for (what, c) in &candidates {
        let direct = verify(c);
        // and through the running verification service of the instance
        let through_service: Result<(), String> = w.rt.block_on(async {
            match &c.row {
                Row::Node(n) => peer.sigs.verify_nodes(vec![real_node(n, &c.vk, &c.sig)]).await.map(|_| ()),
                Row::Edge(e) => peer.sigs.verify_edges(vec![real_edge(e, &c.vk, &c.sig)]).await.map(|_| ()),
                Row::NodeDel(d) => peer.sigs.verify_node_log(vec![real_node_del(d, &c.vk, &c.sig)]).await.map(|_| ()),
                Row::EdgeDel(d) => peer.sigs.verify_edge_log(vec![real_edge_del(d, &c.vk, &c.sig)]).await.map(|_| ()),
            }
            .map_err(|e| e.to_string())
        });
        if direct.is_ok() || through_service.is_ok() {
            let sig_name = match &case.ask {
                Ask::IdentityDigest => "oracle:prove-identity-signs-row-digest".to_string(),
                Ask::Announce { .. } => "oracle:announce-header-signature-verifies-as-row".to_string(),
                Ask::Invite { .. } => "oracle:invitation-signature-verifies-as-row".to_string(),
                other => format!("oracle:{}-signature-verifies-as-row", other.name()),
            };
            o.violation(
                sig_name,
                format!(
                    "request {} answered by the instance; the returned signature placed on a {} the instance never authored ({}) verifies (verify(): {:?}, verification service: {:?}); row: {:?}",
                    ask,
                    c.row.kind().name(),
                    what,
                    direct.is_ok(),
                    through_service.is_ok(),
                    c.row
                ),
            );
        } else {
            o.count("oracle_forgeries_rejected", 1);
        }
    }
    o
}
