//! Row model of the four signed kinds, the reference layout of their digest input (written from
//! reading node.rs / edge.rs, used for classification only), conversion to the real types,
//! signing / verification through the real code.

use discret::verif as dv;
use dv::database::edge::{Edge, EdgeDeletionEntry};
use dv::database::node::{Node, NodeDeletionEntry};
use dv::security::{Ed25519SigningKey, SigningKey, Uid};
use dv::signature_verification_service::SignatureVerificationService as Svc;
use serde::{Deserialize, Deserializer, Serialize, Serializer};
use std::sync::OnceLock;

// ------------------------------------------------------------------------------------------
// hex encoded byte strings (compact, readable replay files)
// ------------------------------------------------------------------------------------------

#[derive(Clone, PartialEq, Eq, PartialOrd, Ord, Default)]
pub struct Hex(pub Vec<u8>);
impl std::fmt::Debug for Hex {
    fn fmt(&self, f: &mut std::fmt::Formatter<'_>) -> std::fmt::Result {
        write!(f, "x'{}'", to_hex(&self.0))
    }
}
pub fn to_hex(b: &[u8]) -> String {
    let mut s = String::with_capacity(b.len() * 2);
    for x in b {
        s.push_str(&format!("{:02x}", x));
    }
    s
}
fn from_hex(s: &str) -> Result<Vec<u8>, String> {
    if s.len() % 2 != 0 {
        return Err("odd hex length".into());
    }
    let b = s.as_bytes();
    let v = |c: u8| -> Result<u8, String> {
        match c {
            b'0'..=b'9' => Ok(c - b'0'),
            b'a'..=b'f' => Ok(c - b'a' + 10),
            b'A'..=b'F' => Ok(c - b'A' + 10),
            _ => Err("bad hex digit".into()),
        }
    };
    let mut out = Vec::with_capacity(s.len() / 2);
    for i in (0..b.len()).step_by(2) {
        out.push(v(b[i])? * 16 + v(b[i + 1])?);
    }
    Ok(out)
}
impl Serialize for Hex {
    fn serialize<S: Serializer>(&self, s: S) -> Result<S::Ok, S::Error> {
        s.serialize_str(&to_hex(&self.0))
    }
}
impl<'de> Deserialize<'de> for Hex {
    fn deserialize<D: Deserializer<'de>>(d: D) -> Result<Self, D::Error> {
        let s = String::deserialize(d)?;
        from_hex(&s).map(Hex).map_err(serde::de::Error::custom)
    }
}
impl Hex {
    /// exactly 16 bytes (zero padded / truncated: only matters for hand edited replay files)
    pub fn uid(&self) -> Uid {
        let mut u = [0u8; 16];
        for (i, b) in self.0.iter().take(16).enumerate() {
            u[i] = *b;
        }
        u
    }
}

// ------------------------------------------------------------------------------------------
// rows
// ------------------------------------------------------------------------------------------

#[derive(Clone, Copy, Debug, PartialEq, Eq, PartialOrd, Ord, Serialize, Deserialize)]
pub enum Kind {
    Node,
    Edge,
    NodeDel,
    EdgeDel,
}
impl Kind {
    pub const ALL: [Kind; 4] = [Kind::Node, Kind::Edge, Kind::NodeDel, Kind::EdgeDel];
    pub fn name(&self) -> &'static str {
        match self {
            Kind::Node => "node",
            Kind::Edge => "edge",
            Kind::NodeDel => "node-deletion",
            Kind::EdgeDel => "edge-deletion",
        }
    }
}

#[derive(Clone, Debug, PartialEq, Eq, Serialize, Deserialize)]
pub struct NodeR {
    pub id: Hex,
    pub room_id: Option<Hex>,
    pub cdate: i64,
    pub mdate: i64,
    pub entity: String,
    pub json: Option<String>,
    pub binary: Option<Hex>,
}
#[derive(Clone, Debug, PartialEq, Eq, Serialize, Deserialize)]
pub struct EdgeR {
    pub src: Hex,
    pub src_entity: String,
    pub label: String,
    pub dest: Hex,
    pub cdate: i64,
}
#[derive(Clone, Debug, PartialEq, Eq, Serialize, Deserialize)]
pub struct NodeDelR {
    pub room_id: Hex,
    pub id: Hex,
    pub mdate: i64,
    pub entity: String,
    pub deletion_date: i64,
}
#[derive(Clone, Debug, PartialEq, Eq, Serialize, Deserialize)]
pub struct EdgeDelR {
    pub room_id: Hex,
    pub src: Hex,
    pub src_entity: String,
    pub label: String,
    pub dest: Hex,
    pub cdate: i64,
    pub deletion_date: i64,
}

#[derive(Clone, Debug, PartialEq, Eq, Serialize, Deserialize)]
pub enum Row {
    Node(NodeR),
    Edge(EdgeR),
    NodeDel(NodeDelR),
    EdgeDel(EdgeDelR),
}

/// one field of the digest input, in digest order
pub struct Seg {
    pub name: &'static str,
    pub bytes: Vec<u8>,
    pub present: bool,
}
fn seg(name: &'static str, bytes: Vec<u8>) -> Seg {
    Seg { name, bytes, present: true }
}
fn absent(name: &'static str) -> Seg {
    Seg { name, bytes: vec![], present: false }
}

/// how `_json` enters the node digest: `serde_json::to_string(&String)`, i.e. the JSON string
/// literal of the text (quotes, escapes), not the text itself
pub fn json_literal(j: &str) -> Vec<u8> {
    serde_json::to_string(j).expect("string literal").into_bytes()
}

impl Row {
    pub fn kind(&self) -> Kind {
        match self {
            Row::Node(_) => Kind::Node,
            Row::Edge(_) => Kind::Edge,
            Row::NodeDel(_) => Kind::NodeDel,
            Row::EdgeDel(_) => Kind::EdgeDel,
        }
    }

    /// the fields covered by the signature, in the order node.rs / edge.rs feed them to blake3
    /// (the verifying key, always last, is not included)
    pub fn segments(&self) -> Vec<Seg> {
        match self {
            Row::Node(n) => vec![
                seg("id", n.id.uid().to_vec()),
                match &n.room_id {
                    Some(r) => seg("room_id", r.uid().to_vec()),
                    None => absent("room_id"),
                },
                seg("cdate", n.cdate.to_le_bytes().to_vec()),
                seg("mdate", n.mdate.to_le_bytes().to_vec()),
                seg("_entity", n.entity.as_bytes().to_vec()),
                match &n.json {
                    Some(j) => seg("_json", json_literal(j)),
                    None => absent("_json"),
                },
                match &n.binary {
                    Some(b) => seg("_binary", b.0.clone()),
                    None => absent("_binary"),
                },
            ],
            Row::Edge(e) => vec![
                seg("src", e.src.uid().to_vec()),
                seg("src_entity", e.src_entity.as_bytes().to_vec()),
                seg("label", e.label.as_bytes().to_vec()),
                seg("dest", e.dest.uid().to_vec()),
                seg("cdate", e.cdate.to_le_bytes().to_vec()),
            ],
            Row::NodeDel(d) => vec![
                seg("room_id", d.room_id.uid().to_vec()),
                seg("id", d.id.uid().to_vec()),
                seg("mdate", d.mdate.to_le_bytes().to_vec()),
                seg("entity", d.entity.as_bytes().to_vec()),
                seg("deletion_date", d.deletion_date.to_le_bytes().to_vec()),
            ],
            Row::EdgeDel(d) => vec![
                seg("room_id", d.room_id.uid().to_vec()),
                seg("src", d.src.uid().to_vec()),
                seg("src_entity", d.src_entity.as_bytes().to_vec()),
                seg("label", d.label.as_bytes().to_vec()),
                seg("dest", d.dest.uid().to_vec()),
                seg("cdate", d.cdate.to_le_bytes().to_vec()),
                seg("deletion_date", d.deletion_date.to_le_bytes().to_vec()),
            ],
        }
    }

    /// digest input without the trailing verifying key
    pub fn body(&self) -> Vec<u8> {
        let mut v = vec![];
        for s in self.segments() {
            v.extend_from_slice(&s.bytes);
        }
        v
    }

    /// reference digest (blake3 over body + verifying key)
    pub fn digest(&self, vk: &[u8]) -> [u8; 32] {
        let mut h = blake3::Hasher::new();
        h.update(&self.body());
        h.update(vk);
        *h.finalize().as_bytes()
    }

    /// names of the fields in which two rows of the same kind differ (digest order).
    /// For optional fields `None` and `Some(empty)` are different values.
    pub fn diff(&self, other: &Row) -> Vec<&'static str> {
        let a = self.segments();
        let b = other.segments();
        let mut out = vec![];
        for (x, y) in a.iter().zip(b.iter()) {
            if x.present != y.present || self.raw_field(x.name) != other.raw_field(y.name) {
                out.push(x.name);
            }
        }
        out
    }

    /// names of the fields whose extent (presence, start, end) in the digest input differs between
    /// two rows of the same kind: for two rows with the same digest input this says which
    /// boundaries moved, whatever the values happen to be
    pub fn extent_diff(&self, other: &Row) -> Vec<&'static str> {
        let ext = |r: &Row| -> Vec<(&'static str, bool, usize, usize)> {
            let mut p = 0;
            r.segments()
                .into_iter()
                .map(|s| {
                    let e = (s.name, s.present, p, p + s.bytes.len());
                    p += s.bytes.len();
                    e
                })
                .collect()
        };
        let a = ext(self);
        let b = ext(other);
        a.iter()
            .zip(b.iter())
            .filter(|(x, y)| {
                if !x.1 && !y.1 {
                    false // absent in both
                } else {
                    x.1 != y.1 || x.2 != y.2 || x.3 != y.3
                }
            })
            .map(|(x, _)| x.0)
            .collect()
    }

    /// the stored value of a field (for `_json` the text, not the literal)
    fn raw_field(&self, name: &str) -> Vec<u8> {
        if let (Row::Node(n), "_json") = (self, name) {
            return n.json.clone().unwrap_or_default().into_bytes();
        }
        self.segments()
            .into_iter()
            .find(|s| s.name == name)
            .map(|s| s.bytes)
            .unwrap_or_default()
    }

    /// `None` versus `Some(empty)` in the only differing field
    pub fn none_vs_empty(&self, other: &Row, field: &str) -> bool {
        let a = self.segments().into_iter().find(|s| s.name == field);
        let b = other.segments().into_iter().find(|s| s.name == field);
        match (a, b) {
            (Some(a), Some(b)) => a.present != b.present && a.bytes.is_empty() && b.bytes.is_empty(),
            _ => false,
        }
    }

    /// every precondition of verify() other than the signature itself, written from the
    /// property statement (non-empty entity / label, JSON object, edge size limit)
    pub fn structural(&self) -> Result<(), &'static str> {
        match self {
            Row::Node(n) => {
                if n.entity.is_empty() {
                    return Err("empty-entity");
                }
                if let Some(j) = &n.json {
                    match serde_json::from_str::<serde_json::Value>(j) {
                        Ok(v) if v.is_object() => {}
                        Ok(_) => return Err("json-not-object"),
                        Err(_) => return Err("json-invalid"),
                    }
                }
                Ok(())
            }
            Row::Edge(e) => {
                if e.src_entity.is_empty() {
                    return Err("empty-entity");
                }
                if e.label.is_empty() {
                    return Err("empty-label");
                }
                // src + src_entity + label + dest + cdate + key + signature
                if 16 + e.src_entity.len() + e.label.len() + 16 + 8 + 33 + 64 > 1024 {
                    return Err("edge-too-big");
                }
                Ok(())
            }
            Row::NodeDel(_) | Row::EdgeDel(_) => Ok(()),
        }
    }
}

// ------------------------------------------------------------------------------------------
// keys
// ------------------------------------------------------------------------------------------

pub const KEYS: usize = 4;
pub fn key(i: usize) -> &'static Ed25519SigningKey {
    static K: OnceLock<Vec<Ed25519SigningKey>> = OnceLock::new();
    let v = K.get_or_init(|| {
        (0..KEYS)
            .map(|i| {
                let seed = *blake3::hash(format!("c06 harness key {}", i).as_bytes()).as_bytes();
                Ed25519SigningKey::create_from(&seed)
            })
            .collect()
    });
    &v[i % KEYS]
}
pub fn vk(i: usize) -> Vec<u8> {
    key(i).export_verifying_key()
}

// ------------------------------------------------------------------------------------------
// real rows
// ------------------------------------------------------------------------------------------

#[derive(Clone, Debug)]
pub struct Signed {
    pub row: Row,
    pub vk: Vec<u8>,
    pub sig: Vec<u8>,
}

pub fn real_node(n: &NodeR, vk: &[u8], sig: &[u8]) -> Node {
    Node {
        id: n.id.uid(),
        room_id: n.room_id.as_ref().map(|r| r.uid()),
        cdate: n.cdate,
        mdate: n.mdate,
        _entity: n.entity.clone(),
        _json: n.json.clone(),
        _binary: n.binary.as_ref().map(|b| b.0.clone()),
        verifying_key: vk.to_vec(),
        _signature: sig.to_vec(),
        _local_id: None,
    }
}
pub fn real_edge(e: &EdgeR, vk: &[u8], sig: &[u8]) -> Edge {
    Edge {
        src: e.src.uid(),
        src_entity: e.src_entity.clone(),
        label: e.label.clone(),
        dest: e.dest.uid(),
        cdate: e.cdate,
        verifying_key: vk.to_vec(),
        signature: sig.to_vec(),
    }
}
pub fn real_node_del(d: &NodeDelR, vk: &[u8], sig: &[u8]) -> NodeDeletionEntry {
    NodeDeletionEntry {
        room_id: d.room_id.uid(),
        id: d.id.uid(),
        entity: d.entity.clone(),
        mdate: d.mdate,
        deletion_date: d.deletion_date,
        verifying_key: vk.to_vec(),
        signature: sig.to_vec(),
        entity_name: None,
    }
}
pub fn real_edge_del(d: &EdgeDelR, vk: &[u8], sig: &[u8]) -> EdgeDeletionEntry {
    EdgeDeletionEntry {
        room_id: d.room_id.uid(),
        src: d.src.uid(),
        src_entity: d.src_entity.clone(),
        dest: d.dest.uid(),
        label: d.label.clone(),
        cdate: d.cdate,
        deletion_date: d.deletion_date,
        verifying_key: vk.to_vec(),
        signature: sig.to_vec(),
        entity_name: None,
    }
}

/// sign a row with the real signing code of its kind
pub fn sign(row: &Row, k: &Ed25519SigningKey) -> Result<Signed, String> {
    let (vk, sig) = match row {
        Row::Node(n) => {
            let mut node = real_node(n, &[], &[]);
            node.sign(k).map_err(|e| e.to_string())?;
            (node.verifying_key, node._signature)
        }
        Row::Edge(e) => {
            let mut edge = real_edge(e, &[], &[]);
            edge.sign(k).map_err(|e| e.to_string())?;
            (edge.verifying_key, edge.signature)
        }
        Row::NodeDel(d) => {
            // the deletion record of the node version (id, mdate, _entity), built like
            // DeletionQuery does
            let node = Node {
                id: d.id.uid(),
                mdate: d.mdate,
                cdate: d.mdate,
                _entity: d.entity.clone(),
                room_id: Some(d.room_id.uid()),
                _json: None,
                _binary: None,
                verifying_key: vec![],
                _signature: vec![],
                _local_id: None,
            };
            let e = NodeDeletionEntry::build(d.room_id.uid(), &node, d.deletion_date, k);
            (e.verifying_key, e.signature)
        }
        Row::EdgeDel(d) => {
            let edge = Edge {
                src: d.src.uid(),
                src_entity: d.src_entity.clone(),
                label: d.label.clone(),
                dest: d.dest.uid(),
                cdate: d.cdate,
                verifying_key: vec![],
                signature: vec![],
            };
            let e = EdgeDeletionEntry::build(d.room_id.uid(), &edge, d.deletion_date, k);
            (e.verifying_key, e.signature)
        }
    };
    Ok(Signed { row: row.clone(), vk, sig })
}

/// the real verify() of the kind
pub fn verify(s: &Signed) -> Result<(), String> {
    match &s.row {
        Row::Node(n) => real_node(n, &s.vk, &s.sig).verify().map_err(|e| e.to_string()),
        Row::Edge(e) => real_edge(e, &s.vk, &s.sig).verify().map_err(|e| e.to_string()),
        Row::NodeDel(d) => real_node_del(d, &s.vk, &s.sig).verify().map_err(|e| e.to_string()),
        Row::EdgeDel(d) => real_edge_del(d, &s.vk, &s.sig).verify().map_err(|e| e.to_string()),
    }
}

/// the batch check the synchronisation uses (SignatureVerificationService::*_check): `rows` must
/// all be of the same kind. Ok(number of rows returned) when the batch is accepted.
pub fn service_check(rows: &[&Signed]) -> Result<usize, String> {
    let kind = rows[0].row.kind();
    match kind {
        Kind::Node => {
            let v: Vec<Node> = rows
                .iter()
                .filter_map(|s| if let Row::Node(n) = &s.row { Some(real_node(n, &s.vk, &s.sig)) } else { None })
                .collect();
            Svc::nodes_check(v).map(|v| v.len()).map_err(|e| e.to_string())
        }
        Kind::Edge => {
            let v: Vec<Edge> = rows
                .iter()
                .filter_map(|s| if let Row::Edge(n) = &s.row { Some(real_edge(n, &s.vk, &s.sig)) } else { None })
                .collect();
            Svc::edges_check(v).map(|v| v.len()).map_err(|e| e.to_string())
        }
        Kind::NodeDel => {
            let v: Vec<NodeDeletionEntry> = rows
                .iter()
                .filter_map(|s| if let Row::NodeDel(n) = &s.row { Some(real_node_del(n, &s.vk, &s.sig)) } else { None })
                .collect();
            Svc::node_log_check(v).map(|v| v.len()).map_err(|e| e.to_string())
        }
        Kind::EdgeDel => {
            let v: Vec<EdgeDeletionEntry> = rows
                .iter()
                .filter_map(|s| if let Row::EdgeDel(n) = &s.row { Some(real_edge_del(n, &s.vk, &s.sig)) } else { None })
                .collect();
            Svc::edge_log_check(v).map(|v| v.len()).map_err(|e| e.to_string())
        }
    }
}
