//! C07: a room definition accepted from a peer only adds entitled entries.
use discret::verif as dvv;
use dv::engine::*;
use dv::rights::*;
use dv::rightsworld::{dedupe, entity_sel, group_strategy, right_strategy, GroupSpec, RightSpec};
use dv::world::*;
use dvv::database::edge::Edge;
use dvv::database::node::Node;
use dvv::database::room_node::{AuthorisationNode, EntityRightNode, RoomNode, UserNode};
use dvv::security::{new_uid, Ed25519SigningKey, SigningKey, Uid};
use proptest::prelude::*;
use serde::{Deserialize, Serialize};

struct C07;

#[derive(Clone, Copy, Debug, Serialize, Deserialize, PartialEq)]
pub enum Place {
    Admin,
    User(u8),
    UserAdmin(u8),
    Right(u8),
}
#[derive(Clone, Copy, Debug, Serialize, Deserialize, PartialEq)]
pub enum When {
    Now,
    /// the date of the oldest entry of the room (the attacker back-dates)
    Oldest,
    /// one millisecond after the newest entry
    AfterNewest,
    Future,
    /// while the attacker held its former role (roles 1 and 2), else like Now
    WhileEntitled,
    /// one millisecond after the attacker lost its former role
    AfterRemoval,
}

#[derive(Clone, Debug, Serialize, Deserialize, PartialEq)]
pub enum Edit {
    Omit { place: Place, idx: u8 },
    OmitGroup { g: u8 },
    Reverse { place: Place },
    Duplicate { place: Place, idx: u8 },
    /// an honest entry node of the OTHER room placed here with a reference signed by the attacker
    ReplayFromOtherRoom { from: Place, idx: u8, into: Place, when: When },
    /// an honest entry node of this room placed in another list / group of this room
    ReplayWithinRoom { from: Place, idx: u8, into: Place, when: When },
    /// entry node and reference both signed by the attacker
    Forge {
        into: Place,
        attacker_key: bool,
        enabled: bool,
        right: RightSpec,
        when: When,
        /// creation date of the forged row when it differs from its date
        #[serde(default)]
        created: Option<When>,
    },
    /// an existing entry changed; re-signed by the attacker or left with its old signature
    Alter { place: Place, idx: u8, resign: bool },
    /// a whole new group signed by the attacker, granting itself everything
    ForgeGroup { when: When },
}

#[derive(Clone, Debug, Serialize, Deserialize, PartialEq)]
pub enum HOp {
    Tick { ms: u32 },
    AddAdmin { key: u8, enabled: bool },
    AddRight { group: u8, right: RightSpec },
    AddUser { group: u8, key: u8, enabled: bool },
    AddUserAdmin { group: u8, key: u8, enabled: bool },
}

#[derive(Clone, Debug, Serialize, Deserialize)]
pub struct Case {
    pub groups: Vec<GroupSpec>,
    pub other_groups: Vec<GroupSpec>,
    /// honest history before the victim's pull, and after it
    pub before: Vec<HOp>,
    pub after: Vec<HOp>,
    /// the victim has never seen the room
    pub fresh_victim: bool,
    /// the candidate is built on the older export
    pub base_old: bool,
    pub edits: Vec<Edit>,
    /// the shape of the known finding (replay behind a foreign reference) is excluded by construction
    #[serde(default)]
    pub no_replay: bool,
    /// 0: the attacker is a plain user of group 0; 1: it WAS an admin of the room (enabled, later
    /// disabled); 2: it WAS a user admin of group 0
    #[serde(default)]
    pub attacker_role: u8,
}

fn place_strategy() -> impl Strategy<Value = Place> {
    prop_oneof![3 => Just(Place::Admin), 2 => (0u8..2).prop_map(Place::User), 2 => (0u8..2).prop_map(Place::UserAdmin), 2 => (0u8..2).prop_map(Place::Right)]
}
fn when_strategy() -> impl Strategy<Value = When> {
    prop_oneof![3 => Just(When::Now), 2 => Just(When::Oldest), 1 => Just(When::AfterNewest), 1 => Just(When::Future), 2 => Just(When::WhileEntitled), 1 => Just(When::AfterRemoval)]
}

fn strategy(max_edits: usize) -> BoxedStrategy<Case> {
    // keys: 0 = admin (the honest writer), 1..3 = honest members
    let hop = prop_oneof![
        2 => prop_oneof![1u32..3000, (DAY as u32)..(DAY as u32 + 100000)].prop_map(|ms| HOp::Tick { ms }),
        1 => (1u8..4, any::<bool>()).prop_map(|(key, enabled)| HOp::AddAdmin { key, enabled }),
        3 => (0u8..2, right_strategy()).prop_map(|(group, right)| HOp::AddRight { group, right }),
        3 => (0u8..2, 0u8..4, any::<bool>()).prop_map(|(group, key, enabled)| HOp::AddUser { group, key, enabled }),
        1 => (0u8..2, 1u8..4, any::<bool>()).prop_map(|(group, key, enabled)| HOp::AddUserAdmin { group, key, enabled }),
    ];
    let edit = prop_oneof![
        2 => (place_strategy(), 0u8..4).prop_map(|(place, idx)| Edit::Omit { place, idx }),
        1 => (0u8..2).prop_map(|g| Edit::OmitGroup { g }),
        1 => place_strategy().prop_map(|place| Edit::Reverse { place }),
        1 => (place_strategy(), 0u8..4).prop_map(|(place, idx)| Edit::Duplicate { place, idx }),
        4 => (place_strategy(), 0u8..4, place_strategy(), when_strategy()).prop_map(|(from, idx, into, when)| Edit::ReplayFromOtherRoom { from, idx, into, when }),
        3 => (place_strategy(), 0u8..4, place_strategy(), when_strategy()).prop_map(|(from, idx, into, when)| Edit::ReplayWithinRoom { from, idx, into, when }),
        8 => (place_strategy(), any::<bool>(), any::<bool>(), right_strategy(), prop_oneof![2 => when_strategy(), 1 => Just(When::AfterRemoval)], proptest::option::weighted(0.5, prop_oneof![1 => when_strategy(), 2 => Just(When::WhileEntitled)]))
            .prop_map(|(into, attacker_key, enabled, right, when, created)| Edit::Forge { into, attacker_key, enabled, right, when, created }),
        2 => (place_strategy(), 0u8..4, any::<bool>()).prop_map(|(place, idx, resign)| Edit::Alter { place, idx, resign }),
        1 => when_strategy().prop_map(|when| Edit::ForgeGroup { when }),
    ];
    (
        proptest::collection::vec(group_strategy(4), 2..=2),
        proptest::collection::vec(group_strategy(4), 2..=2),
        proptest::collection::vec(hop.clone(), 0..8),
        proptest::collection::vec(hop, 0..8),
        prop_oneof![3 => Just(false), 1 => Just(true)],
        any::<bool>(),
        proptest::collection::vec(edit, 0..max_edits),
        prop_oneof![3 => Just(true), 2 => Just(false)],
        prop_oneof![2 => Just(0u8), 2 => Just(1u8), 1 => Just(2u8)],
    )
        .prop_map(|(groups, other_groups, before, after, fresh_victim, base_old, edits, no_replay, attacker_role)| Case { groups, other_groups, before, after, fresh_victim, base_old, edits, no_replay, attacker_role })
        .boxed()
}

fn group_text(spec: &GroupSpec, keys: &[String], p: &mut Parameters, prefix: &str) -> String {
    let spec = &dedupe(spec, keys.len());
    let mut s = String::from("{ name:\"g\" ");
    // every group has at least one right so that it is never empty
    s.push_str("rights:[");
    let mut rights = spec.rights.clone();
    if rights.is_empty() {
        rights.push(RightSpec { entity: 2, own: true, all: false });
    }
    for (i, r) in rights.iter().enumerate() {
        let n = format!("{}r{}", prefix, i);
        p.add(&n, entity_sel(r.entity).to_string()).unwrap();
        s.push_str(&format!("{{entity:${} mutate_self:{} mutate_all:{}}},", n, r.own, r.all));
    }
    s.push_str("] ");
    if !spec.users.is_empty() {
        s.push_str("users:[");
        for (i, (u, en)) in spec.users.iter().enumerate() {
            let n = format!("{}u{}", prefix, i);
            p.add(&n, keys[*u as usize % keys.len()].clone()).unwrap();
            s.push_str(&format!("{{verif_key:${} enabled:{}}},", n, en));
        }
        s.push_str("] ");
    }
    if !spec.user_admins.is_empty() {
        s.push_str("user_admin:[");
        for (i, (u, en)) in spec.user_admins.iter().enumerate() {
            let n = format!("{}a{}", prefix, i);
            p.add(&n, keys[*u as usize % keys.len()].clone()).unwrap();
            s.push_str(&format!("{{verif_key:${} enabled:{}}},", n, en));
        }
        s.push_str("] ");
    }
    s.push('}');
    s
}

async fn create_room(a: &Peer, keys: &[String], groups: &[GroupSpec], extra_admin: Option<&String>) -> Result<(Uid, String, Vec<String>), String> {
    Clock::advance(1);
    let mut p = Parameters::new();
    p.add("me", keys[0].clone()).unwrap();
    let mut admins = String::from("{verif_key:$me}");
    if let Some(x) = extra_admin {
        p.add("x", x.clone()).unwrap();
        admins.push_str(",{verif_key:$x}");
    }
    let mut gs = String::new();
    for (gi, g) in groups.iter().enumerate() {
        gs.push_str(&group_text(g, keys, &mut p, &format!("g{}", gi)));
        gs.push(',');
    }
    let q = format!("mutate {{ sys.Room {{ admin:[{}] authorisations:[{}] }} }}", admins, gs);
    let res = a.mutate(&q, Some(p)).await?;
    let v: serde_json::Value = serde_json::from_str(&res).map_err(|e| e.to_string())?;
    let id64 = v["sys.Room"]["id"].as_str().ok_or("room id")?.to_string();
    let mut gids = vec![];
    for gi in 0..groups.len() {
        gids.push(v["sys.Room"]["authorisations"][gi]["id"].as_str().ok_or("gid")?.to_string());
    }
    Ok((uid_of(&id64), id64, gids))
}

async fn honest_ops(a: &Peer, room64: &str, gids: &[String], keys: &[String], ops: &[HOp]) {
    for op in ops {
        let mut p = Parameters::new();
        p.add("room", room64.to_string()).unwrap();
        let q = match op {
            HOp::Tick { ms } => {
                Clock::advance(*ms as i64);
                continue;
            }
            HOp::AddAdmin { key, enabled } => {
                p.add("k", keys[*key as usize % keys.len()].clone()).unwrap();
                format!("mutate {{ sys.Room {{ id:$room admin:[{{verif_key:$k enabled:{}}}] }} }}", enabled)
            }
            HOp::AddRight { group, right } => {
                p.add("g", gids[*group as usize % gids.len()].clone()).unwrap();
                p.add("e", entity_sel(right.entity).to_string()).unwrap();
                format!("mutate {{ sys.Room {{ id:$room authorisations:[{{ id:$g rights:[{{entity:$e mutate_self:{} mutate_all:{}}}] }}] }} }}", right.own, right.all)
            }
            HOp::AddUser { group, key, enabled } | HOp::AddUserAdmin { group, key, enabled } => {
                p.add("g", gids[*group as usize % gids.len()].clone()).unwrap();
                p.add("k", keys[*key as usize % keys.len()].clone()).unwrap();
                format!(
                    "mutate {{ sys.Room {{ id:$room authorisations:[{{ id:$g {}:[{{verif_key:$k enabled:{}}}] }}] }} }}",
                    if matches!(op, HOp::AddUser { .. }) { "users" } else { "user_admin" },
                    enabled
                )
            }
        };
        Clock::advance(1);
        let _ = a.mutate(&q, Some(p)).await;
        a.fence().await;
    }
}

// ---- candidate surgery --------------------------------------------------------------------------

fn user_json(key64: &str, enabled: bool) -> String {
    serde_json::json!({"32": key64, "33": enabled}).to_string()
}
fn right_json(entity: &str, own: bool, all: bool) -> String {
    serde_json::json!({"32": entity, "33": own, "34": all}).to_string()
}
fn forged_node(entity_short: &str, json: String, date: i64, signer: &Ed25519SigningKey) -> Node {
    forged_node_created(entity_short, json, date, date, signer)
}
fn forged_node_created(entity_short: &str, json: String, date: i64, cdate: i64, signer: &Ed25519SigningKey) -> Node {
    let mut n = Node {
        id: new_uid(),
        room_id: None,
        cdate,
        mdate: date,
        _entity: entity_short.to_string(),
        _json: Some(json),
        _binary: None,
        verifying_key: vec![],
        _signature: vec![],
        _local_id: None,
    };
    n.sign(signer).unwrap();
    n
}
fn forged_edge(src: Uid, src_entity: &str, label: &str, dest: Uid, date: i64, signer: &Ed25519SigningKey) -> Edge {
    let mut e = Edge { src, src_entity: src_entity.to_string(), label: label.to_string(), dest, cdate: date, ..Default::default() };
    e.sign(signer).unwrap();
    e
}

/// (nodes, edges, source id, source entity, label) of a place of a candidate
fn entry_nodes(rn: &RoomNode, place: Place) -> Vec<Node> {
    match place {
        Place::Admin => rn.admin_nodes.iter().map(|u| u.node.clone()).collect(),
        Place::User(g) => rn.auth_nodes.get(g as usize % rn.auth_nodes.len().max(1)).map(|a| a.user_nodes.iter().map(|u| u.node.clone()).collect()).unwrap_or_default(),
        Place::UserAdmin(g) => rn.auth_nodes.get(g as usize % rn.auth_nodes.len().max(1)).map(|a| a.user_admin_nodes.iter().map(|u| u.node.clone()).collect()).unwrap_or_default(),
        Place::Right(g) => rn.auth_nodes.get(g as usize % rn.auth_nodes.len().max(1)).map(|a| a.right_nodes.iter().map(|u| u.node.clone()).collect()).unwrap_or_default(),
    }
}
fn insert_entry(rn: &mut RoomNode, place: Place, node: Node, edge_date: i64, signer: &Ed25519SigningKey) {
    match place {
        Place::Admin => {
            let e = forged_edge(rn.node.id, "0.0", "32", node.id, edge_date, signer);
            rn.admin_edges.push(e);
            rn.admin_nodes.push(UserNode { node });
        }
        Place::User(g) | Place::UserAdmin(g) | Place::Right(g) => {
            if rn.auth_nodes.is_empty() {
                return;
            }
            let gi = g as usize % rn.auth_nodes.len();
            let a = &mut rn.auth_nodes[gi];
            let label = match place {
                Place::Right(_) => "33",
                Place::User(_) => "34",
                _ => "35",
            };
            let e = forged_edge(a.node.id, "0.1", label, node.id, edge_date, signer);
            match place {
                Place::Right(_) => {
                    a.right_edges.push(e);
                    a.right_nodes.push(EntityRightNode { node });
                }
                Place::User(_) => {
                    a.user_edges.push(e);
                    a.user_nodes.push(UserNode { node });
                }
                _ => {
                    a.user_admin_edges.push(e);
                    a.user_admin_nodes.push(UserNode { node });
                }
            }
        }
    }
}
fn is_user_place(p: Place) -> bool {
    !matches!(p, Place::Right(_))
}

/// multiset inclusion of the entries of `a` in `b`: returns the first entry of `a` missing in `b`
fn not_included(a: &RoomModel, b: &RoomModel) -> Option<(String, String)> {
    fn users(tag: &str, a: &std::collections::BTreeMap<String, Vec<UserEntry>>, b: Option<&std::collections::BTreeMap<String, Vec<UserEntry>>>) -> Option<(String, String)> {
        for (k, list) in a {
            // set semantics: the same entry stated twice changes no decision
            let rest: Vec<UserEntry> = b.and_then(|m| m.get(k)).cloned().unwrap_or_default();
            for e in list {
                if !rest.contains(e) {
                    return Some((tag.to_string(), format!("key {} {:?}", &k[0..8.min(k.len())], e)));
                }
            }
        }
        None
    }
    if let Some(x) = users("admin", &a.admins, Some(&b.admins)) {
        return Some(x);
    }
    for (gid, g) in &a.groups {
        let bg = b.groups.get(gid);
        if bg.is_none() {
            return Some(("group".to_string(), format!("group {}", gid)));
        }
        if let Some(x) = users("user", &g.users, bg.map(|x| &x.users)) {
            return Some(x);
        }
        if let Some(x) = users("user-admin", &g.user_admins, bg.map(|x| &x.user_admins)) {
            return Some(x);
        }
        for (ent, list) in &g.rights {
            let rest: Vec<RightEntry> = bg.and_then(|m| m.rights.get(ent)).cloned().unwrap_or_default();
            for e in list {
                if !rest.contains(e) {
                    return Some(("right".to_string(), format!("entity {} {:?}", ent, e)));
                }
            }
        }
    }
    None
}

impl Property for C07 {
    type Case = Case;
    const ID: &'static str = "C07";
    fn plan(tier: Tier) -> Plan {
        match tier {
            Tier::Quick => Plan { shards: 16, cases_per_shard: 60, max_shrink_iters: 250 },
            Tier::Thorough => Plan { shards: 16, cases_per_shard: 2500, max_shrink_iters: 500 },
        }
    }
    fn strategy(tier: Tier) -> BoxedStrategy<Case> {
        match tier {
            Tier::Quick => strategy(5),
            Tier::Thorough => strategy(9),
        }
    }
    fn run(case: &Case, ctx: &RunCtx) -> Outcome {
        begin_case(1);
        let dir = ctx.case_dir("c07");
        let rt = runtime();
        let out = rt.block_on(async {
            let mut o = Outcome::default();
            let a = match Peer::start("admin", dv::syncworld::MODEL, dir.join("a")).await {
                Ok(p) => p,
                Err(e) => {
                    o.discard = Some(e);
                    return o;
                }
            };
            let victim = match Peer::start("victim", dv::syncworld::MODEL, dir.join("v")).await {
                Ok(p) => p,
                Err(e) => {
                    o.discard = Some(e);
                    return o;
                }
            };
            let attacker = signing_key_for_secret(&secret_for("attacker"));
            let x64 = b64(&attacker.export_verifying_key());
            let mut keys = vec![a.key64()];
            for i in 1..4 {
                keys.push(b64(&signing_key_for_secret(&secret_for(&format!("paper{}", i))).export_verifying_key()));
            }
            // the target room: the attacker is a plain user of its first group (no entitlement to add anything)
            let (room, room64, gids) = match create_room(&a, &keys, &case.groups, None).await {
                Ok(r) => r,
                Err(e) => {
                    o.discard = Some(format!("room: {}", e));
                    return o;
                }
            };
            {
                Clock::advance(1);
                let mut p = Parameters::new();
                p.add("room", room64.clone()).unwrap();
                p.add("g", gids[0].clone()).unwrap();
                p.add("k", x64.clone()).unwrap();
                let _ = a.mutate("mutate { sys.Room { id:$room authorisations:[{ id:$g users:[{verif_key:$k}] }] } }", Some(p)).await;
            }
            // former roles of the attacker: granted now, withdrawn after the first part of the honest history
            let mut t_granted = 0;
            let mut t_removed = 0;
            if case.attacker_role % 3 != 0 {
                Clock::advance(1);
                t_granted = Clock::get();
                let mut p = Parameters::new();
                p.add("room", room64.clone()).unwrap();
                p.add("g", gids[0].clone()).unwrap();
                p.add("k", x64.clone()).unwrap();
                let q = if case.attacker_role % 3 == 1 {
                    "mutate { sys.Room { id:$room admin:[{verif_key:$k}] } }"
                } else {
                    "mutate { sys.Room { id:$room authorisations:[{ id:$g user_admin:[{verif_key:$k}] }] } }"
                };
                let _ = a.mutate(q, Some(p)).await;
                Clock::advance(5000);
            }
            // another room of the same admin, in which the attacker IS an admin: a source of validly
            // signed rows for replay
            let (other, _other64, _ogids) = match create_room(&a, &keys, &case.other_groups, Some(&x64)).await {
                Ok(r) => r,
                Err(e) => {
                    o.discard = Some(format!("other room: {}", e));
                    return o;
                }
            };
            honest_ops(&a, &room64, &gids, &keys, &case.before).await;
            if case.attacker_role % 3 != 0 {
                Clock::advance(5000);
                t_removed = Clock::get();
                let mut p = Parameters::new();
                p.add("room", room64.clone()).unwrap();
                p.add("g", gids[0].clone()).unwrap();
                p.add("k", x64.clone()).unwrap();
                let q = if case.attacker_role % 3 == 1 {
                    "mutate { sys.Room { id:$room admin:[{verif_key:$k enabled:false}] } }"
                } else {
                    "mutate { sys.Room { id:$room authorisations:[{ id:$g user_admin:[{verif_key:$k enabled:false}] }] } }"
                };
                let _ = a.mutate(q, Some(p)).await;
                Clock::advance(5000);
            }
            let as_admin = PullOptions { as_key: Some(a.verifying_key.clone()), only_rooms: Some(vec![room]), ..Default::default() };
            let export_old = a.db.get_room_node(room).await.ok().flatten();
            if !case.fresh_victim {
                Clock::advance(1);
                let st = pull(&victim, &a, &as_admin).await;
                if !st.sync_errors.is_empty() {
                    o.violation("honest-import-refused", format!("{:?}", st.sync_errors));
                    return o;
                }
            }
            honest_ops(&a, &room64, &gids, &keys, &case.after).await;
            let export_new = a.db.get_room_node(room).await.ok().flatten();
            let other_export = a.db.get_room_node(other).await.ok().flatten();
            let (Some(export_old), Some(export_new), Some(other_export)) = (export_old, export_new, other_export) else {
                o.discard = Some("export".into());
                return o;
            };
            let honest = RoomModel::from_room(&a.room(room).await.unwrap());
            let before = match victim.room(room).await {
                Some(r) => RoomModel::from_room(&r),
                None => RoomModel::default(),
            };
            // ---- the candidate --------------------------------------------------------------------
            let mut cand = if case.base_old { export_old.clone() } else { export_new.clone() };
            let now = Clock::get() + 10;
            let dates = honest.dates();
            let date_of = |w: When| match w {
                When::Now => now,
                When::Oldest => *dates.first().unwrap_or(&now),
                When::AfterNewest => dates.last().map(|d| d + 1).unwrap_or(now),
                When::Future => now + 30 * DAY,
                When::WhileEntitled => if t_granted > 0 { t_granted + 1000 } else { now },
                When::AfterRemoval => if t_removed > 0 { t_removed + 1 } else { now },
            };
            let mut dishonest = false;
            for e in &case.edits {
                match e {
                    Edit::Omit { place, idx } => {
                        let nodes = entry_nodes(&cand, *place);
                        if nodes.is_empty() {
                            continue;
                        }
                        let id = nodes[*idx as usize % nodes.len()].id;
                        cand.admin_nodes.retain(|n| n.node.id != id);
                        cand.admin_edges.retain(|e| e.dest != id);
                        for a in cand.auth_nodes.iter_mut() {
                            a.user_nodes.retain(|n| n.node.id != id);
                            a.user_edges.retain(|e| e.dest != id);
                            a.user_admin_nodes.retain(|n| n.node.id != id);
                            a.user_admin_edges.retain(|e| e.dest != id);
                            a.right_nodes.retain(|n| n.node.id != id);
                            a.right_edges.retain(|e| e.dest != id);
                        }
                    }
                    Edit::OmitGroup { g } => {
                        if cand.auth_nodes.len() > 1 {
                            let gi = *g as usize % cand.auth_nodes.len();
                            let id = cand.auth_nodes[gi].node.id;
                            cand.auth_nodes.remove(gi);
                            cand.auth_edges.retain(|e| e.dest != id);
                        }
                    }
                    Edit::Reverse { place } => match place {
                        Place::Admin => {
                            cand.admin_nodes.reverse();
                            cand.admin_edges.reverse();
                        }
                        Place::User(g) | Place::UserAdmin(g) | Place::Right(g) => {
                            if !cand.auth_nodes.is_empty() {
                                let gi = *g as usize % cand.auth_nodes.len();
                                let a = &mut cand.auth_nodes[gi];
                                a.user_nodes.reverse();
                                a.user_edges.reverse();
                                a.right_nodes.reverse();
                                a.right_edges.reverse();
                            }
                        }
                    },
                    Edit::Duplicate { place, idx } => {
                        let nodes = entry_nodes(&cand, *place);
                        if nodes.is_empty() {
                            continue;
                        }
                        let n = nodes[*idx as usize % nodes.len()].clone();
                        dishonest = true;
                        insert_entry(&mut cand, *place, n, now, &attacker);
                    }
                    Edit::ReplayFromOtherRoom { .. } | Edit::ReplayWithinRoom { .. } | Edit::Duplicate { .. } if case.no_replay => {
                        o.count("excluded_by_construction", 1);
                    }
                    Edit::ReplayFromOtherRoom { from, idx, into, when } | Edit::ReplayWithinRoom { from, idx, into, when } => {
                        let src = if matches!(e, Edit::ReplayFromOtherRoom { .. }) { &other_export } else { &export_new };
                        let nodes = entry_nodes(src, *from);
                        if nodes.is_empty() || is_user_place(*from) != is_user_place(*into) {
                            continue;
                        }
                        let n = nodes[*idx as usize % nodes.len()].clone();
                        // already in that place of the candidate? then it is not an attack
                        if entry_nodes(&cand, *into).iter().any(|x| x.id == n.id) {
                            continue;
                        }
                        dishonest = true;
                        insert_entry(&mut cand, *into, n, date_of(*when), &attacker);
                    }
                    Edit::Forge { into, attacker_key, enabled, right, when, created } => {
                        let d = date_of(*when);
                        let cd = created.map(|c| date_of(c)).unwrap_or(d);
                        let node = if is_user_place(*into) {
                            forged_node_created("0.2", user_json(if *attacker_key { &x64 } else { &keys[1] }, *enabled), d, cd, &attacker)
                        } else {
                            forged_node_created("0.3", right_json(entity_sel(right.entity), right.own, right.all), d, cd, &attacker)
                        };
                        dishonest = true;
                        insert_entry(&mut cand, *into, node, d, &attacker);
                    }
                    Edit::Alter { place, idx, resign } => {
                        let nodes = entry_nodes(&cand, *place);
                        if nodes.is_empty() {
                            continue;
                        }
                        let id = nodes[*idx as usize % nodes.len()].id;
                        let mutate = |n: &mut Node| {
                            if n.id == id {
                                let mut j: serde_json::Value = serde_json::from_str(n._json.as_deref().unwrap_or("{}")).unwrap();
                                if n._entity == "0.2" {
                                    let cur = j["33"].as_bool().unwrap_or(true);
                                    j["33"] = serde_json::json!(!cur);
                                } else {
                                    j["34"] = serde_json::json!(true);
                                    j["33"] = serde_json::json!(true);
                                }
                                n._json = Some(j.to_string());
                                if *resign {
                                    n.sign(&attacker).unwrap();
                                }
                            }
                        };
                        dishonest = true;
                        cand.admin_nodes.iter_mut().for_each(|u| mutate(&mut u.node));
                        for a in cand.auth_nodes.iter_mut() {
                            a.user_nodes.iter_mut().for_each(|u| mutate(&mut u.node));
                            a.user_admin_nodes.iter_mut().for_each(|u| mutate(&mut u.node));
                            a.right_nodes.iter_mut().for_each(|u| mutate(&mut u.node));
                        }
                    }
                    Edit::ForgeGroup { when } => {
                        let d = date_of(*when);
                        let gnode = forged_node("0.1", serde_json::json!({"32": "pwn"}).to_string(), d, &attacker);
                        let mut an = AuthorisationNode {
                            node: gnode.clone(),
                            last_modified: d,
                            right_edges: vec![],
                            right_nodes: vec![],
                            user_edges: vec![],
                            user_nodes: vec![],
                            user_admin_edges: vec![],
                            user_admin_nodes: vec![],
                            need_update: true,
                        };
                        let r = forged_node("0.3", right_json("*", true, true), d, &attacker);
                        an.right_edges.push(forged_edge(gnode.id, "0.1", "33", r.id, d, &attacker));
                        an.right_nodes.push(EntityRightNode { node: r });
                        let u = forged_node("0.2", user_json(&x64, true), d, &attacker);
                        an.user_admin_edges.push(forged_edge(gnode.id, "0.1", "35", u.id, d, &attacker));
                        an.user_admin_nodes.push(UserNode { node: u });
                        let u2 = forged_node("0.2", user_json(&x64, true), d, &attacker);
                        an.user_edges.push(forged_edge(gnode.id, "0.1", "34", u2.id, d, &attacker));
                        an.user_nodes.push(UserNode { node: u2 });
                        cand.auth_edges.push(forged_edge(cand.node.id, "0.0", "33", gnode.id, d, &attacker));
                        cand.auth_nodes.push(an);
                        dishonest = true;
                    }
                }
            }
            // the wire form is what the victim would receive
            let cand: RoomNode = match bincode::serialize(&cand).ok().and_then(|b| bincode::deserialize(&b).ok()) {
                Some(c) => c,
                None => {
                    o.discard = Some("serialisation".into());
                    return o;
                }
            };
            Clock::advance(20);
            let cand_nodes: Vec<Node> = {
                let mut v: Vec<Node> = cand.admin_nodes.iter().map(|u| u.node.clone()).collect();
                for a in &cand.auth_nodes {
                    v.extend(a.user_nodes.iter().map(|u| u.node.clone()));
                    v.extend(a.user_admin_nodes.iter().map(|u| u.node.clone()));
                    v.extend(a.right_nodes.iter().map(|u| u.node.clone()));
                }
                v
            };
            let verdict = match victim.sigs.verify_room_node(cand.clone()).await {
                Ok(c) => victim.db.add_room_node(c).await.map_err(|e| e.to_string()),
                Err(e) => Err(format!("signature: {}", e)),
            };
            victim.fence().await;
            o.label(if verdict.is_ok() { "candidate-accepted" } else { "candidate-refused" });
            o.label(if dishonest { "candidate-with-dishonest-part" } else { "honest-candidate" });
            if case.fresh_victim {
                o.label("fresh-victim");
            }
            let after_room = victim.room(room).await;
            let after = after_room.as_ref().map(RoomModel::from_room).unwrap_or_default();
            // (i) nothing the victim held is removed or altered
            if let Some((place, what)) = not_included(&before, &after) {
                o.violation(format!("existing-entry-lost-or-altered:{}", place), what);
            }
            // (ii) whatever was added is an honest entry of that place
            // entries the attacker authored while it was entitled (its former role, at the entry's date) are
            // legitimate additions: they are added to the set of entitled entries before the comparison
            let mut entitled = honest.clone();
            {
                let xk = attacker.export_verifying_key();
                let entry_of = |n: &Node| -> Option<(String, bool, String, bool, bool)> {
                    let v: serde_json::Value = serde_json::from_str(n._json.as_deref()?).ok()?;
                    if n._entity == "0.2" {
                        Some((v["32"].as_str()?.to_string(), v["33"].as_bool().unwrap_or(true), String::new(), false, false))
                    } else {
                        Some((String::new(), false, v["32"].as_str()?.to_string(), v["33"].as_bool()?, v["34"].as_bool()?))
                    }
                };
                // least fixpoint from the honest entries: an entry the attacker authored while entitled can itself
                // entitle later entries of the attacker (it made itself user admin of a group while it was an admin,
                // and as such adds users after its administrator entry was withdrawn)
                loop {
                    let base = entitled.clone();
                    let has_user = |list: Option<&Vec<UserEntry>>, date: i64, en: bool| list.map(|l| l.iter().any(|e| e.date == date && e.enabled == en)).unwrap_or(false);
                    for n in cand.admin_nodes.iter().map(|u| &u.node) {
                        if n.verifying_key == xk && base.is_admin(&x64, n.mdate) {
                            if let Some((k, en, ..)) = entry_of(n) {
                                if !has_user(entitled.admins.get(&k), n.mdate, en) {
                                    entitled.admins.entry(k).or_default().push(UserEntry { date: n.mdate, enabled: en });
                                }
                            }
                        }
                    }
                    for an in &cand.auth_nodes {
                        let gid = b64(&an.node.id);
                        let admin_at = |d: i64| base.is_admin(&x64, d);
                        let uadmin_at = |d: i64| base.groups.get(&gid).map(|g| g.is_user_admin(&x64, d)).unwrap_or(false);
                        if !entitled.groups.contains_key(&gid) {
                            // a whole group authored by the attacker while it was an admin is an entitled addition
                            if an.node.verifying_key == xk && admin_at(an.node.mdate) {
                                entitled.groups.insert(gid.clone(), GroupModel::default());
                            } else {
                                continue;
                            }
                        }
                        for n in an.user_nodes.iter().map(|u| &u.node) {
                            if n.verifying_key == xk && (admin_at(n.mdate) || uadmin_at(n.mdate)) {
                                if let Some((k, en, ..)) = entry_of(n) {
                                    let g = entitled.groups.get_mut(&gid).unwrap();
                                    if !has_user(g.users.get(&k), n.mdate, en) {
                                        g.users.entry(k).or_default().push(UserEntry { date: n.mdate, enabled: en });
                                    }
                                }
                            }
                        }
                        for n in an.user_admin_nodes.iter().map(|u| &u.node) {
                            if n.verifying_key == xk && admin_at(n.mdate) {
                                if let Some((k, en, ..)) = entry_of(n) {
                                    let g = entitled.groups.get_mut(&gid).unwrap();
                                    if !has_user(g.user_admins.get(&k), n.mdate, en) {
                                        g.user_admins.entry(k).or_default().push(UserEntry { date: n.mdate, enabled: en });
                                    }
                                }
                            }
                        }
                        for n in an.right_nodes.iter().map(|u| &u.node) {
                            if n.verifying_key == xk && admin_at(n.mdate) {
                                if let Some((_, _, ent, own, all)) = entry_of(n) {
                                    let g = entitled.groups.get_mut(&gid).unwrap();
                                    let e = RightEntry { date: n.mdate, own: own || all, all };
                                    if !g.rights.get(&ent).map(|l| l.contains(&e)).unwrap_or(false) {
                                        g.rights.entry(ent).or_default().push(e);
                                    }
                                }
                            }
                        }
                    }
                    if entitled == base {
                        break;
                    }
                }
            }
            let honest_only = honest.clone();
            let honest = entitled;
            if let Some((place, what)) = not_included(&after, &honest) {
                // which part of the candidate brought it? find the candidate row with that date and content
                let date: i64 = what
                    .split("date: ")
                    .nth(1)
                    .and_then(|x| x.split(',').next())
                    .and_then(|x| x.trim().parse().ok())
                    .unwrap_or(0);
                let carriers: Vec<&Node> = cand_nodes.iter().filter(|n| n.mdate == date).collect();
                let author_is_attacker = !carriers.is_empty() && carriers.iter().all(|n| n.verifying_key == attacker.export_verifying_key());
                // an attacker-signed entry may have become 'entitled' in the victim's eyes because an honest
                // entry replayed behind a foreign reference (known finding) made the attacker an admin or a
                // user admin: remove every attacker-signed entry from the accepted state and ask
                let attacker_role_from_replay = {
                    let mut reduced = after.clone();
                    let drop = |m: &mut std::collections::BTreeMap<String, Vec<UserEntry>>| {
                        for list in m.values_mut() {
                            list.retain(|e| !cand_nodes.iter().any(|n| n.mdate == e.date && n.verifying_key == attacker.export_verifying_key()));
                        }
                    };
                    drop(&mut reduced.admins);
                    for g in reduced.groups.values_mut() {
                        drop(&mut g.users);
                        drop(&mut g.user_admins);
                    }
                    reduced.is_admin(&x64, date) || reduced.groups.values().any(|g| g.is_user_admin(&x64, date))
                };
                let how = if author_is_attacker && attacker_role_from_replay {
                    "row-signed-by-attacker-holding-a-replayed-role"
                } else if author_is_attacker {
                    "row-signed-by-attacker"
                } else {
                    "honest-row-placed-by-foreign-reference"
                };
                o.violation(format!("unentitled-entry-accepted:{}:{}", place, how), format!("{} (candidate {:?})", what, verdict));
            }
            // (iii) the decisions of the victim are those of its entries
            if let Some(r) = &after_room {
                let mut ks = keys.clone();
                ks.push(x64.clone());
                let mut ds = vec![];
                for d in after.dates() {
                    ds.extend([d - 1, d, d + 1]);
                }
                ds.push(Clock::get() + 40 * DAY);
                let ents = ["app.Item", "app.Note", "app.Other"];
                if code_matrix(r, &ks, &ents, &ds) != after.matrix(&ks, &ents, &ds) {
                    o.violation("decisions-differ-from-entries", "the victim's access decisions are not those of the entries it holds");
                }
            }
            // (iv) an honest candidate must not be refused, and the honest update still goes through afterwards
            if !dishonest && verdict.is_err() && !case.edits.iter().any(|e| matches!(e, Edit::Omit { .. } | Edit::OmitGroup { .. })) {
                o.label("honest-candidate-refused");
            }
            Clock::advance(1);
            let st = pull(&victim, &a, &as_admin).await;
            let end = victim.room(room).await.map(|r| RoomModel::from_room(&r)).unwrap_or_default();
            let omission = case.edits.iter().any(|e| matches!(e, Edit::Omit { .. } | Edit::OmitGroup { .. }));
            if case.attacker_role % 3 != 0 {
                // a formerly entitled attacker can legitimately have authored rows that conflict with the
                // honest ones (same row id, its own signature): what happens then is not part of this property
                o.label("former-role-attacker");
            } else if st.sync_errors.is_empty() && not_included(&after, &honest).is_some() {
                // the candidate already made the victim accept unentitled entries (reported above, under its own
                // signature): what the honest update can or cannot repair afterwards is a consequence of that
                o.label("honest-update-after-unentitled-acceptance:not-judged");
            } else if st.sync_errors.is_empty() {
                if omission {
                    // a truncated definition carrying the newest date is not repaired before the next change
                    // of the room: not part of this property (nothing unentitled was added)
                    o.label("truncated-candidate");
                } else if let Some((place, what)) = not_included(&honest_only, &end) {
                    o.violation(format!("honest-entry-missing-after-honest-update:{}", place), what);
                }
            } else if not_included(&after, &honest).is_none() {
                // the victim holds only honest entries and yet refuses the honest definition
                o.violation("honest-update-refused-after-candidate", format!("{:?}", st.sync_errors));
            }
            o.nontrivial = dishonest || (!case.fresh_victim && !case.after.is_empty());
            o
        });
        drop(rt);
        let _ = std::fs::remove_dir_all(&dir);
        out
    }
    fn rule() -> String {
        "an honest admin builds a room (2 groups, generated entries, later admins/rights/users/user admins over several days) and another room in which the attacker is admin; the victim holds an earlier version (or has never seen the room); a candidate definition is assembled from the honest export (old or new) by generated edits: omissions, re-orderings, duplicates, replay of validly signed entries of the other room or of other lists/groups of the same room behind references signed by the attacker, entries and whole groups signed by the attacker (its own key or a member's), alteration of existing entries (re-signed or not), back-dated / future-dated; it travels in wire form through the real signature service and add_room_node. Oracle: every entry the victim held is still there unchanged; every entry it holds afterwards is an entry of the honest room in the same place (the attacker is only a plain user: nothing it authors is entitled); its decisions equal those of its entries; the honest definition is still accepted afterwards. Non-trivial = the candidate has a dishonest part, or an honest update on top of an earlier version; distinct = distinct case digest".to_string()
    }
    fn assumptions() -> Vec<String> {
        vec!["entitled entries are exactly those the honest admin made through the API (the attacker holds no admin or user-admin role in the target room)".into()]
    }
}
fn main() {
    main_for::<C07>()
}
