use dv::engine::*;
use dv::props::sync::*;
use proptest::strategy::BoxedStrategy;

struct C03;
impl Property for C03 {
    type Case = SyncCase;
    const ID: &'static str = "C03";
    fn plan(tier: Tier) -> Plan {
        match tier {
            Tier::Quick => Plan { shards: 16, cases_per_shard: 80, max_shrink_iters: 200 },
            Tier::Thorough => Plan { shards: 16, cases_per_shard: 2500, max_shrink_iters: 400 },
        }
    }
    fn strategy(tier: Tier) -> BoxedStrategy<SyncCase> {
        match tier {
            Tier::Quick => case_strategy(40, 3, false),
            Tier::Thorough => case_strategy(70, 4, false),
        }
    }
    fn run(case: &SyncCase, ctx: &RunCtx) -> Outcome {
        let r = run_sync_case(case, ctx, true);
        let mut o = Outcome::default();
        o.labels = r.labels;
        o.nontrivial = r.nontrivial_c03;
        o.counters = r.counters;
        o.violations = r.c03;
        if let Some(e) = r.error {
            o.discard = Some(format!("world-start:{}", e));
        }
        o
    }
    fn rule() -> String {
        "proptest-generated histories (Vec<Op>) of local writes (create/update/reference add, replace, remove/room move/delete), clock ticks (ms to days) and directed pulls between 2-4 real instances wired in-process, followed by rounds over all ordered pairs until one full round changes nothing; non-trivial = (a row written on two different peers or a deletion) and >= 3 sync steps with >= 2 different pullers; distinct = distinct case digest".to_string()
    }
    fn assumptions() -> Vec<String> {
        vec![
            "peers are connected by in-memory channels between the real QueryService and the real process_inbound; QUIC transport is not part of the check".into(),
            "all peers are users of every room with full rights; quiescence is bounded by peers+4 rounds".into(),
        ]
    }
}
fn main() {
    main_for::<C03>()
}
