use dv::engine::*;
use dv::props::sync::*;
use dv::syncworld::{Action, Op};
use proptest::prelude::*;
use proptest::strategy::BoxedStrategy;

/// a history that starts with the same-millisecond clash of the quantifier: two rows created on peer 0 and
/// pulled by peer 1, then one peer sets a reference of row 0 and the other peer updates row 0 in the same
/// millisecond; the generated history follows (seeded change C03-edges-requested-strictly-after-held-version)
fn clash_strategy(max_ops: usize, max_peers: u8) -> BoxedStrategy<SyncCase> {
    (case_strategy(max_ops, max_peers, false), 0u8..2, any::<bool>(), 0u8..14, 0u8..3)
        .prop_map(|(mut case, a, link, value, pull)| {
            let b = 1 - a;
            let mut ops = vec![
                Op::Write { peer: 0, dt: 5, action: Action::Create { entity: 0, room: 0, text: 1, parent: None } },
                Op::Write { peer: 0, dt: 5, action: Action::Create { entity: 0, room: 0, text: 2, parent: None } },
                Op::Sync { puller: 1, server: 0 },
                Op::Tick { ms: 50 },
                Op::Write {
                    peer: a,
                    dt: 3,
                    action: if link { Action::AddLink { row: 0, target: 40000 } } else { Action::SetParent { row: 0, target: Some(40000) } },
                },
                Op::Write { peer: b, dt: 0, action: Action::Update { row: 0, value } },
            ];
            match pull {
                0 => ops.push(Op::Sync { puller: b, server: a }),
                1 => ops.push(Op::Sync { puller: a, server: b }),
                _ => {}
            }
            ops.append(&mut case.ops);
            case.ops = ops;
            case
        })
        .boxed()
}

struct C03;
impl Property for C03 {
    type Case = SyncCase;
    const ID: &'static str = "C03";
    fn plan(tier: Tier) -> Plan {
        match tier {
            Tier::Quick => Plan { shards: 16, cases_per_shard: 100, max_shrink_iters: 200 },
            Tier::Thorough => Plan { shards: 16, cases_per_shard: 2500, max_shrink_iters: 400 },
        }
    }
    fn strategy(tier: Tier) -> BoxedStrategy<SyncCase> {
        match tier {
            Tier::Quick => prop_oneof![4 => case_strategy(40, 3, false), 1 => clash_strategy(30, 3)].boxed(),
            Tier::Thorough => prop_oneof![6 => case_strategy(70, 4, false), 1 => clash_strategy(60, 4)].boxed(),
        }
    }
    fn run(case: &SyncCase, ctx: &RunCtx) -> Outcome {
        let r = run_sync_case(case, ctx, true);
        let mut o = Outcome::default();
        o.labels = r.labels;
        o.nontrivial = r.nontrivial_c03;
        o.counters = r.counters;
        o.violations = r.c03;
        if let Some(e) = r.error {
            o.discard = Some(format!("world-start:{}", e));
        }
        o
    }
    fn rule() -> String {
        "proptest-generated histories (Vec<Op>) of local writes (create/update/reference add, replace, remove/room move/delete), clock ticks (ms to days) and directed pulls between 2-4 real instances wired in-process, followed by rounds over all ordered pairs until one full round changes nothing; non-trivial = (a row written on two different peers or a deletion) and >= 3 sync steps with >= 2 different pullers; distinct = distinct case digest".to_string()
    }
    fn assumptions() -> Vec<String> {
        vec![
            "peers are connected by in-memory channels between the real QueryService and the real process_inbound; QUIC transport is not part of the check".into(),
            "all peers are users of every room with full rights; quiescence is bounded by peers+4 rounds".into(),
        ]
    }
}
fn main() {
    main_for::<C03>()
}
