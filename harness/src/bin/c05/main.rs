//! C05: query results equal a direct evaluation of the query over the data.

mod ast;
mod case;
mod check;
mod compare;
mod data;
mod eval;
mod resolve;
mod schema;
mod selftest;
mod walk;

use case::*;
use dv::engine::*;
use proptest::strategy::BoxedStrategy;

struct C05;
impl Property for C05 {
    type Case = Case;
    const ID: &'static str = "C05";
    const ISOLATE: bool = false;
    fn plan(tier: Tier) -> Plan {
        match tier {
            Tier::Quick => Plan { shards: 16, cases_per_shard: 4000, max_shrink_iters: 600 },
            Tier::Thorough => Plan { shards: 16, cases_per_shard: 100000, max_shrink_iters: 1500 },
        }
    }
    fn strategy(tier: Tier) -> BoxedStrategy<Case> {
        match tier {
            Tier::Quick => case_strategy(12, 0.2),
            Tier::Thorough => case_strategy(18, 0.2),
        }
    }
    fn fixed_cases(_tier: Tier) -> Vec<Case> {
        (0..selftest::count()).map(Case::SelfTest).collect()
    }
    fn run(case: &Case, ctx: &RunCtx) -> Outcome {
        match case {
            Case::SelfTest(n) => selftest::run(*n),
            Case::Gen(g) => check::run_gen(g, ctx.replay),
            Case::Text(t) => check::run_text(t),
        }
    }
    fn rule() -> String {
        "proptest-generated triple: (1) a data model of 2-4 entities in 1-3 namespaces, 1-5 scalar fields of every type (required / nullable / default), 0-2 single or array references (self and cross, nullable or not) and one evolution step (a field added later, or a nullable field that gets a default); (2) 3-12 (thorough 3-18) real mutations: nested creation up to depth 2, linking by id, updates incl. null, signed by 0-2 keys, in 0-2 rooms, with clock ticks; (3) a query of the grammar: 1-2 roots, aliases, nesting depth <= 3 incl. sys_peer / sys_room, filters (= != < <= > >= null, on fields, aliases, references, json selectors, aggregates; literal or variable; values drawn from the stored rows, near misses, pools), order_by on 1-4 keys, first / skip (literal or variable), before / after taken from a row of the result, nullable(), aggregates with grouping and having, json selectors. Decided against a reference evaluator over the rows read back from _node / _edge (validity predicate under ties), then a paging walk (first n + after(last keys) until empty, or before(K) ++ K ++ after(K)) compared with the full ordered result. 80 % of the cases exclude the shapes of known findings by construction (counters excluded:*), 20 % exclude nothing. Non-trivial = a root level shows at least one row and (has an ordering, a nested entity or an aggregate, or its filters / paging removed at least one row of the table); distinct = distinct case digest. Fixed cases: 6 self tests of the evaluator against expected strings of the repository's query_test.rs".to_string()
    }
    fn assumptions() -> Vec<String> {
        vec![
            "the query is run on the in-memory path (DataModel, MutationParser, MutationQuery, QueryParser, PreparedQueries, Query on a connection prepared by prepare_connection), not through the service threads".into(),
            "numbers are compared with a relative tolerance of 1e-9 (floating point aggregates are rendered with 15 digits by SQLite)".into(),
            "a boolean default is accepted as 1/0 (asserted by the repository's test query_with_null_default)".into(),
            "where order_by leaves ties (or is absent) any order consistent with the keys is accepted; a page under ties must contain the right number of rows of every tie class".into(),
            "ordering by a model field name is accepted on the stored value (NULL for rows lacking a later-added defaulted field) as well as on the value with default (DESIGN.md); counted as label tolerated:order-by-ignores-default".into(),
            "string literals avoid quotes and backslashes (escaping is property C04); Json fields are never set to an explicit null (panics, property C14)".into(),
            "the 1 % sample through the service threads foreseen in DESIGN.md is not implemented: every case uses the in-memory path".into(),
            "when a mismatch is found, the classifier re-evaluates with switches reproducing diagnosed deviations; a mismatch that no combination explains is reported as unexplained:<kind>".into(),
        ]
    }
}

fn main() {
    main_for::<C05>()
}
