//! C05: query results equal a direct evaluation of the query over the data.

mod ast;
mod case;
mod check;
mod compare;
mod data;
mod eval;
mod resolve;
mod schema;
mod selftest;
mod walk;

use case::*;
use dv::engine::*;
use proptest::strategy::BoxedStrategy;

struct C05;
impl Property for C05 {
    type Case = Case;
    const ID: &'static str = "C05";
    const ISOLATE: bool = false;
    fn plan(tier: Tier) -> Plan {
        match tier {
            Tier::Quick => Plan { shards: 16, cases_per_shard: 2500, max_shrink_iters: 600 },
            Tier::Thorough => Plan { shards: 16, cases_per_shard: 75000, max_shrink_iters: 1500 },
        }
    }
    fn strategy(tier: Tier) -> BoxedStrategy<Case> {
        match tier {
            Tier::Quick => case_strategy(12, 0.2),
            Tier::Thorough => case_strategy(18, 0.2),
        }
    }
    fn fixed_cases(_tier: Tier) -> Vec<Case> {
        (0..selftest::count()).map(Case::SelfTest).collect()
    }
    fn run(case: &Case, ctx: &RunCtx) -> Outcome {
        match case {
            Case::SelfTest(n) => selftest::run(*n),
            Case::Gen(g) => check::run_gen(g, ctx.replay),
            Case::Text(t) => check::run_text(t),
        }
    }
    fn rule() -> String {
        "proptest-generated (data model of 2-4 entities in 1-3 namespaces with typed scalar fields, defaults, nullable fields, single/array/self references and one model evolution step; 2-12 real mutations with nested creation, linking by id, updates, signed or unsigned, in rooms or not; a query of the grammar with aliases, nesting depth <= 3, filters, order_by, first/skip, before/after, nullable(), aggregates, json selectors, sys_peer/sys_room) decided against a reference evaluator over rows read back from _node/_edge, plus a paging walk; non-trivial = a root level shows at least one row and (has an ordering, a nested entity or an aggregate, or its filters/paging removed at least one row of the table); distinct = distinct case digest".to_string()
    }
    fn assumptions() -> Vec<String> {
        vec![
            "the query is run on the in-memory path (DataModel, MutationParser, MutationQuery, QueryParser, PreparedQueries, Query on a connection prepared by prepare_connection), not through the service threads".into(),
            "numbers are compared with a relative tolerance of 1e-9 (floating point aggregates are rendered with 15 digits by SQLite)".into(),
            "a boolean default is accepted as 1/0 (asserted by the repository's test query_with_null_default)".into(),
            "where order_by leaves ties (or is absent) any order consistent with the keys is accepted; a page under ties must contain the right number of rows of every tie class".into(),
            "ordering by a model field name is accepted on the stored value (NULL for rows lacking a later-added defaulted field) as well as on the value with default (DESIGN.md); counted as label tolerated:order-by-ignores-default".into(),
            "string literals avoid quotes and backslashes (escaping is property C04)".into(),
        ]
    }
}

fn main() {
    main_for::<C05>()
}
