//! Paging walk: `first n` then `after(keys of the last row)` until a page is empty must visit
//! every matching row exactly once, in order. With `before`: for a pivot row K,
//! before(K) ++ [K] ++ after(K) must be the full ordered result.
//!
//! The keys of the next page are taken from the JSON of the previous page, as a client does.

use crate::ast::*;
use crate::case::*;
use crate::check::{bind, one_line};
use crate::data::*;
use crate::eval::*;
use crate::resolve::system_ref;
use crate::schema::Lit;
use dv::engine::Outcome;
use serde_json::Value as J;

/// the walked query: root 0 with a total order on selected, unaliased fields ending with id
fn walk_query(rq: &RQuery, wild: bool, w: &World) -> Option<REnt> {
    let mut e = rq.roots[0].clone();
    if e.is_aggregate() {
        return None;
    }
    e.paging = None;
    e.skip = 0;
    e.first = 0;
    e.skip_var = None;
    e.alias = None;
    e.out = e.ent_name.clone();
    let ent = &w.schema.entities[e.ent];
    let mut order: Vec<ROrd> = vec![];
    for o in &e.order {
        let f = match &o.target {
            Target::Field(f) => f.clone(),
            Target::Alias(a) => match e.sels.iter().find_map(|s| match s {
                RSel::Scalar { out, f } if out == a => Some(f.clone()),
                _ => None,
            }) {
                Some(f) => f,
                None => continue,
            },
            _ => continue,
        };
        if f.name == "id" || order.iter().any(|x| matches!(&x.target, Target::Field(g) if g.name == f.name)) {
            continue;
        }
        if !wild {
            // keys that can be NULL are a known finding (paging-null-order-key)
            let late = ent.scalars.iter().any(|s| s.name == f.name && s.late != Late::No);
            if f.nullable || late {
                continue;
            }
        }
        order.push(ROrd {
            target: Target::Field(f),
            desc: o.desc,
        });
    }
    let desc = order.last().map(|o| o.desc).unwrap_or(false);
    order.push(ROrd {
        target: Target::Field(system_ref("id")),
        desc,
    });
    // every key must be selected under its own name
    for o in &order {
        if let Target::Field(f) = &o.target {
            e.sels.retain(|s| match s {
                RSel::Scalar { out, f: g } => !(out == &f.name && g.name != f.name),
                RSel::Json { out, .. } => out != &f.name,
                _ => true,
            });
            if !e.sels.iter().any(|s| matches!(s, RSel::Scalar { out, f: g } if out == &f.name && g.name == f.name)) {
                e.sels.push(RSel::Scalar {
                    out: f.name.clone(),
                    f: f.clone(),
                });
            }
        }
    }
    e.order = order;
    Some(e)
}

fn json_to_lit(j: &J, ty: Ty) -> Option<Lit> {
    match (j, ty) {
        (J::Null, _) => Some(Lit::Null),
        (J::Bool(b), Ty::Boolean) => Some(Lit::Bool(*b)),
        (J::Number(n), Ty::Boolean) => Some(Lit::Bool(n.as_i64() != Some(0))),
        (J::Number(n), Ty::Integer) => n.as_i64().map(Lit::Int),
        (J::Number(n), Ty::Float) => n.as_f64().map(Lit::Float),
        (J::String(s), Ty::String) | (J::String(s), Ty::Base64) => Some(Lit::Str(s.clone())),
        _ => None,
    }
}

fn keys_of(row: &J, e: &REnt) -> Option<Vec<Lit>> {
    let mut out = vec![];
    for o in &e.order {
        if let Target::Field(f) = &o.target {
            out.push(json_to_lit(row.get(&f.name)?, f.ty)?);
        }
    }
    Some(out)
}

fn paged(e: &REnt, keys: &[Lit], before: bool, as_var: bool, wild: bool, first: u64, o: &mut Outcome) -> REnt {
    let mut q = e.clone();
    q.first = first;
    let mut values = vec![];
    for (i, k) in keys.iter().enumerate() {
        let binary = matches!(&e.order[i].target, Target::Field(f) if f.system && f.ty == Ty::Base64);
        let mut var = as_var;
        if binary && !var && !wild {
            o.count("excluded:binary-literal", 1);
            var = true;
        }
        values.push(if var {
            FVal::Var(format!("wq{}", i), k.clone())
        } else {
            FVal::Lit(k.clone())
        });
    }
    q.paging = Some(RPaging { before, values });
    q
}

fn run_real(w: &World, e: &REnt, trace: bool) -> Result<Vec<J>, String> {
    let q = RQuery { roots: vec![e.clone()] };
    let text = q.text();
    if trace {
        println!("-- walk query {}", one_line(&text));
    }
    match w.query(&text, &bind(&q)) {
        Ok(s) => {
            let j: J = serde_json::from_str(&s).map_err(|e| e.to_string())?;
            j.get(&e.out)
                .and_then(|a| a.as_array())
                .cloned()
                .ok_or_else(|| format!("no array {} in {}", e.out, s))
        }
        Err(QueryError::Parse(m)) => Err(format!("parse:{}", m)),
        Err(QueryError::Run(m)) => Err(format!("run:{}", m)),
        Err(QueryError::Params(m)) => Err(format!("params:{}", m)),
    }
}

type Row = (String, Option<Vec<Lit>>);

#[derive(Debug, PartialEq)]
enum Stop {
    Completed,
    NullKey,
    Failed(String),
    NoTermination,
    NoPivot,
}

/// the walk as a client performs it, over an abstract page reader
fn do_walk(
    e: &REnt,
    ws: &WalkSpec,
    wild: bool,
    pivot_id: &str,
    max_pages: usize,
    o: &mut Outcome,
    reader: &mut dyn FnMut(&REnt) -> Result<Vec<Row>, String>,
) -> (Vec<String>, Stop, usize) {
    if ws.before {
        let all = match reader(e) {
            Ok(r) => r,
            Err(m) => return (vec![], Stop::Failed(m), 0),
        };
        let pivot = match all.iter().find(|r| r.0 == pivot_id) {
            Some(p) => p.clone(),
            None => return (vec![], Stop::NoPivot, 0),
        };
        let keys = match pivot.1 {
            Some(k) => k,
            None => return (vec![], Stop::Failed("key not in output".into()), 0),
        };
        if keys.iter().any(|k| *k == Lit::Null) {
            return (vec![], Stop::NullKey, 0);
        }
        let b = reader(&paged(e, &keys, true, ws.as_var, wild, 0, o));
        let a = reader(&paged(e, &keys, false, ws.as_var, wild, 0, o));
        return match (b, a) {
            (Ok(b), Ok(a)) => {
                let mut seen: Vec<String> = b.into_iter().map(|r| r.0).collect();
                seen.push(pivot.0);
                seen.extend(a.into_iter().map(|r| r.0));
                (seen, Stop::Completed, 3)
            }
            (Err(m), _) | (_, Err(m)) => (vec![], Stop::Failed(m), 0),
        };
    }
    let n = ws.page.max(1) as u64;
    let mut seen = vec![];
    let mut page = e.clone();
    page.first = n;
    let mut pages = 0;
    loop {
        pages += 1;
        if pages > max_pages {
            return (seen, Stop::NoTermination, pages);
        }
        let rows = match reader(&page) {
            Ok(r) => r,
            Err(m) => return (seen, Stop::Failed(m), pages),
        };
        if rows.is_empty() {
            return (seen, Stop::Completed, pages);
        }
        seen.extend(rows.iter().map(|r| r.0.clone()));
        let keys = match &rows.last().unwrap().1 {
            Some(k) => k.clone(),
            None => return (seen, Stop::Failed("key not in output".into()), pages),
        };
        if keys.iter().any(|k| *k == Lit::Null) {
            return (seen, Stop::NullKey, pages);
        }
        page = paged(e, &keys, false, ws.as_var, wild, n, o);
    }
}

fn sim_reader<'a>(w: &'a World, quirks: Vec<Quirk>) -> impl FnMut(&REnt) -> Result<Vec<Row>, String> + 'a {
    move |q: &REnt| {
        let ev = Evaluator {
            schema: &w.schema,
            store: &w.store,
            quirks: Quirks(quirks.clone()),
        };
        let list = ev.eval_ent(q, None);
        let shown = list.displayed();
        Ok(list
            .rows
            .iter()
            .take(shown)
            .map(|r| {
                let j = exp_json(&r.obj);
                (b64(r.id.as_ref().unwrap()), keys_of(&j, q))
            })
            .collect())
    }
}

pub fn walk(w: &World, rq: &RQuery, ws: &WalkSpec, wild: bool, main_set: &[Quirk], o: &mut Outcome, trace: bool) {
    let e = match walk_query(rq, wild, w) {
        Some(e) => e,
        None => return,
    };
    let ev = Evaluator {
        schema: &w.schema,
        store: &w.store,
        quirks: Quirks::default(),
    };
    let full = ev.eval_ent(&e, None);
    let full_ids: Vec<String> = full.rows.iter().map(|r| b64(r.id.as_ref().unwrap())).collect();
    let null_rows: Vec<String> = full
        .rows
        .iter()
        .filter(|r| r.keys.iter().any(|k| k.is_null()))
        .map(|r| b64(r.id.as_ref().unwrap()))
        .collect();
    if full_ids.is_empty() {
        return;
    }
    o.label(if ws.before { "walk:before-partition" } else { "walk:after" });
    o.label(if ws.as_var { "walk:variables" } else { "walk:literals" });
    if !null_rows.is_empty() {
        o.label("walk:null-keys");
    }
    if e.order.len() > 1 {
        o.label("walk:multi-key");
    }
    let text = one_line(&RQuery { roots: vec![e.clone()] }.text());
    let pivot_id = full_ids[(ws.page as usize * 7) % full_ids.len()].clone();
    let max_pages = full_ids.len() + 3;

    let mut scratch = Outcome::default();
    let mut real_reader = |q: &REnt| -> Result<Vec<Row>, String> {
        let rows = run_real(w, q, trace)?;
        Ok(rows
            .iter()
            .map(|r| {
                (
                    r.get("id").and_then(|i| i.as_str()).unwrap_or("?").to_string(),
                    keys_of(r, q),
                )
            })
            .collect())
    };
    let (seen, stop, pages) = do_walk(&e, ws, wild, &pivot_id, max_pages, o, &mut real_reader);
    o.count("walk-rows", seen.len() as u64);
    o.count("walk-pages", pages as u64);
    if stop == Stop::Completed && seen == full_ids {
        o.label("walk:complete");
        return;
    }
    if stop == Stop::NullKey && seen == full_ids && !ws.before {
        // the last row has a NULL key, but it is the last row of the result: every row was visited once
        o.label("walk:complete-ending-on-null-key");
        return;
    }
    let detail = format!(
        "stop {:?}; visited {:?} expected {:?} (rows with a NULL key: {:?}) | {}",
        stop, seen, full_ids, null_rows, text
    );
    match &stop {
        Stop::Failed(m) if m.starts_with("parse:") => {
            o.label("walk:parser-refused");
            return;
        }
        Stop::Failed(_) | Stop::NoPivot if pages == 0 => {
            // the first query is the main query without paging: decided by the main oracle
            return;
        }
        Stop::Failed(m) => {
            o.violation("walk:query-failed", format!("{} | {}", m, detail));
            return;
        }
        _ => {}
    }
    // which evaluation explains what was seen?
    let explained = crate::check::explain(&mut |set: &[Quirk]| {
        let mut r = sim_reader(w, set.to_vec());
        let (s2, stop2, _) = do_walk(&e, ws, wild, &pivot_id, max_pages, &mut scratch, &mut r);
        s2 == seen && stop2 == stop
    });
    match explained {
        Some(set) if set.is_empty() => {
            // every page is what the direct evaluation of that page gives, yet the walk is not a partition
            let missing: Vec<&String> = full_ids.iter().filter(|i| !seen.contains(i)).collect();
            if stop == Stop::NullKey || (!missing.is_empty() && missing.iter().all(|m| null_rows.contains(m))) {
                if ws.before && stop == Stop::NullKey {
                    o.label("walk:pivot-null-key");
                    return;
                }
                o.label("finding:paging-null-order-key");
                o.violation("paging-null-order-key", detail);
            } else {
                o.violation("walk:unexplained-incomplete", detail);
            }
        }
        Some(set) => {
            for q in set {
                if main_set.contains(&q) {
                    continue; // already reported by the comparison of the query itself
                }
                if q == Quirk::OrderRaw {
                    // tolerated for one query, but a walk loses or repeats rows
                    o.label("finding:walk:order-by-ignores-default");
                    o.violation("walk:order-by-ignores-default", detail.clone());
                } else {
                    // the same deviation as in a single query, observed on a page of the walk
                    o.label(format!("finding:{}", q.signature()));
                    o.violation(format!("mismatch:{}", q.signature()), format!("(paging walk) {}", detail));
                }
            }
        }
        None => {
            o.label("walk:unexplained");
            o.violation("walk:unexplained", detail);
        }
    }
}
