//! Resolution of an abstract `QuerySpec` against the model and the stored rows: produces a valid
//! query of the language as a resolved tree (`RQuery`).

use crate::ast::*;
use crate::case::*;
use crate::data::{b64, Store};
use crate::eval::*;
use crate::schema::*;
use dv::engine::pick;
use std::collections::BTreeMap;

pub struct Resolver<'a> {
    pub schema: &'a Schema,
    pub store: &'a Store,
    pub wild: bool,
    counter: u32,
    /// shapes of known findings that were excluded by construction
    pub excluded: BTreeMap<String, u64>,
}

pub fn scalar_ref(f: &ScalarField) -> FieldRef {
    FieldRef {
        name: f.name.clone(),
        short: f.short.clone(),
        ty: f.ty,
        default: f.default.clone(),
        nullable: f.nullable,
        system: false,
    }
}

pub fn system_ref(name: &str) -> FieldRef {
    let ty = SYSTEM_SCALARS
        .iter()
        .find(|s| s.0 == name)
        .map(|s| s.1)
        .unwrap_or(Ty::String);
    FieldRef {
        name: name.to_string(),
        short: name.to_string(),
        ty,
        default: None,
        nullable: name == "room_id",
        system: true,
    }
}

pub fn selector_pool() -> Vec<Selector> {
    use PathSeg::*;
    vec![
        Selector::Object(vec![Key("a".into())]),
        Selector::Object(vec![Key("b".into()), Key("c".into())]),
        Selector::Object(vec![Key("b".into()), Key("c".into()), Idx(2), Key("d".into())]),
        Selector::Object(vec![Key("t".into())]),
        Selector::Object(vec![]),
        Selector::Array(0),
        Selector::Array(1),
        Selector::Object(vec![Key("b".into()), Key("c".into()), Idx(0)]),
    ]
}

fn sql_to_lit(v: &SqlVal, ty: Ty) -> Option<Lit> {
    match (v, ty) {
        (SqlVal::Null, _) => Some(Lit::Null),
        (SqlVal::Int(i), Ty::Boolean) => Some(Lit::Bool(*i != 0)),
        (SqlVal::Int(i), Ty::Integer) => Some(Lit::Int(*i)),
        (SqlVal::Int(i), Ty::Float) => Some(Lit::Float(*i as f64)),
        (SqlVal::Real(f), Ty::Float) => Some(Lit::Float(*f)),
        (SqlVal::Text(s), Ty::String) | (SqlVal::Text(s), Ty::Base64) => Some(Lit::Str(s.clone())),
        (SqlVal::Blob(b), Ty::Base64) => Some(Lit::Str(b64(b))),
        _ => None,
    }
}

fn near(l: &Lit, d: i8) -> Lit {
    match l {
        Lit::Int(i) => Lit::Int(i.saturating_add(d as i64)),
        Lit::Float(f) => Lit::Float(f + 0.5 * d as f64),
        Lit::Str(s) => {
            if d > 0 {
                Lit::Str(format!("{}a", s))
            } else if d < 0 && !s.is_empty() {
                let mut t = s.clone();
                t.pop();
                Lit::Str(t)
            } else {
                l.clone()
            }
        }
        Lit::Bool(b) => Lit::Bool(if d != 0 { !b } else { *b }),
        Lit::Null => Lit::Null,
    }
}

impl<'a> Resolver<'a> {
    pub fn new(schema: &'a Schema, store: &'a Store, wild: bool) -> Self {
        Resolver {
            schema,
            store,
            wild,
            counter: 0,
            excluded: BTreeMap::new(),
        }
    }

    fn fresh(&mut self, prefix: &str) -> String {
        self.counter += 1;
        format!("{}{}", prefix, self.counter)
    }

    fn exclude(&mut self, what: &str) {
        *self.excluded.entry(what.to_string()).or_insert(0) += 1;
    }

    fn evaluator(&self) -> Evaluator<'a> {
        Evaluator {
            schema: self.schema,
            store: self.store,
            quirks: Quirks::default(),
        }
    }

    pub fn resolve(&mut self, spec: &QuerySpec) -> RQuery {
        let mut roots: Vec<REnt> = vec![];
        for r in &spec.roots {
            let ei = pick(r.ent, self.schema.user_entities);
            let name = self.schema.entities[ei].name.clone();
            let mut alias = if r.alias { Some(self.fresh("q")) } else { None };
            if alias.is_none() && roots.iter().any(|x| x.out == name) {
                alias = Some(self.fresh("q"));
            }
            let e = self.resolve_ent(r, ei, Link::Root, alias, None, 2);
            roots.push(e);
        }
        RQuery { roots }
    }

    fn resolve_ent(
        &mut self,
        spec: &EntQSpec,
        ei: usize,
        link: Link,
        alias: Option<String>,
        parent_table: Option<String>,
        depth: u32,
    ) -> REnt {
        let schema = self.schema;
        let ent = &schema.entities[ei];
        let nested = !matches!(link, Link::Root);
        let source = match &link {
            Link::Root => ent.name.clone(),
            Link::Edge { field, .. } => field.clone(),
            Link::SysPeer => "sys_peer".to_string(),
            Link::SysRoom => "sys_room".to_string(),
        };
        let mut alias = alias;
        let mut out = alias.clone().unwrap_or(source.clone());
        if nested && !self.wild && Some(out.clone()) == parent_table {
            self.exclude("alias-shadow");
            let a = self.fresh("x");
            alias = Some(a.clone());
            out = a;
        }
        let mut e = REnt {
            out,
            alias,
            ent: ei,
            ent_name: ent.name.clone(),
            ent_short: ent.short.clone(),
            link,
            sels: vec![],
            filters: vec![],
            order: vec![],
            first: spec.first as u64,
            skip: spec.skip as u64,
            first_var: None,
            skip_var: None,
            paging: None,
            nullable: vec![],
        };
        let aggregate = !spec.aggs.is_empty();
        // (skip without first: repaired by 057ec14, no longer excluded)

        if spec.limit_var {
            if e.first > 0 {
                e.first_var = Some(self.fresh("fq"));
            }
            if e.skip > 0 {
                e.skip_var = Some(self.fresh("sq"));
            }
        }

        // ---- scalar selections
        let mut fields: Vec<FieldRef> = vec![];
        for _ in 0..2 {
            for f in &ent.scalars {
                fields.push(scalar_ref(f));
            }
        }
        for s in SYSTEM_SCALARS.iter() {
            fields.push(system_ref(s.0));
        }
        for s in &spec.sels {
            let f = fields[pick(s.field, fields.len())].clone();
            let late = ent
                .scalars
                .iter()
                .find(|x| x.name == f.name)
                .map(|x| x.late != Late::No)
                .unwrap_or(false);
            if f.ty == Ty::Json {
                if aggregate {
                    continue;
                }
                // (Json field with a default: repaired by bfec9df / 8da40ce, no longer excluded)
                let pool = selector_pool();
                match s.json_path {
                    Some(p) => {
                        let sel = pool[pick8(p.wrapping_mul(32), pool.len())].clone();
                        let out = self.fresh("a");
                        e.sels.push(RSel::Json {
                            out,
                            f,
                            sel: Some(sel),
                        });
                    }
                    None => {
                        let out = if s.alias { self.fresh("a") } else { f.name.clone() };
                        if e.sels.iter().any(|x| x.out() == out) {
                            continue;
                        }
                        e.sels.push(RSel::Json { out, f, sel: None });
                    }
                }
                continue;
            }
            if aggregate && !self.wild {
                if f.system {
                    self.exclude("group-by-system");
                    continue;
                }
                if f.ty == Ty::Base64 {
                    self.exclude("group-by-base64");
                    continue;
                }
                if late {
                    self.exclude("group-by-late-default");
                    continue;
                }
            }
            if !self.wild && late && f.default.is_some() {
                let was_nullable = ent
                    .scalars
                    .iter()
                    .any(|x| x.name == f.name && x.late == Late::NullableThenDefault);
                if was_nullable {
                    self.exclude("explicit-null-default");
                    continue;
                }
            }
            let out = if s.alias { self.fresh("a") } else { f.name.clone() };
            if e.sels.iter().any(|x| x.out() == out) {
                continue;
            }
            e.sels.push(RSel::Scalar { out, f });
        }

        // ---- aggregates
        if aggregate {
            for a in &spec.aggs {
                let func = [Func::Avg, Func::Count, Func::Max, Func::Min, Func::Sum][a.func as usize % 5];
                let mut cands: Vec<FieldRef> = vec![];
                for f in &ent.scalars {
                    let numeric = matches!(f.ty, Ty::Integer | Ty::Float);
                    let ok = match func {
                        Func::Avg | Func::Sum => numeric,
                        Func::Max | Func::Min => {
                            if self.wild {
                                numeric || matches!(f.ty, Ty::String | Ty::Boolean)
                            } else {
                                f.ty == Ty::Boolean
                            }
                        }
                        Func::Count => false,
                    };
                    let late = f.late != Late::No;
                    if ok && (self.wild || !late) {
                        cands.push(scalar_ref(f));
                    }
                }
                if func != Func::Count {
                    cands.push(system_ref("mdate"));
                    if !nested || self.wild {
                        cands.push(system_ref("cdate"));
                    }
                }
                let out = self.fresh("g");
                if func == Func::Count || cands.is_empty() {
                    e.sels.push(RSel::Agg {
                        out,
                        func: Func::Count,
                        f: None,
                    });
                } else {
                    let f = cands[pick(a.field, cands.len())].clone();
                    e.sels.push(RSel::Agg { out, func, f: Some(f) });
                }
            }
        }

        // ---- sub entities
        if !aggregate && depth > 0 && !ent.system {
            let mut choices: Vec<Option<&RefField>> = vec![];
            for _ in 0..3 {
                for r in &ent.refs {
                    choices.push(Some(r));
                }
            }
            choices.push(None); // sys_peer
            choices.push(None); // sys_room
            let nchoices = choices.len();
            for (i, s) in spec.subs.iter().enumerate() {
                let mut c = pick(s.ent, nchoices);
                if self.wild && s.ent % 2 == 1 && !s.alias {
                    // favour the shape "same reference name as the parent level" (self references)
                    if let Some(k) = choices.iter().position(|r| matches!(r, Some(r) if r.name == e.out)) {
                        c = k;
                    }
                }
                let (target, link) = match choices[c] {
                    Some(r) => (
                        r.target,
                        Link::Edge {
                            field: r.name.clone(),
                            label: r.short.clone(),
                            unique: !r.array,
                            model_nullable: r.nullable,
                        },
                    ),
                    None => {
                        if c == nchoices - 2 {
                            (schema.user_entities, Link::SysPeer)
                        } else {
                            (schema.user_entities + 1, Link::SysRoom)
                        }
                    }
                };
                let source = match &link {
                    Link::Edge { field, .. } => field.clone(),
                    Link::SysPeer => "sys_peer".to_string(),
                    _ => "sys_room".to_string(),
                };
                let mut alias = if s.alias { Some(self.fresh("x")) } else { None };
                if alias.is_none() && e.sels.iter().any(|x| x.out() == source) {
                    alias = Some(self.fresh("x"));
                }
                let sub = self.resolve_ent(s, target, link, alias, Some(e.table()), depth - 1);
                if spec.nullable & (1 << i) != 0 {
                    e.nullable.push(sub.out.clone());
                }
                e.sels.push(RSel::Sub(sub));
            }
        }
        if e.sels.is_empty() {
            e.sels.push(RSel::Scalar {
                out: "id".into(),
                f: system_ref("id"),
            });
        }

        // ---- filters
        let rows = self.store.of_entity(&ent.short);
        let ev = self.evaluator();
        let mut targets: Vec<Target> = vec![];
        for _ in 0..2 {
            for f in &ent.scalars {
                if f.ty == Ty::Json {
                    let pool = selector_pool();
                    for (k, sel) in pool.iter().enumerate() {
                        if k % 2 == 0 {
                            targets.push(Target::Json(scalar_ref(f), sel.clone()));
                        }
                    }
                } else {
                    targets.push(Target::Field(scalar_ref(f)));
                }
            }
        }
        for s in SYSTEM_SCALARS.iter() {
            if nested && !self.wild && (s.0 == "cdate" || s.0 == "verifying_key") {
                continue;
            }
            targets.push(Target::Field(system_ref(s.0)));
        }
        for s in &e.sels {
            match s {
                RSel::Scalar { out, f } if *out != f.name && !f.system => {
                    if aggregate && !self.wild {
                        continue;
                    }
                    targets.push(Target::Alias(out.clone()));
                    targets.push(Target::Alias(out.clone()));
                }
                RSel::Agg { out, .. } => {
                    targets.push(Target::AggAlias(out.clone()));
                    targets.push(Target::AggAlias(out.clone()));
                }
                RSel::Sub(sub) if sub.alias.is_some() => {
                    if matches!(sub.link, Link::SysPeer | Link::SysRoom) && !self.wild {
                        self.exclude("system-alias-filter");
                        continue;
                    }
                    let array = !sub.unique();
                    targets.push(Target::RefAlias {
                        out: sub.out.clone(),
                        array,
                    });
                }
                _ => {}
            }
        }
        if !aggregate {
            for r in &ent.refs {
                targets.push(Target::RefField {
                    name: r.name.clone(),
                    short: r.short.clone(),
                    array: r.array,
                });
            }
        }
        for fs in &spec.filters {
            if targets.is_empty() {
                break;
            }
            let t = targets[pick(fs.target, targets.len())].clone();
            let op = Op::all()[fs.op as usize % 6];
            match &t {
                Target::RefField { name, .. } => {
                    let selected_same_name = e.sels.iter().any(|s| matches!(s, RSel::Sub(x) if &x.out == name));
                    if !selected_same_name && !self.wild {
                        self.exclude("entity-filter-unselected");
                        continue;
                    }
                    let op = if fs.op % 2 == 0 { Op::Eq } else { Op::Ne };
                    e.filters.push(RFilter {
                        target: t,
                        op,
                        value: FVal::Lit(Lit::Null),
                    });
                }
                Target::RefAlias { .. } => {
                    let op = if fs.op % 2 == 0 { Op::Eq } else { Op::Ne };
                    e.filters.push(RFilter {
                        target: t,
                        op,
                        value: FVal::Lit(Lit::Null),
                    });
                }
                Target::AggAlias(_) => {
                    let lit = match &fs.val {
                        FValSpec::Pool(i) => pool(Ty::Float)[pick8(i.wrapping_mul(25), 10)].clone(),
                        FValSpec::FromData(r) | FValSpec::NearMiss(r, _) => Lit::Int((*r % 4) as i64),
                        FValSpec::Null => Lit::Int(1),
                    };
                    e.filters.push(RFilter {
                        target: t,
                        op,
                        value: FVal::Lit(lit),
                    });
                }
                Target::Json(f, sel) => {
                    let lits = [
                        Lit::Int(1),
                        Lit::Str("s".into()),
                        Lit::Str("x".into()),
                        Lit::Float(2.5),
                        Lit::Int(2),
                        Lit::Null,
                        Lit::Int(7),
                    ];
                    let lit = match &fs.val {
                        FValSpec::FromData(r) | FValSpec::NearMiss(r, _) if !rows.is_empty() => {
                            let n = rows[pick(*r, rows.len())];
                            let v = n
                                .json
                                .as_object()
                                .and_then(|o| o.get(&f.short))
                                .and_then(|j| json_path(j, sel))
                                .map(SqlVal::from_json)
                                .unwrap_or(SqlVal::Null);
                            match v {
                                SqlVal::Int(i) => Lit::Int(i),
                                SqlVal::Real(x) => Lit::Float(x),
                                SqlVal::Text(s) if !s.contains('"') && !s.contains('\\') => Lit::Str(s),
                                _ => Lit::Null,
                            }
                        }
                        FValSpec::Pool(i) => lits[pick8(i.wrapping_mul(25), lits.len())].clone(),
                        _ => Lit::Null,
                    };
                    e.filters.push(RFilter {
                        target: t,
                        op,
                        value: FVal::Lit(lit),
                    });
                }
                Target::Field(_) | Target::Alias(_) => {
                    let f = match &t {
                        Target::Field(f) => f.clone(),
                        Target::Alias(a) => e
                            .sels
                            .iter()
                            .find_map(|s| match s {
                                RSel::Scalar { out, f } if out == a => Some(f.clone()),
                                _ => None,
                            })
                            .unwrap(),
                        _ => unreachable!(),
                    };
                    let p = pool(f.ty);
                    let from_row = |r: u16| -> Option<Lit> {
                        if rows.is_empty() {
                            return None;
                        }
                        let n = rows[pick(r, rows.len())];
                        let v = ev_field(&ev, n, &f);
                        sql_to_lit(&v, f.ty)
                    };
                    let mut lit = match &fs.val {
                        FValSpec::FromData(r) => from_row(*r).unwrap_or(p[0].clone()),
                        FValSpec::NearMiss(r, d) => {
                            let base = from_row(*r).unwrap_or(p[0].clone());
                            match (&base, f.ty) {
                                (Lit::Str(s), Ty::Base64) => {
                                    let mut bytes = crate::data::unb64(s).unwrap_or_default();
                                    match bytes.last_mut() {
                                        Some(b) => *b = b.wrapping_add(*d as u8),
                                        None => bytes.push(1),
                                    }
                                    Lit::Str(b64(&bytes))
                                }
                                _ => near(&base, *d),
                            }
                        }
                        FValSpec::Pool(i) => {
                            if f.system {
                                from_row(*i as u16 * 200).unwrap_or(Lit::Null)
                            } else {
                                p[pick8(i.wrapping_mul(25), p.len())].clone()
                            }
                        }
                        FValSpec::Null => Lit::Null,
                    };
                    if lit == Lit::Null && !f.nullable {
                        lit = if f.system {
                            from_row(0).unwrap_or(Lit::Null)
                        } else {
                            p[0].clone()
                        };
                        if lit == Lit::Null {
                            continue;
                        }
                    }
                    if f.system && f.ty == Ty::Base64 {
                        if let Lit::Str(s) = &lit {
                            // a near miss of a base64 text may not be valid base64 of a binary value
                            if crate::data::unb64(s).is_none() || s.len() % 4 == 1 {
                                continue;
                            }
                        }
                    }
                    let mut as_var = fs.as_var;
                    if lit == Lit::Null {
                        if as_var && !self.wild {
                            self.exclude("null-variable");
                            as_var = false;
                        }
                    } else if f.system && f.ty == Ty::Base64 && !as_var && !self.wild {
                        self.exclude("binary-literal");
                        as_var = true;
                    }
                    let value = if as_var {
                        FVal::Var(self.fresh("vq"), lit)
                    } else {
                        FVal::Lit(lit)
                    };
                    e.filters.push(RFilter { target: t, op, value });
                }
            }
        }

        // ---- order by
        let mut otargets: Vec<(Target, FieldRef)> = vec![];
        if aggregate {
            for s in &e.sels {
                match s {
                    RSel::Scalar { out, f } => {
                        // binary and system fields are not grouping keys for the implementation (known
                        // findings): ordering on them reads an arbitrary row of the group, nothing to decide
                        if f.system || f.ty == Ty::Base64 {
                            continue;
                        }
                        if *out == f.name {
                            otargets.push((Target::Field(f.clone()), f.clone()));
                        } else {
                            otargets.push((Target::Alias(out.clone()), f.clone()));
                        }
                    }
                    RSel::Agg { out, .. } => {
                        let mut f = system_ref("mdate");
                        f.ty = Ty::Float;
                        otargets.push((Target::AggAlias(out.clone()), f.clone()));
                        otargets.push((Target::AggAlias(out.clone()), f));
                    }
                    _ => {}
                }
            }
        } else {
            for _ in 0..2 {
                for f in &ent.scalars {
                    if f.ty != Ty::Json {
                        otargets.push((Target::Field(scalar_ref(f)), scalar_ref(f)));
                    }
                }
            }
            for s in SYSTEM_SCALARS.iter() {
                if nested && !self.wild && (s.0 == "cdate" || s.0 == "verifying_key") {
                    self.exclude("ambiguous-system-column");
                    continue;
                }
                otargets.push((Target::Field(system_ref(s.0)), system_ref(s.0)));
            }
            for s in &e.sels {
                if let RSel::Scalar { out, f } = s {
                    if *out != f.name && !f.system {
                        otargets.push((Target::Alias(out.clone()), f.clone()));
                        otargets.push((Target::Alias(out.clone()), f.clone()));
                    }
                }
            }
        }
        let mut key_fields: Vec<FieldRef> = vec![];
        if !otargets.is_empty() {
            for o in &spec.order {
                let (t, f) = otargets[pick(o.target, otargets.len())].clone();
                e.order.push(ROrd { target: t, desc: o.desc });
                key_fields.push(f);
            }
        }
        if spec.append_id && !aggregate && !e.order.is_empty() {
            let desc = e.order.last().map(|o| o.desc).unwrap_or(false);
            e.order.push(ROrd {
                target: Target::Field(system_ref("id")),
                desc,
            });
            key_fields.push(system_ref("id"));
        }

        // ---- paging
        if let Some(p) = &spec.paging {
            if !e.order.is_empty() {
                let mut probe = e.clone();
                probe.link = Link::Root;
                probe.first = 0;
                probe.skip = 0;
                let list = ev.eval_ent(&probe, None);
                if !list.rows.is_empty() {
                    let row = &list.rows[pick(p.row, list.rows.len())];
                    let mut values = vec![];
                    for i in 0..(p.nkeys as usize).min(e.order.len()) {
                        let f = &key_fields[i];
                        let ty = if matches!(e.order[i].target, Target::AggAlias(_)) {
                            Ty::Float
                        } else {
                            f.ty
                        };
                        let lit = match sql_to_lit(&row.keys[i], ty) {
                            Some(Lit::Null) | None => break,
                            Some(l) => l,
                        };
                        if let (Target::AggAlias(_), Lit::Float(x)) = (&e.order[i].target, &lit) {
                            // SQLite renders a float aggregate with 15 digits in the JSON the HAVING clause
                            // reads back: only values that survive this rendering can be used as position
                            if x.fract() != 0.0 || x.abs() > 1e14 {
                                break;
                            }
                        }
                        let binary = f.system && f.ty == Ty::Base64;
                        let mut as_var = p.as_var;
                        if binary && !as_var && !self.wild {
                            self.exclude("binary-literal");
                            as_var = true;
                        }
                        if matches!(e.order[i].target, Target::AggAlias(_)) {
                            as_var = false;
                        }
                        values.push(if as_var {
                            FVal::Var(self.fresh("pq"), lit)
                        } else {
                            FVal::Lit(lit)
                        });
                    }
                    if !values.is_empty() {
                        e.paging = Some(RPaging {
                            before: p.before,
                            values,
                        });
                    }
                }
            }
        }
        e
    }
}

fn ev_field(ev: &Evaluator, n: &crate::data::NodeRow, f: &FieldRef) -> SqlVal {
    // value with default applied (what a filter compares)
    ev.field_sql(n, f, false)
}
