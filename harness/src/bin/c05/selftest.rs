//! Self test of the reference evaluator: models, mutations, queries and expected strings copied
//! from the repository's own `src/database/query_test.rs`. The query is re-stated as a resolved
//! tree by hand; the evaluator must accept the expected string of the repository (and the real
//! result must be that string too). A disagreement here is a defect of the evaluator by definition.

use crate::ast::*;
use crate::case::Ty;
use crate::compare::matches;
use crate::data::Store;
use crate::eval::*;
use crate::schema::{Lit, Schema};
use discret::verif::database::mutation_query::MutationQuery;
use discret::verif::database::query::{PreparedQueries, Query};
use discret::verif::database::query_language::data_model_parser::DataModel;
use discret::verif::database::query_language::mutation_parser::MutationParser;
use discret::verif::database::query_language::parameter::Parameters;
use discret::verif::database::query_language::query_parser::QueryParser;
use discret::verif::database::sqlite_database::{prepare_connection, Writeable};
use dv::engine::Outcome;
use rusqlite::Connection;
use std::sync::Arc;

struct T {
    model: DataModel,
    conn: Connection,
}

impl T {
    fn new(models: &[&str], mutation: &str) -> T {
        let conn = Connection::open_in_memory().unwrap();
        prepare_connection(&conn).unwrap();
        let mut model = DataModel::new();
        model.update(models[0]).unwrap();
        let t = T { model, conn };
        t.mutate(mutation);
        let mut t = t;
        for m in &models[1..] {
            t.model.update(m).unwrap();
        }
        t
    }
    fn mutate(&self, text: &str) {
        let p = MutationParser::parse(text, &self.model).unwrap();
        let mut params = Parameters::new();
        let mut mq = MutationQuery::execute(&mut params, Arc::new(p), &self.conn).unwrap();
        mq.write(&self.conn).unwrap();
    }
    fn real(&self, text: &str) -> String {
        let parser = QueryParser::parse(text, &self.model).unwrap();
        let prepared = PreparedQueries::build(&parser).unwrap();
        let mut q = Query {
            parameters: Parameters::new(),
            parser: Arc::new(parser),
            sql_queries: Arc::new(prepared),
        };
        q.read(&self.conn).unwrap()
    }
    fn short(&self, entity: &str) -> String {
        self.model.get_entity(entity).unwrap().short_name.clone()
    }
    fn f(&self, entity: &str, field: &str, ty: Ty) -> FieldRef {
        let short = self
            .model
            .get_entity(entity)
            .unwrap()
            .get_field(field)
            .unwrap()
            .short_name
            .clone();
        FieldRef {
            name: field.to_string(),
            short,
            ty,
            default: None,
            nullable: false,
            system: false,
        }
    }
    fn ent(&self, out: &str, alias: bool, entity: &str, link: Link) -> REnt {
        REnt {
            out: out.to_string(),
            alias: if alias { Some(out.to_string()) } else { None },
            ent: 0,
            ent_name: entity.to_string(),
            ent_short: self.short(entity),
            link,
            sels: vec![],
            filters: vec![],
            order: vec![],
            first: 0,
            skip: 0,
            first_var: None,
            skip_var: None,
            paging: None,
            nullable: vec![],
        }
    }
    fn edge(&self, entity: &str, field: &str, unique: bool, nullable: bool) -> Link {
        Link::Edge {
            field: field.to_string(),
            label: self
                .model
                .get_entity(entity)
                .unwrap()
                .get_field(field)
                .unwrap()
                .short_name
                .clone(),
            unique,
            model_nullable: nullable,
        }
    }
}

fn sel(f: FieldRef) -> RSel {
    RSel::Scalar {
        out: f.name.clone(),
        f,
    }
}
fn flt(t: Target, op: Op, l: Lit) -> RFilter {
    RFilter {
        target: t,
        op,
        value: FVal::Lit(l),
    }
}
fn ord(f: FieldRef, desc: bool) -> ROrd {
    ROrd {
        target: Target::Field(f),
        desc,
    }
}
fn s(x: &str) -> Lit {
    Lit::Str(x.to_string())
}

struct Check {
    name: &'static str,
    query: RQuery,
    expected: &'static str,
}

fn run_checks(t: &T, checks: Vec<Check>, o: &mut Outcome, id: u8) {
    let store = Store::read(&t.conn);
    let schema = Schema {
        entities: vec![],
        user_entities: 0,
        v1: String::new(),
        v2: String::new(),
        evolves: false,
    };
    for c in checks {
        let ev = Evaluator {
            schema: &schema,
            store: &store,
            quirks: Quirks::default(),
        };
        let exp = ev.eval_query(&c.query);
        let text = c.query.text();
        let real = t.real(&text);
        let expected_json: serde_json::Value = serde_json::from_str(c.expected).unwrap();
        o.count("selftest-queries", 1);
        if let Err(m) = matches(&expected_json, &exp, "$") {
            o.violation(
                format!("harness:selftest-{}-{}", id, c.name),
                format!(
                    "the evaluator rejects the repository's expected string at {}: {} | evaluator gives {}",
                    m.path,
                    m.detail,
                    exp_json(&exp)
                ),
            );
        }
        if real != c.expected {
            o.violation(
                format!("harness:selftest-{}-{}-real", id, c.name),
                format!("the rendered query does not reproduce the repository's string: {} vs {}", real, c.expected),
            );
        }
    }
}

pub fn count() -> u8 {
    6
}

pub fn run(n: u8) -> Outcome {
    let mut o = Outcome::default();
    o.label(format!("selftest:{}", n));
    o.nontrivial = true;
    match n {
        0 => entity(&mut o),
        1 => paging(&mut o),
        2 => aggregate(&mut o),
        3 => default_value(&mut o),
        4 => nullable_selection(&mut o),
        _ => json(&mut o),
    }
    o
}

/// query_test.rs::entity
fn entity(o: &mut Outcome) {
    let t = T::new(
        &["{
                Person {
                    name : String ,
                    parents : [Person] ,
                    pet: Pet ,
                    siblings : [Person] ,
                }

                Pet {
                    name : String
                }
            }"],
        r#"
            mutate {
                Person {
                    name : "John"
                    parents:  [
                        {name : "Hello"}
                        ,{
                            name:"World"
                            pet:{ name:"kiki" }
                        }
                    ]
                    pet: {name:"Truffle"}
                    siblings:[{name:"Wallis"},{ name : "Futuna" }]
                }
            } "#,
    );
    let name = t.f("Person", "name", Ty::String);
    let pet_name = t.f("Pet", "name", Ty::String);
    let mut id = name.clone();
    id.name = "id".into();
    id.short = "id".into();
    id.system = true;
    id.ty = Ty::Base64;

    let mut root = t.ent("Person", false, "Person", Link::Root);
    root.filters = vec![
        flt(
            Target::RefAlias {
                out: "remps_pets".into(),
                array: true,
            },
            Op::Ne,
            Lit::Null,
        ),
        flt(Target::Field(id), Op::Ne, s("zSRIyMbf70V999wyC0KlhQ")),
        flt(Target::Field(name.clone()), Op::Eq, s("John")),
    ];
    root.order = vec![ord(name.clone(), false)];
    let mut parents = t.ent("parents", false, "Person", t.edge("Person", "parents", false, false));
    parents.filters = vec![flt(Target::Field(name.clone()), Op::Eq, s("World"))];
    parents.sels = vec![sel(name.clone())];
    let mut pet = t.ent("pet", false, "Pet", t.edge("Person", "pet", true, false));
    pet.sels = vec![sel(pet_name.clone())];
    let mut remps = t.ent("remps_pets", true, "Person", t.edge("Person", "parents", false, false));
    remps.filters = vec![flt(
        Target::RefField {
            name: "pet".into(),
            short: t.f("Person", "pet", Ty::String).short,
            array: false,
        },
        Op::Ne,
        Lit::Null,
    )];
    remps.sels = vec![sel(name.clone()), RSel::Sub(pet.clone())];
    root.sels = vec![sel(name.clone()), RSel::Sub(parents), RSel::Sub(pet), RSel::Sub(remps)];
    run_checks(
        &t,
        vec![Check {
            name: "entity",
            query: RQuery { roots: vec![root] },
            expected: "{\n\"Person\":[{\"name\":\"John\",\"parents\":[{\"name\":\"World\"}],\"pet\":{\"name\":\"Truffle\"},\"remps_pets\":[{\"name\":\"World\",\"pet\":{\"name\":\"kiki\"}}]}]\n}",
        }],
        o,
        0,
    );
}

/// query_test.rs::order_by_first_next_paging
fn paging(o: &mut Outcome) {
    let t = T::new(
        &["ns {
            Person {
                name : String,
                age : Integer,
            }
        }"],
        r#"mutate {
            a: ns.Person { name : "John" age : 42 }
            b: ns.Person { name : "Silvie" age : 46 }
            c: ns.Person { name : "Kevin" age : 22 }
            d: ns.Person { name : "Sarah" age : 12 }
            e: ns.Person { name : "Leonore" age : 22 }
        }"#,
    );
    let name = t.f("ns.Person", "name", Ty::String);
    let age = t.f("ns.Person", "age", Ty::Integer);
    let base = |name_desc: bool| {
        let mut r = t.ent("ns.Person", false, "ns.Person", Link::Root);
        r.order = vec![ord(age.clone(), true), ord(name.clone(), name_desc)];
        r.sels = vec![sel(name.clone()), sel(age.clone())];
        r
    };
    let mut q1 = base(false);
    q1.first = 3;
    q1.skip = 1;
    let mut q2 = base(false);
    q2.paging = Some(RPaging {
        before: false,
        values: vec![FVal::Lit(Lit::Int(22))],
    });
    let mut q3 = base(false);
    q3.paging = Some(RPaging {
        before: false,
        values: vec![FVal::Lit(Lit::Int(22)), FVal::Lit(s("Kevin"))],
    });
    let mut q4 = base(true);
    q4.paging = Some(RPaging {
        before: false,
        values: vec![FVal::Lit(Lit::Int(22)), FVal::Lit(s("Leonore"))],
    });
    let mut q5 = base(true);
    q5.paging = Some(RPaging {
        before: true,
        values: vec![FVal::Lit(Lit::Int(22)), FVal::Lit(s("Leonore"))],
    });
    let mk = |name: &'static str, q: REnt, expected: &'static str| Check {
        name,
        query: RQuery { roots: vec![q] },
        expected,
    };
    run_checks(
        &t,
        vec![
            mk("first-skip", q1, "{\n\"ns.Person\":[{\"name\":\"John\",\"age\":42},{\"name\":\"Kevin\",\"age\":22},{\"name\":\"Leonore\",\"age\":22}]\n}"),
            mk("after1", q2, "{\n\"ns.Person\":[{\"name\":\"Sarah\",\"age\":12}]\n}"),
            mk("after2", q3, "{\n\"ns.Person\":[{\"name\":\"Leonore\",\"age\":22},{\"name\":\"Sarah\",\"age\":12}]\n}"),
            mk("after-desc", q4, "{\n\"ns.Person\":[{\"name\":\"Kevin\",\"age\":22},{\"name\":\"Sarah\",\"age\":12}]\n}"),
            mk("before", q5, "{\n\"ns.Person\":[{\"name\":\"Silvie\",\"age\":46},{\"name\":\"John\",\"age\":42}]\n}"),
        ],
        o,
        1,
    );
}

/// query_test.rs::aggregate
fn aggregate(o: &mut Outcome) {
    let t = T::new(
        &["ns{
            Person {
                age : Integer,
                weight : Float,
                nat: String,
            }
        }"],
        r#"mutate {
                P1: ns.Person { age:24 weight:45 nat:"us" }
                P2: ns.Person { age:12 weight:23 nat:"us" }
                P3: ns.Person { age:45 weight:86 nat:"fr" }
                P4: ns.Person { age:34 weight:43 nat:"fr" }
                P5: ns.Person { age:54 weight:70 nat:"sa" }
                P6: ns.Person { age:67 weight:85 nat:"sa" }
                P7: ns.Person { age:72 weight:65 nat:"sa" }
                P8: ns.Person { age:24 weight:95 nat:"en" }
                P9: ns.Person { age:1 weight:52 nat:"en" }
                P10: ns.Person { age:45 weight:65 nat:"en" }
                P11: ns.Person { age:24 weight:75 nat:"en" }
            } "#,
    );
    let nat = t.f("ns.Person", "nat", Ty::String);
    let weight = t.f("ns.Person", "weight", Ty::Float);
    let aggs = |r: &mut REnt| {
        r.sels = vec![
            sel(nat.clone()),
            RSel::Agg {
                out: "avg".into(),
                func: Func::Avg,
                f: Some(weight.clone()),
            },
            RSel::Agg {
                out: "count".into(),
                func: Func::Count,
                f: None,
            },
            RSel::Agg {
                out: "max".into(),
                func: Func::Max,
                f: Some(weight.clone()),
            },
            RSel::Agg {
                out: "min".into(),
                func: Func::Min,
                f: Some(weight.clone()),
            },
            RSel::Agg {
                out: "sum".into(),
                func: Func::Sum,
                f: Some(weight.clone()),
            },
        ];
    };
    let agg_ord = |n: &str, desc: bool| ROrd {
        target: Target::AggAlias(n.to_string()),
        desc,
    };
    let mut q1 = t.ent("ns.Person", false, "ns.Person", Link::Root);
    aggs(&mut q1);
    q1.order = vec![
        agg_ord("avg", false),
        agg_ord("count", false),
        agg_ord("max", false),
        agg_ord("min", false),
        agg_ord("sum", false),
    ];
    let mut q2 = t.ent("ns.Person", false, "ns.Person", Link::Root);
    aggs(&mut q2);
    q2.order = vec![ord(nat.clone(), false), agg_ord("count", true)];
    q2.filters = vec![flt(Target::AggAlias("count".into()), Op::Gt, Lit::Int(2))];
    q2.paging = Some(RPaging {
        before: false,
        values: vec![FVal::Lit(s("en")), FVal::Lit(Lit::Int(3))],
    });
    run_checks(
        &t,
        vec![
            Check {
                name: "group",
                query: RQuery { roots: vec![q1] },
                expected: "{\n\"ns.Person\":[{\"nat\":\"us\",\"avg\":34.0,\"count\":2,\"max\":45.0,\"min\":23.0,\"sum\":68.0},{\"nat\":\"fr\",\"avg\":64.5,\"count\":2,\"max\":86.0,\"min\":43.0,\"sum\":129.0},{\"nat\":\"en\",\"avg\":71.75,\"count\":4,\"max\":95.0,\"min\":52.0,\"sum\":287.0},{\"nat\":\"sa\",\"avg\":73.3333333333333,\"count\":3,\"max\":85.0,\"min\":65.0,\"sum\":220.0}]\n}",
            },
            Check {
                name: "having-after",
                query: RQuery { roots: vec![q2] },
                expected: "{\n\"ns.Person\":[{\"nat\":\"sa\",\"avg\":73.3333333333333,\"count\":3,\"max\":85.0,\"min\":65.0,\"sum\":220.0}]\n}",
            },
        ],
        o,
        2,
    );
}

/// query_test.rs::default_value (second part: a field added by a model update)
fn default_value(o: &mut Outcome) {
    let t = T::new(
        &[
            r#"ns {
                Person {
                    name : String,
                    def : String default "Lorem ipsum",
                }
            }"#,
            r#"ns {
                Person {
                    name : String,
                    def : String default "Lorem ipsum",
                    newdef : String default "sit met",
                }
            }"#,
        ],
        r#"mutate {
                P2: ns.Person { name:"Alice"  }
                P3: ns.Person { name:"Bob" def:"A completely different" }
            } "#,
    );
    let name = t.f("ns.Person", "name", Ty::String);
    let mut def = t.f("ns.Person", "def", Ty::String);
    def.default = Some(s("Lorem ipsum"));
    let mut newdef = t.f("ns.Person", "newdef", Ty::String);
    newdef.default = Some(s("sit met"));
    let mut q = t.ent("ns.Person", false, "ns.Person", Link::Root);
    q.order = vec![ord(name.clone(), false)];
    q.sels = vec![sel(name), sel(def), sel(newdef)];
    run_checks(
        &t,
        vec![Check {
            name: "late-default",
            query: RQuery { roots: vec![q] },
            expected: "{\n\"ns.Person\":[{\"name\":\"Alice\",\"def\":\"Lorem ipsum\",\"newdef\":\"sit met\"},{\"name\":\"Bob\",\"def\":\"A completely different\",\"newdef\":\"sit met\"}]\n}",
        }],
        o,
        3,
    );
}

/// query_test.rs::entity_nullable_selection and entity_not_null_selection
fn nullable_selection(o: &mut Outcome) {
    let mutation = r#"
            mutate {
                P1: ns.Person {
                    name : "John"
                    parents:  [ {name : "John Mother"} ,{ name:"John Father" pet:{ name:"Kiki" }}]
                    pet: { name:"Truffle"}
                }
                P2: ns.Person {
                    name : "Ada"
                    parents:  [ {name : "Ada Mother" pet:{ name:"Lulu" }} ,{ name:"Ada Father" pet:{ name:"Waf" }}]
                }
            } "#;
    let t = T::new(
        &["ns {
                Person {
                    name : String ,
                    parents : [ns.Person] nullable,
                    pet: ns.Pet ,
                }
                Pet {
                    name : String
                }
            }"],
        mutation,
    );
    let name = t.f("ns.Person", "name", Ty::String);
    let pet_name = t.f("ns.Pet", "name", Ty::String);
    let mut q1 = t.ent("ns.Person", false, "ns.Person", Link::Root);
    q1.order = vec![ord(name.clone(), false)];
    let mut parents = t.ent("parents", false, "ns.Person", t.edge("ns.Person", "parents", false, true));
    parents.order = vec![ord(name.clone(), false)];
    parents.sels = vec![sel(name.clone())];
    q1.sels = vec![sel(name.clone()), RSel::Sub(parents)];

    let mut q2 = t.ent("ns.Person", false, "ns.Person", Link::Root);
    q2.order = vec![ord(name.clone(), false)];
    q2.nullable = vec!["has_pet".into()];
    let mut pet = t.ent("has_pet", true, "ns.Pet", t.edge("ns.Person", "pet", true, false));
    pet.sels = vec![sel(pet_name.clone())];
    q2.sels = vec![sel(name.clone()), RSel::Sub(pet)];
    run_checks(
        &t,
        vec![
            Check {
                name: "nullable-array",
                query: RQuery { roots: vec![q1] },
                expected: "{\n\"ns.Person\":[{\"name\":\"Ada\",\"parents\":[{\"name\":\"Ada Father\"},{\"name\":\"Ada Mother\"}]},{\"name\":\"Ada Father\",\"parents\":[]},{\"name\":\"Ada Mother\",\"parents\":[]},{\"name\":\"John\",\"parents\":[{\"name\":\"John Father\"},{\"name\":\"John Mother\"}]},{\"name\":\"John Father\",\"parents\":[]},{\"name\":\"John Mother\",\"parents\":[]}]\n}",
            },
            Check {
                name: "nullable-param",
                query: RQuery { roots: vec![q2] },
                expected: "{\n\"ns.Person\":[{\"name\":\"Ada\",\"has_pet\":null},{\"name\":\"Ada Father\",\"has_pet\":{\"name\":\"Waf\"}},{\"name\":\"Ada Mother\",\"has_pet\":{\"name\":\"Lulu\"}},{\"name\":\"John\",\"has_pet\":{\"name\":\"Truffle\"}},{\"name\":\"John Father\",\"has_pet\":{\"name\":\"Kiki\"}},{\"name\":\"John Mother\",\"has_pet\":null}]\n}",
            },
        ],
        o,
        4,
    );

    // entity_not_null_selection: required references exclude rows
    let t = T::new(
        &["ns {
                Person {
                    name : String ,
                    parents : [ns.Person] ,
                    pet: ns.Pet ,
                }
                Pet {
                    name : String
                }
            }"],
        mutation,
    );
    let name = t.f("ns.Person", "name", Ty::String);
    let pet_name = t.f("ns.Pet", "name", Ty::String);
    let mk_parents = |out: &str, alias: bool, with_pet: bool| {
        let mut p = t.ent(out, alias, "ns.Person", t.edge("ns.Person", "parents", false, false));
        p.order = vec![ord(name.clone(), false)];
        p.sels = vec![sel(name.clone())];
        if with_pet {
            let mut pet = t.ent("pet", false, "ns.Pet", t.edge("ns.Person", "pet", true, false));
            pet.sels = vec![sel(pet_name.clone())];
            p.sels.push(RSel::Sub(pet));
        }
        p
    };
    let mut q3 = t.ent("ns.Person", false, "ns.Person", Link::Root);
    q3.order = vec![ord(name.clone(), false)];
    let mut pet = t.ent("pet", false, "ns.Pet", t.edge("ns.Person", "pet", true, false));
    pet.sels = vec![sel(pet_name.clone())];
    q3.sels = vec![
        sel(name.clone()),
        RSel::Sub(mk_parents("parents", false, false)),
        RSel::Sub(pet),
        RSel::Sub(mk_parents("parents_pets", true, true)),
    ];
    let mut q4 = t.ent("ns.Person", false, "ns.Person", Link::Root);
    q4.order = vec![ord(name.clone(), false)];
    q4.sels = vec![
        sel(name.clone()),
        RSel::Sub(mk_parents("parents", false, false)),
        RSel::Sub(mk_parents("parents_pets", true, true)),
    ];
    run_checks(
        &t,
        vec![
            Check {
                name: "required-1",
                query: RQuery { roots: vec![q3] },
                expected: "{\n\"ns.Person\":[{\"name\":\"John\",\"parents\":[{\"name\":\"John Father\"},{\"name\":\"John Mother\"}],\"pet\":{\"name\":\"Truffle\"},\"parents_pets\":[{\"name\":\"John Father\",\"pet\":{\"name\":\"Kiki\"}}]}]\n}",
            },
            Check {
                name: "required-2",
                query: RQuery { roots: vec![q4] },
                expected: "{\n\"ns.Person\":[{\"name\":\"Ada\",\"parents\":[{\"name\":\"Ada Father\"},{\"name\":\"Ada Mother\"}],\"parents_pets\":[{\"name\":\"Ada Father\",\"pet\":{\"name\":\"Waf\"}},{\"name\":\"Ada Mother\",\"pet\":{\"name\":\"Lulu\"}}]},{\"name\":\"John\",\"parents\":[{\"name\":\"John Father\"},{\"name\":\"John Mother\"}],\"parents_pets\":[{\"name\":\"John Father\",\"pet\":{\"name\":\"Kiki\"}}]}]\n}",
            },
        ],
        o,
        4,
    );
}

/// query_test.rs::json
fn json(o: &mut Outcome) {
    let t = T::new(
        &[r#"ns{
                Person {
                    name : String,
                    data : Json,
                }
            }"#],
        r#"mutate {
                P2: ns.Person { name:"Alice" data:"{\"val\":\"hello json\"}" }
                P3: ns.Person { name:"Bob" data:"[1,2,3,4]" }
            } "#,
    );
    let name = t.f("ns.Person", "name", Ty::String);
    let data = t.f("ns.Person", "data", Ty::Json);
    let val = Selector::Object(vec![PathSeg::Key("val".into())]);
    let base = |selector: Selector, order_alias: bool| {
        let mut r = t.ent("ns.Person", false, "ns.Person", Link::Root);
        r.order = if order_alias {
            vec![ROrd {
                target: Target::Alias("array".into()),
                desc: false,
            }]
        } else {
            vec![ord(name.clone(), false)]
        };
        r.sels = vec![
            sel(name.clone()),
            RSel::Json {
                out: "data".into(),
                f: data.clone(),
                sel: None,
            },
            RSel::Json {
                out: "array".into(),
                f: data.clone(),
                sel: Some(selector),
            },
        ];
        r
    };
    let q1 = base(val.clone(), false);
    let q2 = base(Selector::Array(1), false);
    let mut q3 = base(Selector::Array(1), true);
    q3.filters = vec![flt(Target::Json(data.clone(), Selector::Array(1)), Op::Eq, Lit::Int(2))];
    let mut q4 = base(val.clone(), true);
    q4.filters = vec![flt(Target::Json(data.clone(), val.clone()), Op::Eq, s("hello json"))];
    let mk = |name: &'static str, q: REnt, expected: &'static str| Check {
        name,
        query: RQuery { roots: vec![q] },
        expected,
    };
    run_checks(
        &t,
        vec![
            mk("object-selector", q1, "{\n\"ns.Person\":[{\"name\":\"Alice\",\"data\":{\"val\":\"hello json\"},\"array\":\"hello json\"},{\"name\":\"Bob\",\"data\":[1,2,3,4],\"array\":null}]\n}"),
            mk("array-selector", q2, "{\n\"ns.Person\":[{\"name\":\"Alice\",\"data\":{\"val\":\"hello json\"},\"array\":null},{\"name\":\"Bob\",\"data\":[1,2,3,4],\"array\":2}]\n}"),
            mk("array-filter", q3, "{\n\"ns.Person\":[{\"name\":\"Bob\",\"data\":[1,2,3,4],\"array\":2}]\n}"),
            mk("object-filter", q4, "{\n\"ns.Person\":[{\"name\":\"Alice\",\"data\":{\"val\":\"hello json\"},\"array\":\"hello json\"}]\n}"),
        ],
        o,
        5,
    );
}
