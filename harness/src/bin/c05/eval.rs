//! Reference evaluator: a direct interpretation of a resolved query over the rows read back
//! from `_node` / `_edge`.
//!
//! `Quirks` switches reproduce, one by one, the deviations of the implementation that were
//! diagnosed as findings; they are only used by the classifier to give a mismatch an exact
//! signature ("the real result equals the direct evaluation modified by exactly this deviation").

use crate::ast::*;
use crate::case::Ty;
use crate::data::{b64, unb64, NodeRow, Store};
use crate::schema::{Lit, Schema};
use serde_json::Value as J;
use std::cmp::Ordering;

#[derive(Clone, Copy, Debug, PartialEq, Eq, PartialOrd, Ord, Hash)]
pub enum Quirk {
    /// a filter on a reference field by its model name tests the output object, where the name is absent
    EntityFilterUnselected,
    /// group by uses the raw stored value instead of the value with default applied
    GroupByRaw,
    /// system fields selected in an aggregate query are not grouping keys
    GroupBySystemIgnored,
    /// base64 fields selected in an aggregate query are not grouping keys
    GroupByBase64Ignored,
    /// literal values compared with the binary system columns are bound as text
    BinaryLiteralAsText,
    /// a null bound to a variable is compared with `=` / `!=` (never true)
    NullVariable,
    /// nested level with the same table alias as its parent: the join condition binds to the inner table
    AliasShadow,
    /// explicit JSON null stored before the field got a default: the default is not applied on selection
    ExplicitNullNoDefault,
    /// avg / min / max work on the JSON text of the member (`->` instead of `->>`): min / max compare
    /// text, an explicit JSON null is the text 'null' (counted as 0 by avg, greatest text for max)
    AggJsonText,
    /// avg / sum / min / max ignore rows lacking the field instead of using the default
    AggregateRaw,
    /// the default of a Json field is rendered as a JSON string instead of the JSON value
    JsonDefaultAsString,
    /// order_by (and paging) on a model field name use the raw stored value instead of the value with default
    OrderRaw,
}

pub const ALL_QUIRKS: [Quirk; 12] = [
    Quirk::EntityFilterUnselected,
    Quirk::GroupByRaw,
    Quirk::GroupBySystemIgnored,
    Quirk::GroupByBase64Ignored,
    Quirk::BinaryLiteralAsText,
    Quirk::NullVariable,
    Quirk::AliasShadow,
    Quirk::ExplicitNullNoDefault,
    Quirk::AggJsonText,
    Quirk::AggregateRaw,
    Quirk::JsonDefaultAsString,
    Quirk::OrderRaw,
];

impl Quirk {
    pub fn signature(&self) -> &'static str {
        match self {
            Quirk::EntityFilterUnselected => "entity-filter-on-unselected-reference",
            Quirk::GroupByRaw => "group-by-ignores-default",
            Quirk::GroupBySystemIgnored => "group-by-ignores-system-field",
            Quirk::GroupByBase64Ignored => "group-by-ignores-base64-field",
            Quirk::BinaryLiteralAsText => "binary-literal-compared-as-text",
            Quirk::NullVariable => "null-variable-never-matches",
            Quirk::AliasShadow => "nested-alias-shadows-parent",
            Quirk::ExplicitNullNoDefault => "explicit-null-hides-default",
            Quirk::AggJsonText => "aggregate-uses-json-text",
            Quirk::AggregateRaw => "aggregate-ignores-default",
            Quirk::JsonDefaultAsString => "json-default-rendered-as-string",
            Quirk::OrderRaw => "order-by-ignores-default",
        }
    }
}

#[derive(Clone, Debug, Default)]
pub struct Quirks(pub Vec<Quirk>);
impl Quirks {
    pub fn has(&self, q: Quirk) -> bool {
        self.0.contains(&q)
    }
}

/// a value as SQLite sees it
#[derive(Clone, Debug)]
pub enum SqlVal {
    Null,
    Int(i64),
    Real(f64),
    Text(String),
    Blob(Vec<u8>),
}

impl SqlVal {
    fn class(&self) -> u8 {
        match self {
            SqlVal::Null => 0,
            SqlVal::Int(_) | SqlVal::Real(_) => 1,
            SqlVal::Text(_) => 2,
            SqlVal::Blob(_) => 3,
        }
    }
    pub fn is_null(&self) -> bool {
        matches!(self, SqlVal::Null)
    }
    /// total order used by ORDER BY (NULL < numbers < text < blob)
    pub fn cmp_total(&self, other: &SqlVal) -> Ordering {
        let (a, b) = (self.class(), other.class());
        if a != b {
            return a.cmp(&b);
        }
        match (self, other) {
            (SqlVal::Null, SqlVal::Null) => Ordering::Equal,
            (SqlVal::Int(x), SqlVal::Int(y)) => x.cmp(y),
            (SqlVal::Int(x), SqlVal::Real(y)) => cmp_int_real(*x, *y),
            (SqlVal::Real(x), SqlVal::Int(y)) => cmp_int_real(*y, *x).reverse(),
            (SqlVal::Real(x), SqlVal::Real(y)) => x.partial_cmp(y).unwrap_or(Ordering::Equal),
            (SqlVal::Text(x), SqlVal::Text(y)) => x.as_bytes().cmp(y.as_bytes()),
            (SqlVal::Blob(x), SqlVal::Blob(y)) => x.cmp(y),
            _ => Ordering::Equal,
        }
    }
    /// comparison of a WHERE clause: None when one side is NULL
    pub fn cmp_sql(&self, other: &SqlVal) -> Option<Ordering> {
        if self.is_null() || other.is_null() {
            None
        } else {
            Some(self.cmp_total(other))
        }
    }
    pub fn from_json(v: &J) -> SqlVal {
        match v {
            J::Null => SqlVal::Null,
            J::Bool(b) => SqlVal::Int(*b as i64),
            J::Number(n) => {
                if let Some(i) = n.as_i64() {
                    SqlVal::Int(i)
                } else {
                    SqlVal::Real(n.as_f64().unwrap_or(0.0))
                }
            }
            J::String(s) => SqlVal::Text(s.clone()),
            other => SqlVal::Text(serde_json::to_string(other).unwrap()),
        }
    }
    pub fn from_lit(l: &Lit) -> SqlVal {
        match l {
            Lit::Null => SqlVal::Null,
            Lit::Bool(b) => SqlVal::Int(*b as i64),
            Lit::Int(i) => SqlVal::Int(*i),
            Lit::Float(f) => SqlVal::Real(*f),
            Lit::Str(s) => SqlVal::Text(s.clone()),
        }
    }
    pub fn as_f64(&self) -> Option<f64> {
        match self {
            SqlVal::Int(i) => Some(*i as f64),
            SqlVal::Real(f) => Some(*f),
            _ => None,
        }
    }
}

fn cmp_int_real(i: i64, r: f64) -> Ordering {
    // exact enough for the value pools in use (|i| < 2^63, r finite)
    if r >= 9.3e18 {
        return Ordering::Less;
    }
    if r <= -9.3e18 {
        return Ordering::Greater;
    }
    let t = r.trunc() as i64;
    match i.cmp(&t) {
        Ordering::Equal => {
            let frac = r - r.trunc();
            if frac > 0.0 {
                Ordering::Less
            } else if frac < 0.0 {
                Ordering::Greater
            } else {
                Ordering::Equal
            }
        }
        o => o,
    }
}

/// expected output tree
#[derive(Clone, Debug)]
pub enum Exp {
    /// a JSON value; `from_default_bool`: a boolean default, which the implementation renders as 1 / 0
    /// (asserted by the repository's own test `query_with_null_default`)
    Val(J, bool),
    Obj(Vec<(String, Exp)>),
    /// the array of an entity level
    List(ExpList),
    /// single reference: null or the first row of the list
    Single(ExpList),
    /// any of the alternatives (only produced under quirks that make the output arbitrary)
    AnyOf(Vec<Exp>),
}

#[derive(Clone, Debug)]
pub struct ExpRow {
    pub keys: Vec<SqlVal>,
    pub obj: Exp,
    /// id of the underlying node (None for groups)
    pub id: Option<Vec<u8>>,
}

#[derive(Clone, Debug)]
pub struct ExpList {
    /// all rows passing the filters and the paging predicate, sorted by the order keys
    pub rows: Vec<ExpRow>,
    pub skip: usize,
    /// 0: no limit
    pub first: usize,
}

impl ExpList {
    /// number of rows displayed
    pub fn displayed(&self) -> usize {
        let n = self.rows.len().saturating_sub(self.skip);
        if self.first > 0 {
            n.min(self.first)
        } else {
            n
        }
    }
}

pub struct Evaluator<'a> {
    #[allow(dead_code)]
    pub schema: &'a Schema,
    pub store: &'a Store,
    pub quirks: Quirks,
}

fn system_value(n: &NodeRow, name: &str) -> SqlVal {
    match name {
        "id" => SqlVal::Blob(n.id.clone()),
        "room_id" => n.room_id.clone().map(SqlVal::Blob).unwrap_or(SqlVal::Null),
        "cdate" => SqlVal::Int(n.cdate),
        "mdate" => SqlVal::Int(n.mdate),
        "verifying_key" => SqlVal::Blob(n.verifying_key.clone()),
        "_entity" => SqlVal::Text(n.entity.clone()),
        _ => SqlVal::Null,
    }
}

fn system_display(n: &NodeRow, name: &str) -> J {
    match system_value(n, name) {
        SqlVal::Null => J::Null,
        SqlVal::Int(i) => J::from(i),
        SqlVal::Blob(b) => J::String(b64(&b)),
        SqlVal::Text(t) => J::String(t),
        SqlVal::Real(f) => J::from(f),
    }
}

pub fn json_path<'j>(v: &'j J, sel: &Selector) -> Option<&'j J> {
    match sel {
        Selector::Array(i) => v.as_array().and_then(|a| a.get(*i)),
        Selector::Object(path) => {
            let mut cur = v;
            for seg in path {
                cur = match seg {
                    PathSeg::Key(k) => cur.as_object()?.get(k)?,
                    PathSeg::Idx(i) => cur.as_array()?.get(*i)?,
                };
            }
            Some(cur)
        }
    }
}

impl<'a> Evaluator<'a> {
    fn raw<'n>(&self, n: &'n NodeRow, f: &FieldRef) -> Option<&'n J> {
        n.json.as_object().and_then(|o| o.get(&f.short))
    }

    /// value of a model field with the default applied
    fn field_json(&self, n: &NodeRow, f: &FieldRef, display: bool) -> (J, bool) {
        if f.system {
            return (system_display(n, &f.name), false);
        }
        match self.raw(n, f) {
            Some(J::Null) => {
                if display && self.quirks.has(Quirk::ExplicitNullNoDefault) {
                    (J::Null, false)
                } else {
                    self.default_json(f, display)
                }
            }
            Some(v) => (v.clone(), false),
            None => self.default_json(f, display),
        }
    }

    fn default_json(&self, f: &FieldRef, display: bool) -> (J, bool) {
        match &f.default {
            Some(Lit::Bool(b)) => (J::Bool(*b), true),
            Some(Lit::Str(s)) if f.ty == Ty::Json && display && self.quirks.has(Quirk::JsonDefaultAsString) => {
                (J::String(s.clone()), false)
            }
            Some(Lit::Str(s)) if f.ty == Ty::Json => (serde_json::from_str(s).unwrap_or(J::Null), false),
            Some(l) => (l.json(), false),
            None => (J::Null, false),
        }
    }

    /// SQL value of a model field (system column or JSON member), default applied unless `raw`
    pub fn field_sql(&self, n: &NodeRow, f: &FieldRef, raw: bool) -> SqlVal {
        if f.system {
            return system_value(n, &f.name);
        }
        if raw {
            return self.raw(n, f).map(SqlVal::from_json).unwrap_or(SqlVal::Null);
        }
        SqlVal::from_json(&self.field_json(n, f, false).0)
    }

    fn candidates(&self, e: &REnt, parent: Option<(&NodeRow, &str)>) -> Vec<&'a NodeRow> {
        let all = self.store.of_entity(&e.ent_short);
        match (&e.link, parent) {
            (Link::Root, _) | (_, None) => all,
            (Link::Edge { label, .. }, Some((p, ptable))) => {
                if self.quirks.has(Quirk::AliasShadow) && e.table() == ptable {
                    return all
                        .into_iter()
                        .filter(|n| {
                            self.store
                                .edges
                                .iter()
                                .any(|ed| ed.src == n.id && ed.dest == n.id && &ed.label == label)
                        })
                        .collect();
                }
                all.into_iter()
                    .filter(|n| {
                        self.store
                            .edges
                            .iter()
                            .any(|ed| ed.src == p.id && ed.dest == n.id && &ed.label == label)
                    })
                    .collect()
            }
            (Link::SysPeer, Some((p, _))) => all
                .into_iter()
                .filter(|n| n.verifying_key == p.verifying_key)
                .collect(),
            (Link::SysRoom, Some((p, _))) => all
                .into_iter()
                .filter(|n| Some(&n.id) == p.room_id.as_ref())
                .collect(),
        }
    }

    fn lit_for_field(&self, f: &FieldRef, l: &Lit) -> SqlVal {
        if f.system && f.ty == Ty::Base64 {
            if let Lit::Str(s) = l {
                return SqlVal::Blob(unb64(s).unwrap_or_default());
            }
        }
        SqlVal::from_lit(l)
    }

    fn compare(&self, left: &SqlVal, op: Op, value: &FVal, right: SqlVal) -> bool {
        if *value.lit() == Lit::Null {
            let literal_null = !value.is_var();
            if literal_null || !self.quirks.has(Quirk::NullVariable) {
                return match op {
                    Op::Eq => left.is_null(),
                    Op::Ne => !left.is_null(),
                    _ => false,
                };
            }
            return false;
        }
        match left.cmp_sql(&right) {
            None => false,
            Some(o) => match op {
                Op::Eq => o == Ordering::Equal,
                Op::Ne => o != Ordering::Equal,
                Op::Lt => o == Ordering::Less,
                Op::Le => o != Ordering::Greater,
                Op::Gt => o == Ordering::Greater,
                Op::Ge => o != Ordering::Less,
            },
        }
    }

    /// SQL value of a selected output (what `value->>'$.name'` gives)
    fn output_sql(&self, obj: &[(String, Exp)], name: &str) -> SqlVal {
        for (k, v) in obj {
            if k == name {
                return match v {
                    Exp::Val(j, _) => SqlVal::from_json(j),
                    _ => SqlVal::Null,
                };
            }
        }
        SqlVal::Null
    }

    fn right_value(&self, e: &REnt, target: &Target, value: &FVal) -> SqlVal {
        let lit = value.lit();
        match target {
            Target::Field(f) => {
                if f.system
                    && f.ty == Ty::Base64
                    && !value.is_var()
                    && self.quirks.has(Quirk::BinaryLiteralAsText)
                {
                    SqlVal::from_lit(lit)
                } else {
                    self.lit_for_field(f, lit)
                }
            }
            Target::Alias(a) => {
                // alias of a system binary column: the displayed value is the base64 text
                let _ = (e, a);
                SqlVal::from_lit(lit)
            }
            _ => SqlVal::from_lit(lit),
        }
    }

    fn filter_passes(
        &self,
        e: &REnt,
        n: &NodeRow,
        obj: &[(String, Exp)],
        subs: &[(String, bool, usize)],
        f: &RFilter,
    ) -> bool {
        match &f.target {
            Target::Field(fr) => {
                let left = self.field_sql(n, fr, false);
                let right = self.right_value(e, &f.target, &f.value);
                self.compare(&left, f.op, &f.value, right)
            }
            Target::Alias(a) => {
                let mut left = self.output_sql(obj, a);
                if left.is_null() {
                    // only reachable under ExplicitNullNoDefault: the filter still applies the default
                    if let Some(d) = e.sels.iter().find_map(|s| match s {
                        RSel::Scalar { out, f } if out == a => f.default.clone(),
                        _ => None,
                    }) {
                        left = SqlVal::from_lit(&d);
                    }
                }
                let right = self.right_value(e, &f.target, &f.value);
                self.compare(&left, f.op, &f.value, right)
            }
            Target::Json(fr, sel) => {
                let left = self
                    .raw(n, fr)
                    .and_then(|v| json_path(v, sel))
                    .map(SqlVal::from_json)
                    .unwrap_or(SqlVal::Null);
                self.compare(&left, f.op, &f.value, SqlVal::from_lit(f.value.lit()))
            }
            Target::RefAlias { out, .. } => {
                let nonempty = subs.iter().find(|s| &s.0 == out).map(|s| s.1).unwrap_or(false);
                match f.op {
                    Op::Eq => !nonempty,
                    _ => nonempty,
                }
            }
            Target::RefField { name, short, .. } => {
                // selected under its own name: the displayed (filtered) sub result;
                // otherwise: existence of a reference in the stored rows
                let nonempty = match subs.iter().find(|s| &s.0 == name) {
                    Some(s) => s.1,
                    None => {
                        if self.quirks.has(Quirk::EntityFilterUnselected) {
                            false
                        } else {
                            self.store.edges.iter().any(|ed| {
                                ed.src == n.id
                                    && &ed.label == short
                                    && self.store.nodes.iter().any(|t| t.id == ed.dest)
                            })
                        }
                    }
                };
                match f.op {
                    Op::Eq => !nonempty,
                    _ => nonempty,
                }
            }
            Target::AggAlias(_) => true, // having: applied on groups
        }
    }

    fn order_key(&self, n: Option<&NodeRow>, obj: &[(String, Exp)], o: &ROrd) -> SqlVal {
        match &o.target {
            Target::Field(f) => match n {
                Some(n) => self.field_sql(n, f, self.quirks.has(Quirk::OrderRaw)),
                None => SqlVal::Null,
            },
            Target::Alias(a) | Target::AggAlias(a) => self.output_sql(obj, a),
            _ => SqlVal::Null,
        }
    }

    fn paging_passes(&self, e: &REnt, keys: &[SqlVal]) -> bool {
        let p = match &e.paging {
            Some(p) => p,
            None => return true,
        };
        for i in 0..p.values.len() {
            let mut ok = true;
            for j in 0..i {
                let right = self.paging_value(e, j, &p.values[j]);
                if keys[j].cmp_sql(&right) != Some(Ordering::Equal) {
                    ok = false;
                    break;
                }
            }
            if !ok {
                continue;
            }
            let right = self.paging_value(e, i, &p.values[i]);
            let want = match (e.order[i].desc, p.before) {
                (false, false) | (true, true) => Ordering::Greater,
                _ => Ordering::Less,
            };
            if keys[i].cmp_sql(&right) == Some(want) {
                return true;
            }
        }
        false
    }

    fn paging_value(&self, e: &REnt, i: usize, v: &FVal) -> SqlVal {
        match &e.order[i].target {
            Target::Field(f) => {
                if f.system
                    && f.ty == Ty::Base64
                    && !v.is_var()
                    && self.quirks.has(Quirk::BinaryLiteralAsText)
                {
                    SqlVal::from_lit(v.lit())
                } else {
                    self.lit_for_field(f, v.lit())
                }
            }
            _ => SqlVal::from_lit(v.lit()),
        }
    }

    pub fn eval_query(&self, q: &RQuery) -> Exp {
        Exp::Obj(
            q.roots
                .iter()
                .map(|r| (r.out.clone(), Exp::List(self.eval_ent(r, None))))
                .collect(),
        )
    }

    pub fn eval_ent(&self, e: &REnt, parent: Option<(&NodeRow, &str)>) -> ExpList {
        let table = e.table();
        let mut kept: Vec<(&NodeRow, Vec<(String, Exp)>)> = vec![];
        'rows: for n in self.candidates(e, parent) {
            let mut obj: Vec<(String, Exp)> = vec![];
            // (output name, displayed non empty, displayed count)
            let mut subs: Vec<(String, bool, usize)> = vec![];
            for s in &e.sels {
                match s {
                    RSel::Scalar { out, f } => {
                        let (j, b) = self.field_json(n, f, true);
                        obj.push((out.clone(), Exp::Val(j, b)));
                    }
                    RSel::Json { out, f, sel } => {
                        let (j, _) = self.field_json(n, f, true);
                        let v = match sel {
                            None => j,
                            Some(sel) => json_path(&j, sel).cloned().unwrap_or(J::Null),
                        };
                        obj.push((out.clone(), Exp::Val(v, false)));
                    }
                    RSel::Agg { .. } => {}
                    RSel::Sub(sub) => {
                        let list = self.eval_ent(sub, Some((n, &table)));
                        let shown = if sub.unique() {
                            list.rows.len().min(1)
                        } else {
                            list.displayed()
                        };
                        let required = !sub.model_nullable() && !e.nullable.contains(&sub.out);
                        if required && shown == 0 {
                            continue 'rows;
                        }
                        subs.push((sub.out.clone(), shown > 0, shown));
                        if sub.unique() {
                            obj.push((sub.out.clone(), Exp::Single(list)));
                        } else {
                            obj.push((sub.out.clone(), Exp::List(list)));
                        }
                    }
                }
            }
            for f in &e.filters {
                if !self.filter_passes(e, n, &obj, &subs, f) {
                    continue 'rows;
                }
            }
            kept.push((n, obj));
        }

        let mut rows: Vec<ExpRow> = vec![];
        if e.is_aggregate() {
            rows = self.aggregate(e, kept);
        } else {
            for (n, obj) in kept {
                let keys: Vec<SqlVal> = e.order.iter().map(|o| self.order_key(Some(n), &obj, o)).collect();
                rows.push(ExpRow {
                    keys,
                    obj: Exp::Obj(obj),
                    id: Some(n.id.clone()),
                });
            }
        }
        rows.retain(|r| self.paging_passes(e, &r.keys));
        let dirs: Vec<bool> = e.order.iter().map(|o| o.desc).collect();
        rows.sort_by(|a, b| cmp_keys(&a.keys, &b.keys, &dirs));
        ExpList {
            rows,
            skip: if e.unique() { 0 } else { e.skip as usize },
            first: if e.unique() { 1 } else { e.first as usize },
        }
    }

    /// None: the field is not part of the grouping
    fn group_value(&self, n: &NodeRow, s: &RSel) -> Option<SqlVal> {
        match s {
            RSel::Scalar { f, .. } => {
                if f.ty == Ty::Base64 && self.quirks.has(Quirk::GroupByBase64Ignored) {
                    // binary fields (id, room_id, verifying_key, Base64 fields) are left out of GROUP BY
                    return None;
                }
                if f.system {
                    if f.ty != Ty::Base64 && self.quirks.has(Quirk::GroupBySystemIgnored) {
                        // grouped on a JSON member of that name, which never exists: constant NULL
                        return Some(SqlVal::Null);
                    }
                    return Some(system_value(n, &f.name));
                }
                Some(self.field_sql(n, f, self.quirks.has(Quirk::GroupByRaw)))
            }
            _ => None,
        }
    }

    fn aggregate(&self, e: &REnt, kept: Vec<(&NodeRow, Vec<(String, Exp)>)>) -> Vec<ExpRow> {
        let grouping: Vec<&RSel> = e
            .sels
            .iter()
            .filter(|s| matches!(s, RSel::Scalar { .. }))
            .collect();
        let mut groups: Vec<(Vec<SqlVal>, Vec<(&NodeRow, Vec<(String, Exp)>)>)> = vec![];
        for (n, obj) in kept {
            let key: Vec<SqlVal> = grouping.iter().filter_map(|s| self.group_value(n, s)).collect();
            match groups
                .iter_mut()
                .find(|g| g.0.len() == key.len() && g.0.iter().zip(key.iter()).all(|(a, b)| a.cmp_total(b) == Ordering::Equal))
            {
                Some(g) => g.1.push((n, obj)),
                None => groups.push((key, vec![(n, obj)])),
            }
        }
        let effective_keys = grouping
            .iter()
            .filter(|s| match s {
                RSel::Scalar { f, .. } => !(f.ty == Ty::Base64 && self.quirks.has(Quirk::GroupByBase64Ignored)),
                _ => false,
            })
            .count();
        if groups.is_empty() && effective_keys == 0 {
            // an aggregate without GROUP BY returns one row over the empty set
            groups.push((vec![], vec![]));
        }
        let mut rows = vec![];
        for (_, members) in groups {
            let mut obj: Vec<(String, Exp)> = vec![];
            for s in &e.sels {
                match s {
                    RSel::Scalar { out, f } => {
                        if members.is_empty() {
                            // one row over the empty set: the bare column is NULL, the default applies
                            let (j, b) = if f.system { (J::Null, false) } else { self.default_json(f, true) };
                            obj.push((out.clone(), Exp::Val(j, b)));
                            continue;
                        }
                        // any member of the group (they agree on grouping keys; with a quirk that drops
                        // a key the implementation shows an arbitrary member: accept any)
                        let alts: Vec<Exp> = members
                            .iter()
                            .map(|m| m.1.iter().find(|x| &x.0 == out).unwrap().1.clone())
                            .collect();
                        let v = match alts.first() {
                            Some(v) => v.clone(),
                            None => Exp::Val(J::Null, false),
                        };
                        let all_same = alts.iter().all(|a| exp_json(a) == exp_json(&v));
                        if all_same {
                            obj.push((out.clone(), v));
                        } else {
                            obj.push((out.clone(), Exp::AnyOf(alts)));
                        }
                    }
                    RSel::Agg { out, func, f } => {
                        let v = self.agg_value(*func, f.as_ref(), &members);
                        obj.push((out.clone(), Exp::Val(v, false)));
                    }
                    _ => {}
                }
            }
            // having
            let mut ok = true;
            for f in &e.filters {
                if let Target::AggAlias(a) = &f.target {
                    let left = self.output_sql(&obj, a);
                    if !self.compare(&left, f.op, &f.value, SqlVal::from_lit(f.value.lit())) {
                        ok = false;
                    }
                }
            }
            if !ok {
                continue;
            }
            let first = members.first().map(|m| m.0);
            let keys: Vec<SqlVal> = e
                .order
                .iter()
                .map(|o| {
                    // a key on a field the deviation drops from the grouping is read on an arbitrary
                    // member of the group: no order can be required on it
                    let dropped = |f: &FieldRef| {
                        (f.ty == Ty::Base64 && self.quirks.has(Quirk::GroupByBase64Ignored))
                            || (f.system && f.ty != Ty::Base64 && self.quirks.has(Quirk::GroupBySystemIgnored))
                    };
                    let arbitrary = match &o.target {
                        Target::Field(f) => dropped(f),
                        Target::Alias(a) => e.sels.iter().any(|s| matches!(s, RSel::Scalar { out, f } if out == a && dropped(f))),
                        _ => false,
                    };
                    if arbitrary {
                        // determined only when every member of the group agrees
                        let vals: Vec<SqlVal> = members
                            .iter()
                            .map(|m| match &o.target {
                                Target::Field(f) => self.field_sql(m.0, f, true),
                                Target::Alias(a) => self.output_sql(&m.1, a),
                                _ => SqlVal::Null,
                            })
                            .collect();
                        match vals.first() {
                            Some(v) if vals.iter().all(|x| x.cmp_total(v) == Ordering::Equal) => v.clone(),
                            _ => SqlVal::Null,
                        }
                    } else {
                        self.order_key(first, &obj, o)
                    }
                })
                .collect();
            rows.push(ExpRow {
                keys,
                obj: Exp::Obj(obj),
                id: None,
            });
        }
        rows
    }

    fn agg_value(&self, func: Func, f: Option<&FieldRef>, members: &[(&NodeRow, Vec<(String, Exp)>)]) -> J {
        if func == Func::Count {
            return J::from(members.len() as i64);
        }
        let f = f.unwrap();
        let text_mode = self.quirks.has(Quirk::AggJsonText) && !f.system;
        let raw = self.quirks.has(Quirk::AggregateRaw) || text_mode;
        // (sql value, json text)
        let mut vals: Vec<(SqlVal, String)> = vec![];
        for (n, _) in members {
            if f.system {
                vals.push((self.field_sql(n, f, true), String::new()));
                continue;
            }
            let j: Option<J> = if raw {
                self.raw(n, f).cloned()
            } else {
                Some(self.field_json(n, f, false).0)
            };
            match j {
                None => {}
                Some(J::Null) if !text_mode => {}
                Some(j) => vals.push((SqlVal::from_json(&j), serde_json::to_string(&j).unwrap())),
            }
        }
        match func {
            Func::Sum => J::from(0.0 + vals.iter().filter_map(|v| v.0.as_f64()).sum::<f64>()),
            Func::Avg => {
                if vals.is_empty() {
                    J::Null
                } else {
                    let sum: f64 = vals.iter().filter_map(|v| v.0.as_f64()).sum();
                    J::from(sum / vals.len() as f64)
                }
            }
            Func::Max | Func::Min => {
                if vals.is_empty() {
                    return J::Null;
                }
                let mut best = &vals[0];
                for v in &vals[1..] {
                    let o = if text_mode {
                        v.1.as_bytes().cmp(best.1.as_bytes())
                    } else {
                        v.0.cmp_total(&best.0)
                    };
                    let better = if func == Func::Max {
                        o == Ordering::Greater
                    } else {
                        o == Ordering::Less
                    };
                    if better {
                        best = v;
                    }
                }
                match &best.0 {
                    SqlVal::Int(i) => {
                        if f.ty == Ty::Boolean {
                            J::Bool(*i != 0)
                        } else {
                            J::from(*i)
                        }
                    }
                    SqlVal::Real(r) => J::from(*r),
                    SqlVal::Text(t) => J::String(t.clone()),
                    SqlVal::Blob(b) => J::String(b64(b)),
                    SqlVal::Null => J::Null,
                }
            }
            Func::Count => unreachable!(),
        }
    }
}

pub fn exp_json(e: &Exp) -> J {
    match e {
        Exp::Val(j, _) => j.clone(),
        Exp::Obj(fields) => J::Object(fields.iter().map(|(k, v)| (k.clone(), exp_json(v))).collect()),
        Exp::List(l) => {
            let rows: Vec<J> = l
                .rows
                .iter()
                .skip(l.skip)
                .take(if l.first > 0 { l.first } else { usize::MAX })
                .map(|r| exp_json(&r.obj))
                .collect();
            J::Array(rows)
        }
        Exp::Single(l) => l.rows.first().map(|r| exp_json(&r.obj)).unwrap_or(J::Null),
        Exp::AnyOf(a) => a.first().map(exp_json).unwrap_or(J::Null),
    }
}

pub fn cmp_keys(a: &[SqlVal], b: &[SqlVal], desc: &[bool]) -> Ordering {
    for i in 0..a.len().min(b.len()) {
        let mut o = a[i].cmp_total(&b[i]);
        if desc.get(i).copied().unwrap_or(false) {
            o = o.reverse();
        }
        if o != Ordering::Equal {
            return o;
        }
    }
    Ordering::Equal
}
