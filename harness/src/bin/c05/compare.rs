//! Validity predicate: does the real JSON belong to the set of results the direct evaluation allows?
//! (one result when every order_by is total; a set when ties or missing order leave freedom)

use crate::eval::*;
use serde_json::Value as J;
use std::cmp::Ordering;

#[derive(Clone, Debug)]
pub struct Mismatch {
    /// count | order | row | value | keys | type | null
    pub kind: String,
    pub path: String,
    pub detail: String,
}

fn mm(kind: &str, path: &str, detail: String) -> Mismatch {
    Mismatch {
        kind: kind.to_string(),
        path: path.to_string(),
        detail,
    }
}

pub const REL_TOL: f64 = 1e-9;

pub fn json_equal(real: &J, exp: &J, default_bool: bool) -> bool {
    match (real, exp) {
        (J::Number(a), J::Number(b)) => {
            if let (Some(x), Some(y)) = (a.as_i64(), b.as_i64()) {
                return x == y;
            }
            let (x, y) = (a.as_f64().unwrap_or(f64::NAN), b.as_f64().unwrap_or(f64::NAN));
            if x == y {
                return true;
            }
            (x - y).abs() <= REL_TOL * x.abs().max(y.abs())
        }
        (J::Number(a), J::Bool(b)) if default_bool => a.as_i64() == Some(*b as i64),
        (J::Array(a), J::Array(b)) => a.len() == b.len() && a.iter().zip(b.iter()).all(|(x, y)| json_equal(x, y, false)),
        (J::Object(a), J::Object(b)) => {
            a.len() == b.len()
                && a.iter()
                    .all(|(k, v)| b.get(k).map(|w| json_equal(v, w, false)).unwrap_or(false))
        }
        (a, b) => a == b,
    }
}

fn short(j: &J) -> String {
    let s = serde_json::to_string(j).unwrap_or_default();
    if s.chars().count() > 160 {
        format!("{}...", s.chars().take(160).collect::<String>())
    } else {
        s
    }
}

pub fn matches(real: &J, exp: &Exp, path: &str) -> Result<(), Mismatch> {
    match exp {
        Exp::Val(j, default_bool) => {
            if json_equal(real, j, *default_bool) {
                Ok(())
            } else {
                Err(mm("value", path, format!("real {} expected {}", short(real), short(j))))
            }
        }
        Exp::AnyOf(alts) => {
            if alts.iter().any(|a| matches(real, a, path).is_ok()) {
                Ok(())
            } else {
                Err(mm("value", path, format!("real {} matches none of {} alternatives", short(real), alts.len())))
            }
        }
        Exp::Obj(fields) => {
            let o = match real.as_object() {
                Some(o) => o,
                None => return Err(mm("type", path, format!("real {} is not an object", short(real)))),
            };
            if o.len() != fields.len() || fields.iter().any(|(k, _)| !o.contains_key(k)) {
                return Err(mm(
                    "keys",
                    path,
                    format!(
                        "real keys {:?} expected {:?}",
                        o.keys().collect::<Vec<_>>(),
                        fields.iter().map(|f| &f.0).collect::<Vec<_>>()
                    ),
                ));
            }
            for (k, e) in fields {
                matches(&o[k], e, &format!("{}.{}", path, k))?;
            }
            Ok(())
        }
        Exp::Single(list) => {
            if list.rows.is_empty() {
                if real.is_null() {
                    Ok(())
                } else {
                    Err(mm("null", path, format!("real {} expected null", short(real))))
                }
            } else {
                if real.is_null() {
                    return Err(mm("null", path, format!("real null expected {}", short(&exp_json(exp)))));
                }
                let class_end = class_end(&list.rows, 0);
                let mut last = None;
                for r in &list.rows[0..class_end] {
                    match matches(real, &r.obj, path) {
                        Ok(()) => return Ok(()),
                        Err(e) => last = Some(e),
                    }
                }
                if class_end == 1 {
                    Err(last.unwrap())
                } else {
                    Err(mm("row", path, format!("real {} matches none of the {} candidates", short(real), class_end)))
                }
            }
        }
        Exp::List(list) => {
            let arr = match real.as_array() {
                Some(a) => a,
                None => return Err(mm("type", path, format!("real {} is not an array", short(real)))),
            };
            let n = list.displayed();
            if arr.len() != n {
                return Err(mm(
                    "count",
                    path,
                    format!(
                        "real has {} rows, expected {} (of {} matching, skip {}, first {})",
                        arr.len(),
                        n,
                        list.rows.len(),
                        list.skip,
                        list.first
                    ),
                ));
            }
            // classes of equal keys; the position decides the class of every displayed row
            let mut pos = list.skip;
            let end = list.skip + n;
            let mut class_start = 0;
            while class_start < list.rows.len() {
                let ce = class_end(&list.rows, class_start);
                let lo = pos.max(class_start);
                let hi = end.min(ce);
                if lo < hi {
                    let reals = &arr[lo - list.skip..hi - list.skip];
                    let cands = &list.rows[class_start..ce];
                    match_class(reals, cands, &list.rows, path, lo - list.skip)?;
                    pos = hi;
                }
                class_start = ce;
            }
            Ok(())
        }
    }
}

fn class_end(rows: &[ExpRow], start: usize) -> usize {
    let mut e = start + 1;
    while e < rows.len()
        && rows[e]
            .keys
            .iter()
            .zip(rows[start].keys.iter())
            .all(|(a, b)| a.cmp_total(b) == Ordering::Equal)
    {
        e += 1;
    }
    e
}

/// every real row must be matched with a distinct candidate of its class
fn match_class(reals: &[J], cands: &[ExpRow], all: &[ExpRow], path: &str, offset: usize) -> Result<(), Mismatch> {
    if cands.len() == 1 && reals.len() == 1 {
        return matches(&reals[0], &cands[0].obj, &format!("{}[{}]", path, offset)).map_err(|e| {
            // is it a row of another position?
            if all.iter().any(|r| matches(&reals[0], &r.obj, path).is_ok()) {
                mm("order", &format!("{}[{}]", path, offset), format!("row {} is not expected at this position; {}", short(&reals[0]), e.detail))
            } else {
                e
            }
        });
    }
    let adj: Vec<Vec<usize>> = reals
        .iter()
        .map(|r| {
            (0..cands.len())
                .filter(|c| matches(r, &cands[*c].obj, path).is_ok())
                .collect()
        })
        .collect();
    for (i, a) in adj.iter().enumerate() {
        if a.is_empty() {
            let p = format!("{}[{}]", path, offset + i);
            if all.iter().any(|r| matches(&reals[i], &r.obj, path).is_ok()) {
                return Err(mm("order", &p, format!("row {} is not expected at this position", short(&reals[i]))));
            }
            return Err(mm("row", &p, format!("row {} is not among the {} rows allowed here", short(&reals[i]), cands.len())));
        }
    }
    let mut owner: Vec<Option<usize>> = vec![None; cands.len()];
    fn try_assign(i: usize, adj: &[Vec<usize>], owner: &mut Vec<Option<usize>>, seen: &mut Vec<bool>) -> bool {
        for &c in &adj[i] {
            if seen[c] {
                continue;
            }
            seen[c] = true;
            if owner[c].is_none() || try_assign(owner[c].unwrap(), adj, owner, seen) {
                owner[c] = Some(i);
                return true;
            }
        }
        false
    }
    for i in 0..reals.len() {
        let mut seen = vec![false; cands.len()];
        if !try_assign(i, &adj, &mut owner, &mut seen) {
            return Err(mm(
                "row",
                &format!("{}[{}]", path, offset + i),
                format!("row {} appears more often than allowed", short(&reals[i])),
            ));
        }
    }
    Ok(())
}
