//! Resolution of a `ModelSpec` into model texts (two versions) and the metadata used by the
//! generator and by the reference evaluator.

use crate::case::*;
use dv::engine::pick;
use serde_json::Value as J;

/// literal value of the languages (model defaults, mutation values, filter values)
#[derive(Clone, Debug, PartialEq)]
pub enum Lit {
    Null,
    Bool(bool),
    Int(i64),
    Float(f64),
    Str(String),
}

impl Lit {
    /// text of the literal in the model / mutation / query languages
    pub fn text(&self) -> String {
        match self {
            Lit::Null => "null".to_string(),
            Lit::Bool(b) => b.to_string(),
            Lit::Int(i) => i.to_string(),
            Lit::Float(f) => format!("{:?}", f),
            Lit::Str(s) => format!("\"{}\"", s.replace('"', "\\\"")),
        }
    }
    pub fn json(&self) -> J {
        match self {
            Lit::Null => J::Null,
            Lit::Bool(b) => J::Bool(*b),
            Lit::Int(i) => J::from(*i),
            Lit::Float(f) => J::from(*f),
            Lit::Str(s) => J::String(s.clone()),
        }
    }
}

pub fn pool(ty: Ty) -> Vec<Lit> {
    match ty {
        Ty::Integer => [0i64, 1, 2, 3, -1, 10, 9, -10, 100, 9007199254740993]
            .iter()
            .map(|i| Lit::Int(*i))
            .collect(),
        Ty::Float => [0.0f64, 1.0, 2.5, -1.5, 10.0, 9.5, 100.0, 23.0, 0.1, -10.0]
            .iter()
            .map(|f| Lit::Float(*f))
            .collect(),
        Ty::Boolean => vec![Lit::Bool(false), Lit::Bool(true)],
        Ty::String => ["", "a", "b", "ab", "B", "a b", "10", "9", "é", "z"]
            .iter()
            .map(|s| Lit::Str(s.to_string()))
            .collect(),
        Ty::Base64 => ["", "AA", "AQ", "AQID", "_w", "-A"]
            .iter()
            .map(|s| Lit::Str(s.to_string()))
            .collect(),
        Ty::Json => [
            r#"{"a":1,"b":{"c":[1,2,{"d":"x"}]},"t":"s"}"#,
            r#"[1,2,3]"#,
            r#"{"a":"s","t":"u"}"#,
            r#"[]"#,
            r#"{"a":null,"b":{"c":[]}}"#,
            r#"{"a":2.5,"b":{"c":[7]}}"#,
            r#"[{"a":1},"x"]"#,
        ]
        .iter()
        .map(|s| Lit::Str(s.to_string()))
        .collect(),
    }
}

/// monotone index for u8 choices
pub fn pick8(i: u8, len: usize) -> usize {
    if len == 0 {
        0
    } else {
        ((i as usize) * len) >> 8
    }
}

#[derive(Clone, Debug)]
pub struct ScalarField {
    pub name: String,
    pub ty: Ty,
    pub nullable: bool,
    pub default: Option<Lit>,
    pub late: Late,
    /// filled from the real DataModel after parsing
    pub short: String,
}

#[derive(Clone, Debug)]
pub struct RefField {
    pub name: String,
    pub target: usize,
    pub array: bool,
    pub nullable: bool,
    pub late: bool,
    pub short: String,
}

#[derive(Clone, Debug)]
pub struct Entity {
    pub ns: String,
    /// qualified name ("na.E1" or "E0")
    pub name: String,
    pub scalars: Vec<ScalarField>,
    pub refs: Vec<RefField>,
    pub short: String,
    /// sys.Peer / sys.Room: only reachable through the virtual references
    pub system: bool,
}

#[derive(Clone, Debug)]
pub struct Schema {
    /// user entities followed by sys.Peer and sys.Room
    pub entities: Vec<Entity>,
    pub user_entities: usize,
    pub v1: String,
    pub v2: String,
    pub evolves: bool,
}

pub const REF_NAMES: [&str; 4] = ["ra", "rb", "rc", "rd"];
pub const SYSTEM_SCALARS: [(&str, Ty); 5] = [
    ("id", Ty::Base64),
    ("cdate", Ty::Integer),
    ("mdate", Ty::Integer),
    ("room_id", Ty::Base64),
    ("verifying_key", Ty::Base64),
];

impl Schema {
    pub fn resolve(spec: &ModelSpec) -> Schema {
        let n = spec.entities.len();
        let mut entities = vec![];
        for (i, e) in spec.entities.iter().enumerate() {
            let ns = match e.ns {
                0 => "",
                1 => "na",
                _ => "nb",
            };
            let local = format!("E{}", i);
            let name = if ns.is_empty() {
                local.clone()
            } else {
                format!("{}.{}", ns, local)
            };
            let mut late_used = false;
            let mut scalars = vec![];
            for (j, s) in e.scalars.iter().enumerate() {
                let p = pool(s.ty);
                let (mut nullable, mut default) = match s.mode {
                    Mode::Required => (false, None),
                    Mode::Nullable => (true, None),
                    Mode::Default(d) => (false, Some(p[pick8(d.wrapping_mul(32), p.len())].clone())),
                };
                let mut late = s.late;
                // at most one evolving field per entity: the short names of several new fields
                // depend on HashMap iteration order (C15), which would make replays unstable
                if late != Late::No && late_used {
                    late = Late::No;
                }
                match late {
                    Late::Added => {
                        // a new field must be nullable or have a default
                        if !nullable && default.is_none() {
                            default = Some(p[0].clone());
                        }
                    }
                    Late::NullableThenDefault => {
                        if default.is_none() {
                            late = Late::No;
                        }
                        nullable = false;
                    }
                    Late::No => {}
                }
                if late != Late::No {
                    late_used = true;
                }
                scalars.push(ScalarField {
                    name: format!("s{}", j),
                    ty: s.ty,
                    nullable,
                    default,
                    late,
                    short: String::new(),
                });
            }
            let mut refs: Vec<RefField> = vec![];
            for r in e.refs.iter() {
                let mut k = r.name as usize % REF_NAMES.len();
                while refs.iter().any(|x| x.name == REF_NAMES[k]) {
                    k = (k + 1) % REF_NAMES.len();
                }
                let mut late = r.late;
                if late && late_used {
                    late = false;
                }
                if late {
                    late_used = true;
                }
                refs.push(RefField {
                    name: REF_NAMES[k].to_string(),
                    target: pick(r.target, n),
                    array: r.array,
                    nullable: r.nullable,
                    late,
                    short: String::new(),
                });
            }
            // the first model version needs at least one field per entity
            if !scalars.iter().any(|f| f.late != Late::Added) && !refs.iter().any(|r| !r.late) {
                for f in scalars.iter_mut() {
                    f.late = Late::No;
                }
            }
            entities.push(Entity {
                ns: ns.to_string(),
                name,
                scalars,
                refs,
                short: String::new(),
                system: false,
            });
        }
        let mut entities = entities;
        let evolves = entities
            .iter()
            .any(|e| e.scalars.iter().any(|s| s.late != Late::No) || e.refs.iter().any(|r| r.late));
        let user_entities = entities.len();
        entities.push(Entity {
            ns: "sys".into(),
            name: "sys.Peer".into(),
            scalars: vec![
                ScalarField {
                    name: "pub_key".into(),
                    ty: Ty::Base64,
                    nullable: false,
                    default: None,
                    late: Late::No,
                    short: String::new(),
                },
                ScalarField {
                    name: "name".into(),
                    ty: Ty::String,
                    nullable: false,
                    default: Some(Lit::Str("anonymous".into())),
                    late: Late::No,
                    short: String::new(),
                },
            ],
            refs: vec![],
            short: String::new(),
            system: true,
        });
        entities.push(Entity {
            ns: "sys".into(),
            name: "sys.Room".into(),
            scalars: vec![],
            refs: vec![],
            short: String::new(),
            system: true,
        });
        let mut s = Schema {
            entities,
            user_entities,
            v1: String::new(),
            v2: String::new(),
            evolves,
        };
        s.v1 = s.text(false);
        s.v2 = s.text(true);
        s
    }

    fn scalar_decl(f: &ScalarField, second: bool) -> String {
        let ty = match f.ty {
            Ty::Integer => "Integer",
            Ty::Float => "Float",
            Ty::Boolean => "Boolean",
            Ty::String => "String",
            Ty::Base64 => "Base64",
            Ty::Json => "Json",
        };
        let nullable_now = f.nullable || (f.late == Late::NullableThenDefault && !second);
        if nullable_now {
            format!("{} : {} nullable", f.name, ty)
        } else if let Some(d) = &f.default {
            format!("{} : {} default {}", f.name, ty, d.text())
        } else {
            format!("{} : {}", f.name, ty)
        }
    }

    /// the fields of an entity in declaration order for a model version
    /// (late fields come last, so that the positions of the first version are kept)
    fn text(&self, second: bool) -> String {
        let mut out = String::new();
        for ns in ["", "na", "nb"] {
            let ents: Vec<&Entity> = self.entities.iter().filter(|e| e.ns == ns && !e.system).collect();
            if ents.is_empty() {
                continue;
            }
            out.push_str(&format!("{} {{\n", ns));
            for e in ents {
                let local = e.name.rsplit('.').next().unwrap();
                out.push_str(&format!("  {} {{\n", local));
                let mut decls = vec![];
                for f in e.scalars.iter().filter(|f| f.late != Late::Added) {
                    decls.push(Self::scalar_decl(f, second));
                }
                for r in e.refs.iter().filter(|r| !r.late) {
                    decls.push(self.ref_decl(r));
                }
                if second {
                    for f in e.scalars.iter().filter(|f| f.late == Late::Added) {
                        decls.push(Self::scalar_decl(f, second));
                    }
                    for r in e.refs.iter().filter(|r| r.late) {
                        decls.push(self.ref_decl(r));
                    }
                }
                out.push_str(&format!("    {}\n", decls.join(",\n    ")));
                out.push_str("  }\n");
            }
            out.push_str("}\n");
        }
        out
    }

    fn ref_decl(&self, r: &RefField) -> String {
        let t = &self.entities[r.target].name;
        let n = if r.nullable { " nullable" } else { "" };
        if r.array {
            format!("{} : [{}]{}", r.name, t, n)
        } else {
            format!("{} : {}{}", r.name, t, n)
        }
    }

    pub fn entity_by_short(&self, short: &str) -> Option<usize> {
        self.entities.iter().position(|e| e.short == short)
    }
}
