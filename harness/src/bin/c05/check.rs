//! One generated case: build the world, run the real query, decide it against the reference
//! evaluator, classify disagreements, run the paging walk.

use crate::ast::*;
use crate::case::*;
use crate::compare::*;
use crate::data::*;
use crate::eval::*;
use crate::resolve::*;
use crate::schema::*;
use discret::verif::database::query_language::ParamValue;
use dv::engine::{pick, Outcome};
use serde_json::Value as J;
use std::collections::BTreeMap;

pub fn lit_param(l: &Lit) -> ParamValue {
    match l {
        Lit::Null => ParamValue::Null,
        Lit::Bool(b) => ParamValue::Boolean(*b),
        Lit::Int(i) => ParamValue::Integer(*i),
        Lit::Float(f) => ParamValue::Float(*f),
        Lit::Str(s) => ParamValue::String(s.clone()),
    }
}

pub fn bind(q: &RQuery) -> BTreeMap<String, ParamValue> {
    q.vars().into_iter().map(|(n, l, _)| (n, lit_param(&l))).collect()
}

fn system_aliases(e: &REnt, out: &mut Vec<String>) {
    for s in &e.sels {
        match s {
            RSel::Scalar { out: o, f } if f.system && *o != f.name => out.push(o.to_lowercase()),
            RSel::Sub(sub) => {
                if matches!(sub.link, Link::SysPeer | Link::SysRoom) && sub.alias.is_some() {
                    out.push(sub.out.to_lowercase());
                }
                system_aliases(sub, out);
            }
            _ => {}
        }
    }
}

fn mixes_json_filters(e: &REnt) -> bool {
    let json = e.filters.iter().any(|f| matches!(f.target, Target::Json(..)));
    let plain = e
        .filters
        .iter()
        .any(|f| !matches!(f.target, Target::Json(..) | Target::AggAlias(_)));
    (json && plain)
        || e.sels.iter().any(|s| match s {
            RSel::Sub(sub) => mixes_json_filters(sub),
            _ => false,
        })
}

fn selects_json_default(e: &REnt) -> bool {
    e.sels.iter().any(|s| match s {
        RSel::Json { f, .. } => f.default.is_some(),
        RSel::Sub(sub) => selects_json_default(sub),
        _ => false,
    })
}

fn sql_error_class(msg: &str, rq: &RQuery) -> String {
    let m = msg.to_lowercase();
    if rq.roots.iter().any(selects_json_default) && m.contains("syntax error") {
        let head: String = m.chars().take(40).collect();
        if head.contains("near \"as\"") || head.contains("near \",\"") || head.contains("near \"from\"") {
            return "json-default-select".into();
        }
    }
    if rq.roots.iter().any(mixes_json_filters) {
        let head: String = m.chars().take(60).collect();
        if head.contains("and\"")
            || head.contains("near \"_json\": syntax error")
            || (head.contains("no such column") && head.contains("and in select"))
        {
            return "json-filter-glued-to-previous-filter".into();
        }
    }
    if let Some(i) = m.find("no such column: ") {
        let col: String = m[i + 16..]
            .chars()
            .take_while(|c| c.is_alphanumeric() || *c == '_')
            .collect();
        let mut aliases = vec![];
        for r in &rq.roots {
            system_aliases(r, &mut aliases);
        }
        if aliases.contains(&col) {
            return "alias-of-system-field-used-as-column".into();
        }
    }
    if let Some(i) = m.find("ambiguous column name: ") {
        let col: String = m[i + 23..]
            .chars()
            .take_while(|c| c.is_alphanumeric() || *c == '_')
            .collect();
        return format!("ambiguous-column-{}", col);
    }
    if m.contains("misuse of aggregate") {
        return "misuse-of-aggregate".into();
    }
    if m.contains("no such column") {
        return "no-such-column".into();
    }
    if m.contains("near \"offset\": syntax error") {
        return "skip-without-first".into();
    }
    if m.contains("syntax error") {
        return "syntax".into();
    }
    if m.contains("json cannot hold blob") {
        return "json-blob".into();
    }
    let s: String = m
        .chars()
        .map(|c| if c.is_ascii_alphanumeric() { c } else { '-' })
        .take(40)
        .collect();
    s
}

fn parse_error_class(msg: &str) -> String {
    let s: String = msg
        .chars()
        .map(|c| if c.is_ascii_alphabetic() { c } else { ' ' })
        .collect::<String>()
        .split_whitespace()
        .take(6)
        .collect::<Vec<_>>()
        .join("-");
    s
}

/// smallest set of deviations under which `ok` holds: the empty set, single deviations, pairs,
/// then all of them together reduced greedily (1-minimal)
pub fn explain(ok: &mut dyn FnMut(&[Quirk]) -> bool) -> Option<Vec<Quirk>> {
    if ok(&[]) {
        return Some(vec![]);
    }
    for q in ALL_QUIRKS.iter() {
        if ok(&[*q]) {
            return Some(vec![*q]);
        }
    }
    for (i, a) in ALL_QUIRKS.iter().enumerate() {
        for b in ALL_QUIRKS.iter().skip(i + 1) {
            if ok(&[*a, *b]) {
                return Some(vec![*a, *b]);
            }
        }
    }
    // all deviations at once (with and without the tolerated ordering reading), then drop what is not needed
    for start in [ALL_QUIRKS.to_vec(), ALL_QUIRKS.iter().copied().filter(|q| *q != Quirk::OrderRaw).collect()] {
        if ok(&start) {
            let mut set = start;
            let mut i = 0;
            while i < set.len() {
                let mut t = set.clone();
                t.remove(i);
                if ok(&t) {
                    set = t;
                } else {
                    i += 1;
                }
            }
            return Some(set);
        }
    }
    None
}

fn features(e: &REnt, depth: usize, o: &mut Outcome) {
    o.label(format!("f:depth{}", depth));
    if e.alias.is_some() {
        o.label("f:alias");
    }
    for f in &e.filters {
        match &f.target {
            Target::Field(fr) => {
                o.label(if fr.system { "f:filter-system" } else { "f:filter-field" });
                if fr.default.is_some() {
                    o.label("f:filter-defaulted-field");
                }
            }
            Target::Alias(_) => o.label("f:filter-alias"),
            Target::AggAlias(_) => o.label("f:having"),
            Target::RefField { .. } | Target::RefAlias { .. } => o.label("f:filter-entity"),
            Target::Json(..) => o.label("f:filter-json"),
        }
        if *f.value.lit() == Lit::Null {
            o.label("f:filter-null");
        }
        if f.value.is_var() {
            o.label("f:variable");
        }
        o.label(format!("f:op{}", f.op.text()));
    }
    if !e.order.is_empty() {
        o.label(format!("f:order{}", e.order.len().min(4)));
    }
    if e.first > 0 {
        o.label("f:first");
    }
    if e.skip > 0 {
        o.label("f:skip");
    }
    if let Some(p) = &e.paging {
        o.label(if p.before { "f:before" } else { "f:after" });
        o.label(format!("f:paging-keys{}", p.values.len()));
    }
    if !e.nullable.is_empty() {
        o.label("f:nullable()");
    }
    if e.is_aggregate() {
        o.label("f:aggregate");
        if e.sels.iter().any(|s| matches!(s, RSel::Scalar { .. })) {
            o.label("f:group-by");
        }
    }
    match e.link {
        Link::SysPeer => o.label("f:sys_peer"),
        Link::SysRoom => o.label("f:sys_room"),
        Link::Edge { unique, .. } => o.label(if unique { "f:ref-single" } else { "f:ref-array" }),
        Link::Root => {}
    }
    for s in &e.sels {
        match s {
            RSel::Json { sel, .. } => o.label(if sel.is_some() { "f:json-selector" } else { "f:json-field" }),
            RSel::Agg { func, .. } => o.label(format!("f:{}", func.name())),
            RSel::Sub(sub) => features(sub, depth + 1, o),
            RSel::Scalar { f, .. } => {
                if f.system {
                    o.label("f:select-system");
                }
            }
        }
    }
}

fn exp_features(e: &Exp, o: &mut Outcome) {
    match e {
        Exp::Obj(fields) => {
            for (_, v) in fields {
                exp_features(v, o);
            }
        }
        Exp::List(l) | Exp::Single(l) => {
            if l.rows.len() > 1 {
                let mut ties = false;
                let mut nulls = false;
                for w in l.rows.windows(2) {
                    if !w[0].keys.is_empty()
                        && w[0]
                            .keys
                            .iter()
                            .zip(w[1].keys.iter())
                            .all(|(a, b)| a.cmp_total(b) == std::cmp::Ordering::Equal)
                    {
                        ties = true;
                    }
                }
                for r in &l.rows {
                    if r.keys.iter().any(|k| k.is_null()) {
                        nulls = true;
                    }
                }
                if ties {
                    o.label("d:order-ties");
                }
                if nulls {
                    o.label("d:null-order-keys");
                }
            }
            for r in &l.rows {
                exp_features(&r.obj, o);
            }
        }
        _ => {}
    }
}

pub fn run_gen(case: &GenCase, replay: bool) -> Outcome {
    let trace = std::env::var("DV_TRACE").is_ok();
    let mut o = Outcome::default();
    dv::world::begin_case(1);
    let schema = Schema::resolve(&case.model);
    let mut w = match World::new(schema, trace) {
        Ok(w) => w,
        Err(e) => {
            // the model family only contains valid models: a refusal is a defect of the generator
            o.violation("harness:model-refused", e);
            return o;
        }
    };
    let split = pick(case.evolve_at, case.ops.len() + 1);
    for (i, op) in case.ops.iter().enumerate() {
        if i == split {
            if let Err(e) = w.evolve() {
                o.violation("harness:model-evolution-refused", e);
                return o;
            }
        }
        w.apply(op);
    }
    if let Err(e) = w.evolve() {
        o.violation("harness:model-evolution-refused", e);
        return o;
    }
    w.store = Store::read(&w.conn);
    for (k, v) in &w.op_errors {
        o.count(&format!("op-error:{}", k), *v);
    }
    if w.schema.evolves {
        o.label("d:model-evolved");
    }
    o.count("rows", w.store.nodes.len() as u64);
    o.count("edges", w.store.edges.len() as u64);

    let mut resolver = Resolver::new(&w.schema, &w.store, case.wild);
    let rq = resolver.resolve(&case.query);
    for (k, v) in &resolver.excluded {
        o.count(&format!("excluded:{}", k), *v);
    }
    o.label(if case.wild { "mode:wild" } else { "mode:plain" });
    for r in &rq.roots {
        features(r, 1, &mut o);
    }
    let text = rq.text();
    let params = bind(&rq);
    if trace {
        println!("-- model v1\n{}\n-- model v2\n{}", w.schema.v1, w.schema.v2);
        println!("-- query\n{}\n-- params {:?}", text, params);
    }
    let ev = Evaluator {
        schema: &w.schema,
        store: &w.store,
        quirks: Quirks::default(),
    };
    let expected = ev.eval_query(&rq);
    exp_features(&expected, &mut o);
    // non trivial: some root shows rows and (orders / nests / aggregates, or really filters)
    for r in &rq.roots {
        { let l = ev.eval_ent(r, None);
            let table = w.store.of_entity(&r.ent_short).len();
            let structured = !r.order.is_empty()
                || r.sels.iter().any(|s| matches!(s, RSel::Sub(_) | RSel::Agg { .. }));
            let filtered = (!r.filters.is_empty() || r.paging.is_some()) && l.rows.len() < table;
            if l.displayed() > 0 && (structured || filtered) {
                o.nontrivial = true;
            }
            if l.displayed() == 0 {
                o.label("d:empty-root");
            }
            o.label(match l.displayed() {
                0 => "d:rows-0",
                1 => "d:rows-1",
                2..=4 => "d:rows-2-4",
                _ => "d:rows-5+",
            });
            if table == 0 {
                o.label("d:empty-table");
            } else if l.displayed() == 0 {
                // why is it empty?
                let mut probe = r.clone();
                probe.skip = 0;
                let a = ev.eval_ent(&probe, None);
                probe.paging = None;
                let b = ev.eval_ent(&probe, None);
                probe.filters.clear();
                let c = ev.eval_ent(&probe, None);
                o.label(if a.rows.len() > 0 {
                    "d:empty-by-skip"
                } else if b.rows.len() > 0 {
                    "d:empty-by-paging"
                } else if c.rows.len() > 0 {
                    "d:empty-by-filters"
                } else {
                    "d:empty-by-required-reference"
                });
            }
        }
    }

    let mut main_failed = false;
    let mut main_set: Vec<Quirk> = vec![];
    match w.query(&text, &params) {
        Err(QueryError::Parse(msg)) => {
            o.label("parser-refused");
            o.discard = Some(format!("parser-refused:{}", parse_error_class(&msg)));
            if replay || trace {
                println!("parser refused: {}\n{}", msg, text);
            }
            o.nontrivial = false;
            return o;
        }
        Err(QueryError::Params(msg)) => {
            // the generator binds every variable with a value of the field's type
            o.violation("harness:parameters-refused", format!("{} | {}", msg, one_line(&text)));
            return o;
        }
        Err(QueryError::Run(msg)) => {
            main_failed = true;
            o.label("sql-error");
            o.violation(
                format!("sql-error:{}", sql_error_class(&msg, &rq)),
                format!("the query fails instead of returning rows: {} | query: {}", msg, one_line(&text)),
            );
        }
        Ok(s) => {
            let real: J = match serde_json::from_str(&s) {
                Ok(j) => j,
                Err(e) => {
                    o.violation("result-not-json", format!("{}: {}", e, s));
                    return o;
                }
            };
            if trace {
                println!("-- real     {}", serde_json::to_string(&real).unwrap());
                println!("-- expected {}", serde_json::to_string(&exp_json(&expected)).unwrap());
            }
            if let Err(m) = matches(&real, &expected, "$") {
                main_set = classify(&w, &rq, &real, &m, &text, &mut o);
            }
        }
    }

    if let (Some(ws), false) = (&case.walk, main_failed) {
        crate::walk::walk(&w, &rq, ws, case.wild, &main_set, &mut o, trace);
    }
    o
}

pub fn one_line(s: &str) -> String {
    s.split_whitespace().collect::<Vec<_>>().join(" ")
}

fn classify(w: &World, rq: &RQuery, real: &J, m: &Mismatch, text: &str, o: &mut Outcome) -> Vec<Quirk> {
    let found = explain(&mut |set: &[Quirk]| {
        let ev = Evaluator {
            schema: &w.schema,
            store: &w.store,
            quirks: Quirks(set.to_vec()),
        };
        matches(real, &ev.eval_query(rq), "$").is_ok()
    });
    // the roots of a query are independent statements: when no small combination explains the whole
    // result, explain every root on its own and take the union
    let found = match found {
        Some(set) => Some(set),
        None => {
            let mut union: Vec<Quirk> = vec![];
            let mut all = real.as_object().is_some();
            if all {
                for r in &rq.roots {
                    let real_r = match real.get(&r.out) {
                        Some(x) => x,
                        None => {
                            all = false;
                            break;
                        }
                    };
                    let one = explain(&mut |set: &[Quirk]| {
                        let ev = Evaluator {
                            schema: &w.schema,
                            store: &w.store,
                            quirks: Quirks(set.to_vec()),
                        };
                        matches(real_r, &Exp::List(ev.eval_ent(r, None)), &format!("$.{}", r.out)).is_ok()
                    });
                    match one {
                        Some(set) => {
                            for q in set {
                                if !union.contains(&q) {
                                    union.push(q);
                                }
                            }
                        }
                        None => {
                            all = false;
                            break;
                        }
                    }
                }
            }
            if all {
                Some(union)
            } else {
                None
            }
        }
    };
    match found {
        Some(set) => {
            for q in &set {
                if *q == Quirk::OrderRaw {
                    // DESIGN: ordering by a field name sorts the stored value; rows lacking the field
                    // sort as NULL although the default is displayed. Tolerated reading, counted.
                    o.label("tolerated:order-by-ignores-default");
                    continue;
                }
                o.label(format!("finding:{}", q.signature()));
                o.violation(
                    format!("mismatch:{}", q.signature()),
                    format!(
                        "real result equals the direct evaluation only under deviation {:?}; at {} ({}): {} | query: {}",
                        set,
                        m.path,
                        m.kind,
                        m.detail,
                        one_line(text)
                    ),
                );
            }
            set
        }
        None => {
            o.label("unexplained");
            o.violation(
                format!("unexplained:{}", m.kind),
                format!("at {}: {} | query: {}", m.path, m.detail, one_line(text)),
            );
            vec![]
        }
    }
}

/// readable regression case: the expected result is stated in the case
pub fn run_text(t: &TextCase) -> Outcome {
    use discret::verif::database::mutation_query::MutationQuery;
    use discret::verif::database::query_language::data_model_parser::DataModel;
    use discret::verif::database::query_language::mutation_parser::MutationParser;
    use discret::verif::database::query_language::parameter::Parameters;
    use discret::verif::database::sqlite_database::{prepare_connection, Writeable};
    use std::sync::Arc;
    let mut o = Outcome::default();
    o.label("text-case");
    o.nontrivial = true;
    dv::world::begin_case(1);
    let conn = rusqlite::Connection::open_in_memory().unwrap();
    prepare_connection(&conn).unwrap();
    let mut model = DataModel::new();
    if let Err(e) = model.update(&t.models[0]) {
        o.violation("harness:text-case-model", e.to_string());
        return o;
    }
    let mut prev: Option<String> = None;
    for phase in 0..2 {
        let list = if phase == 0 { &t.mutations } else { &t.mutations_after };
        for m in list {
            dv::world::Clock::advance(1);
            let parsed = match MutationParser::parse(m, &model) {
                Ok(p) => p,
                Err(e) => {
                    o.violation("harness:text-case-mutation", format!("{}: {}", e, m));
                    return o;
                }
            };
            let mut params = Parameters::new();
            if m.contains("$prev") {
                params
                    .params
                    .insert("prev".into(), ParamValue::String(prev.clone().unwrap_or_default()));
            }
            let mut mq = match MutationQuery::execute(&mut params, Arc::new(parsed), &conn) {
                Ok(q) => q,
                Err(e) => {
                    o.violation("harness:text-case-mutation", format!("{}: {}", e, m));
                    return o;
                }
            };
            mq.write(&conn).unwrap();
            prev = mq.mutate_entities.first().map(|e| b64(&e.node_to_mutate.id));
        }
        if phase == 0 {
            for m in &t.models[1..] {
                if let Err(e) = model.update(m) {
                    o.violation("harness:text-case-model", e.to_string());
                    return o;
                }
            }
        }
    }
    let mut params: BTreeMap<String, ParamValue> = BTreeMap::new();
    for (k, v) in &t.params {
        let pv = match v {
            J::Null => ParamValue::Null,
            J::Bool(b) => ParamValue::Boolean(*b),
            J::Number(n) => match n.as_i64() {
                Some(i) => ParamValue::Integer(i),
                None => ParamValue::Float(n.as_f64().unwrap_or(0.0)),
            },
            J::String(s) => ParamValue::String(s.clone()),
            other => ParamValue::String(other.to_string()),
        };
        params.insert(k.clone(), pv);
    }
    let schema = Schema {
        entities: vec![],
        user_entities: 0,
        v1: String::new(),
        v2: String::new(),
        evolves: false,
    };
    let w = World {
        conn,
        model,
        schema,
        store: Store::default(),
        keys: vec![],
        rooms: vec![],
        second: true,
        op_errors: BTreeMap::new(),
        trace: std::env::var("DV_TRACE").is_ok(),
    };
    if !t.walk_keys.is_empty() {
        // paging walk over the text query
        let root = t.expected.as_object().and_then(|o| o.keys().next().cloned()).unwrap_or_default();
        let mut seen: Vec<J> = vec![];
        let mut paging = String::new();
        let mut p = params.clone();
        let mut stop = "completed".to_string();
        for _ in 0..50 {
            let text = t.query.replace("%PAGING%", &paging);
            let rows = match w.query(&text, &p) {
                Ok(s) => serde_json::from_str::<J>(&s)
                    .ok()
                    .and_then(|j| j.get(&root).and_then(|a| a.as_array().cloned()))
                    .unwrap_or_default(),
                Err(e) => {
                    stop = format!("query failed: {:?}", e);
                    break;
                }
            };
            if rows.is_empty() {
                break;
            }
            seen.extend(rows.iter().cloned());
            if seen.len() > 200 {
                stop = "does not terminate".into();
                break;
            }
            let last = rows.last().unwrap();
            let mut names = vec![];
            let mut null_key = false;
            for (i, k) in t.walk_keys.iter().enumerate() {
                let v = last.get(k).cloned().unwrap_or(J::Null);
                let name = format!("k{}", i);
                let pv = match &v {
                    J::Null => {
                        null_key = true;
                        ParamValue::Null
                    }
                    J::Bool(b) => ParamValue::Boolean(*b),
                    J::Number(n) => match n.as_i64() {
                        Some(i) => ParamValue::Integer(i),
                        None => ParamValue::Float(n.as_f64().unwrap_or(0.0)),
                    },
                    J::String(s) => ParamValue::String(s.clone()),
                    other => ParamValue::String(other.to_string()),
                };
                p.insert(name.clone(), pv);
                names.push(format!("${}", name));
            }
            if null_key {
                stop = "the last row of the page has a NULL key: after() cannot express the position".into();
                break;
            }
            paging = format!(", after({})", names.join(", "));
        }
        let real = serde_json::json!({ root.clone(): seen });
        if !json_equal(&real, &t.expected, true) {
            o.violation(
                t.signature.clone(),
                format!(
                    "paging walk ({}): visited {} expected {} | query: {}",
                    stop,
                    serde_json::to_string(&real).unwrap(),
                    serde_json::to_string(&t.expected).unwrap(),
                    one_line(&t.query)
                ),
            );
        }
        return o;
    }
    match w.query(&t.query, &params) {
        Ok(s) => {
            let real: J = serde_json::from_str(&s).unwrap_or(J::Null);
            if !json_equal(&real, &t.expected, true) {
                o.violation(
                    t.signature.clone(),
                    format!(
                        "real {} expected {} | query: {}",
                        serde_json::to_string(&real).unwrap(),
                        serde_json::to_string(&t.expected).unwrap(),
                        one_line(&t.query)
                    ),
                );
            }
        }
        Err(QueryError::Parse(m)) | Err(QueryError::Params(m)) => {
            o.violation("harness:text-case-query-refused", format!("{} | {}", m, one_line(&t.query)));
        }
        Err(QueryError::Run(m)) => {
            let head: String = m.chars().take(200).collect();
            o.violation(
                t.signature.clone(),
                format!(
                    "the query fails: {} | expected {} | query: {}",
                    one_line(&head),
                    serde_json::to_string(&t.expected).unwrap(),
                    one_line(&t.query)
                ),
            );
        }
    }
    o
}
