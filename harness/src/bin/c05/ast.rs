//! Resolved query: what the generator meant, independent of the parser under test.
//! The text sent to the real parser is rendered from this structure (`render`), and the
//! reference evaluator interprets this structure.

use crate::case::Ty;
use crate::schema::Lit;

#[derive(Clone, Debug, PartialEq)]
pub struct FieldRef {
    pub name: String,
    pub short: String,
    pub ty: Ty,
    pub default: Option<Lit>,
    pub nullable: bool,
    pub system: bool,
}

#[derive(Clone, Copy, Debug, PartialEq, Eq)]
pub enum Op {
    Eq,
    Ne,
    Lt,
    Le,
    Gt,
    Ge,
}
impl Op {
    pub fn text(&self) -> &'static str {
        match self {
            Op::Eq => "=",
            Op::Ne => "!=",
            Op::Lt => "<",
            Op::Le => "<=",
            Op::Gt => ">",
            Op::Ge => ">=",
        }
    }
    pub fn all() -> [Op; 6] {
        [Op::Eq, Op::Ne, Op::Lt, Op::Le, Op::Gt, Op::Ge]
    }
}

#[derive(Clone, Debug, PartialEq)]
pub enum PathSeg {
    Key(String),
    Idx(usize),
}

/// json selector: `field->$.a.b[1]` (Object) or `field->2` (Array index)
#[derive(Clone, Debug, PartialEq)]
pub enum Selector {
    Object(Vec<PathSeg>),
    Array(usize),
}
impl Selector {
    pub fn text(&self) -> String {
        match self {
            Selector::Array(i) => i.to_string(),
            Selector::Object(p) => {
                let mut s = "$".to_string();
                for seg in p {
                    match seg {
                        PathSeg::Key(k) => {
                            s.push('.');
                            s.push_str(k);
                        }
                        PathSeg::Idx(i) => s.push_str(&format!("[{}]", i)),
                    }
                }
                s
            }
        }
    }
}

#[derive(Clone, Copy, Debug, PartialEq, Eq)]
pub enum Func {
    Avg,
    Count,
    Max,
    Min,
    Sum,
}
impl Func {
    pub fn name(&self) -> &'static str {
        match self {
            Func::Avg => "avg",
            Func::Count => "count",
            Func::Max => "max",
            Func::Min => "min",
            Func::Sum => "sum",
        }
    }
}

/// what a name used in a filter / order_by refers to
#[derive(Clone, Debug, PartialEq)]
pub enum Target {
    /// a scalar field of the entity by its model name (selected or not)
    Field(FieldRef),
    /// the output name (alias) of a selected scalar / json selection
    Alias(String),
    /// the output name (alias) of an aggregate function
    AggAlias(String),
    /// a reference field by its model name; `array` from the model
    RefField { name: String, short: String, array: bool },
    /// the alias of a selected sub entity
    RefAlias { out: String, array: bool },
    /// `field->selector` in a filter
    Json(FieldRef, Selector),
}
impl Target {
    pub fn text(&self) -> String {
        match self {
            Target::Field(f) => f.name.clone(),
            Target::Alias(a) | Target::AggAlias(a) => a.clone(),
            Target::RefField { name, .. } => name.clone(),
            Target::RefAlias { out, .. } => out.clone(),
            Target::Json(f, s) => format!("{}->{}", f.name, s.text()),
        }
    }
}

#[derive(Clone, Debug, PartialEq)]
pub enum FVal {
    Lit(Lit),
    /// variable name, value bound
    Var(String, Lit),
}
impl FVal {
    pub fn lit(&self) -> &Lit {
        match self {
            FVal::Lit(l) => l,
            FVal::Var(_, l) => l,
        }
    }
    pub fn text(&self) -> String {
        match self {
            FVal::Lit(l) => l.text(),
            FVal::Var(v, _) => format!("${}", v),
        }
    }
    pub fn is_var(&self) -> bool {
        matches!(self, FVal::Var(..))
    }
}

#[derive(Clone, Debug, PartialEq)]
pub struct RFilter {
    pub target: Target,
    pub op: Op,
    pub value: FVal,
}

#[derive(Clone, Debug, PartialEq)]
pub struct ROrd {
    pub target: Target,
    pub desc: bool,
}

#[derive(Clone, Debug, PartialEq)]
pub struct RPaging {
    pub before: bool,
    pub values: Vec<FVal>,
}

#[derive(Clone, Debug, PartialEq)]
pub enum Link {
    Root,
    Edge {
        field: String,
        label: String,
        unique: bool,
        model_nullable: bool,
    },
    SysPeer,
    SysRoom,
}

#[derive(Clone, Debug, PartialEq)]
pub enum RSel {
    Scalar { out: String, f: FieldRef },
    Json { out: String, f: FieldRef, sel: Option<Selector> },
    Agg { out: String, func: Func, f: Option<FieldRef> },
    Sub(REnt),
}
impl RSel {
    pub fn out(&self) -> &str {
        match self {
            RSel::Scalar { out, .. } | RSel::Json { out, .. } | RSel::Agg { out, .. } => out,
            RSel::Sub(e) => &e.out,
        }
    }
}

#[derive(Clone, Debug, PartialEq)]
pub struct REnt {
    /// key in the output object
    pub out: String,
    /// explicit alias, when any
    pub alias: Option<String>,
    /// index into Schema.entities
    pub ent: usize,
    pub ent_name: String,
    pub ent_short: String,
    pub link: Link,
    pub sels: Vec<RSel>,
    pub filters: Vec<RFilter>,
    pub order: Vec<ROrd>,
    pub first: u64,
    pub skip: u64,
    /// names of the variables carrying first / skip, when passed as variables
    pub first_var: Option<String>,
    pub skip_var: Option<String>,
    pub paging: Option<RPaging>,
    pub nullable: Vec<String>,
}

impl REnt {
    pub fn is_aggregate(&self) -> bool {
        self.sels.iter().any(|s| matches!(s, RSel::Agg { .. }))
    }
    /// name of the SQL table alias the implementation gives to this level
    pub fn table(&self) -> String {
        match self.link {
            Link::Root => self.out.replace('.', "$"),
            _ => self.out.clone(),
        }
    }
    /// the field name in the query text ("ra", "sys_peer", or the entity name for a root)
    pub fn source_name(&self) -> String {
        match &self.link {
            Link::Root => self.ent_name.clone(),
            Link::Edge { field, .. } => field.clone(),
            Link::SysPeer => "sys_peer".into(),
            Link::SysRoom => "sys_room".into(),
        }
    }
    pub fn unique(&self) -> bool {
        match &self.link {
            Link::Root => false,
            Link::Edge { unique, .. } => *unique,
            Link::SysPeer | Link::SysRoom => true,
        }
    }
    pub fn model_nullable(&self) -> bool {
        match &self.link {
            Link::Edge { model_nullable, .. } => *model_nullable,
            _ => false,
        }
    }

    pub fn render(&self, out: &mut String, indent: usize) {
        let pad = "  ".repeat(indent);
        out.push_str(&pad);
        if let Some(a) = &self.alias {
            out.push_str(&format!("{}: ", a));
        }
        out.push_str(&self.source_name());
        let mut params: Vec<String> = vec![];
        for f in &self.filters {
            params.push(format!("{} {} {}", f.target.text(), f.op.text(), f.value.text()));
        }
        if !self.order.is_empty() {
            let keys: Vec<String> = self
                .order
                .iter()
                .map(|o| format!("{} {}", o.target.text(), if o.desc { "desc" } else { "asc" }))
                .collect();
            params.push(format!("order_by({})", keys.join(", ")));
        }
        if self.first > 0 {
            match &self.first_var {
                Some(v) => params.push(format!("first ${}", v)),
                None => params.push(format!("first {}", self.first)),
            }
        }
        if self.skip > 0 {
            match &self.skip_var {
                Some(v) => params.push(format!("skip ${}", v)),
                None => params.push(format!("skip {}", self.skip)),
            }
        }
        if let Some(p) = &self.paging {
            let vals: Vec<String> = p.values.iter().map(|v| v.text()).collect();
            params.push(format!(
                "{}({})",
                if p.before { "before" } else { "after" },
                vals.join(", ")
            ));
        }
        if !self.nullable.is_empty() {
            params.push(format!("nullable({})", self.nullable.join(", ")));
        }
        if !params.is_empty() {
            out.push_str(&format!(" (\n{}    {}\n{}  )", pad, params.join(&format!(",\n{}    ", pad)), pad));
        }
        out.push_str(" {\n");
        for s in &self.sels {
            match s {
                RSel::Scalar { out: o, f } => {
                    if *o == f.name {
                        out.push_str(&format!("{}  {}\n", pad, o));
                    } else {
                        out.push_str(&format!("{}  {}: {}\n", pad, o, f.name));
                    }
                }
                RSel::Json { out: o, f, sel } => match sel {
                    None => {
                        if *o == f.name {
                            out.push_str(&format!("{}  {}\n", pad, o));
                        } else {
                            out.push_str(&format!("{}  {}: {}\n", pad, o, f.name));
                        }
                    }
                    Some(sel) => out.push_str(&format!("{}  {}: {}->{}\n", pad, o, f.name, sel.text())),
                },
                RSel::Agg { out: o, func, f } => {
                    let arg = f.as_ref().map(|f| f.name.clone()).unwrap_or_default();
                    out.push_str(&format!("{}  {}: {}({})\n", pad, o, func.name(), arg));
                }
                RSel::Sub(e) => e.render(out, indent + 1),
            }
        }
        out.push_str(&format!("{}}}\n", pad));
    }
}

#[derive(Clone, Debug, PartialEq)]
pub struct RQuery {
    pub roots: Vec<REnt>,
}
impl RQuery {
    pub fn text(&self) -> String {
        let mut s = "query {\n".to_string();
        for r in &self.roots {
            r.render(&mut s, 1);
        }
        s.push_str("}\n");
        s
    }
    pub fn vars(&self) -> Vec<(String, Lit, VarKind)> {
        let mut v = vec![];
        for r in &self.roots {
            collect_vars(r, &mut v);
        }
        v
    }
}

/// how a variable has to be bound
#[derive(Clone, Copy, Debug, PartialEq, Eq)]
pub enum VarKind {
    Plain,
}

fn collect_vars(e: &REnt, out: &mut Vec<(String, Lit, VarKind)>) {
    if let (Some(v), true) = (&e.first_var, e.first > 0) {
        out.push((v.clone(), Lit::Int(e.first as i64), VarKind::Plain));
    }
    if let (Some(v), true) = (&e.skip_var, e.skip > 0) {
        out.push((v.clone(), Lit::Int(e.skip as i64), VarKind::Plain));
    }
    for f in &e.filters {
        if let FVal::Var(n, l) = &f.value {
            out.push((n.clone(), l.clone(), VarKind::Plain));
        }
    }
    if let Some(p) = &e.paging {
        for v in &p.values {
            if let FVal::Var(n, l) = v {
                out.push((n.clone(), l.clone(), VarKind::Plain));
            }
        }
    }
    for s in &e.sels {
        if let RSel::Sub(sub) = s {
            collect_vars(sub, out);
        }
    }
}
