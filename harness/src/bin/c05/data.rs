//! The real side: data model, mutations and queries driven directly on an in-memory connection,
//! and the row-level read back (`Store`) used by the reference evaluator.

use crate::case::*;
use crate::schema::*;
use discret::verif::database::mutation_query::MutationQuery;
use discret::verif::database::query::{PreparedQueries, Query};
use discret::verif::database::query_language::data_model_parser::DataModel;
use discret::verif::database::query_language::mutation_parser::MutationParser;
use discret::verif::database::query_language::parameter::Parameters;
use discret::verif::database::query_language::query_parser::QueryParser;
use discret::verif::database::query_language::ParamValue;
use discret::verif::database::sqlite_database::{prepare_connection, Writeable};
use discret::verif::database::system_entities::SYSTEM_DATA_MODEL;
use discret::verif::security::Ed25519SigningKey;
use dv::engine::pick;
use rusqlite::Connection;
use serde_json::Value as J;
use std::collections::BTreeMap;
use std::sync::Arc;

#[derive(Clone, Debug)]
pub struct NodeRow {
    #[allow(dead_code)]
    pub rowid: i64,
    pub id: Vec<u8>,
    pub room_id: Option<Vec<u8>>,
    pub cdate: i64,
    pub mdate: i64,
    pub entity: String,
    pub json: J,
    pub verifying_key: Vec<u8>,
}

#[derive(Clone, Debug)]
pub struct EdgeRow {
    pub src: Vec<u8>,
    pub label: String,
    pub dest: Vec<u8>,
}

#[derive(Clone, Debug, Default)]
pub struct Store {
    pub nodes: Vec<NodeRow>,
    pub edges: Vec<EdgeRow>,
}

impl Store {
    pub fn read(conn: &Connection) -> Store {
        let mut st = conn
            .prepare("SELECT rowid, id, room_id, cdate, mdate, _entity, _json, verifying_key FROM _node ORDER BY rowid")
            .unwrap();
        let nodes = st
            .query_map([], |r| {
                let json: Option<String> = r.get(6)?;
                Ok(NodeRow {
                    rowid: r.get(0)?,
                    id: r.get(1)?,
                    room_id: r.get(2)?,
                    cdate: r.get(3)?,
                    mdate: r.get(4)?,
                    entity: r.get(5)?,
                    json: json
                        .map(|s| serde_json::from_str(&s).unwrap_or(J::Null))
                        .unwrap_or(J::Null),
                    verifying_key: r.get(7)?,
                })
            })
            .unwrap()
            .map(|r| r.unwrap())
            .collect();
        let mut st = conn
            .prepare("SELECT src, label, dest FROM _edge ORDER BY src, label, dest")
            .unwrap();
        let edges = st
            .query_map([], |r| {
                Ok(EdgeRow {
                    src: r.get(0)?,
                    label: r.get(1)?,
                    dest: r.get(2)?,
                })
            })
            .unwrap()
            .map(|r| r.unwrap())
            .collect();
        Store { nodes, edges }
    }

    pub fn of_entity(&self, short: &str) -> Vec<&NodeRow> {
        self.nodes.iter().filter(|n| n.entity == short).collect()
    }
}

pub struct World {
    pub conn: Connection,
    pub model: DataModel,
    pub schema: Schema,
    pub store: Store,
    pub keys: Vec<Ed25519SigningKey>,
    pub rooms: Vec<Vec<u8>>,
    pub second: bool,
    pub op_errors: BTreeMap<String, u64>,
    pub trace: bool,
}

pub fn b64(data: &[u8]) -> String {
    const T: &[u8; 64] = b"ABCDEFGHIJKLMNOPQRSTUVWXYZabcdefghijklmnopqrstuvwxyz0123456789-_";
    let mut out = String::new();
    for c in data.chunks(3) {
        let b = [c[0], *c.get(1).unwrap_or(&0), *c.get(2).unwrap_or(&0)];
        let n = ((b[0] as u32) << 16) | ((b[1] as u32) << 8) | b[2] as u32;
        out.push(T[(n >> 18) as usize & 63] as char);
        out.push(T[(n >> 12) as usize & 63] as char);
        if c.len() > 1 {
            out.push(T[(n >> 6) as usize & 63] as char);
        }
        if c.len() > 2 {
            out.push(T[n as usize & 63] as char);
        }
    }
    out
}

pub fn unb64(s: &str) -> Option<Vec<u8>> {
    let mut out = vec![];
    let mut acc = 0u32;
    let mut bits = 0;
    for ch in s.bytes() {
        let v = match ch {
            b'A'..=b'Z' => ch - b'A',
            b'a'..=b'z' => ch - b'a' + 26,
            b'0'..=b'9' => ch - b'0' + 52,
            b'-' => 62,
            b'_' => 63,
            _ => return None,
        } as u32;
        acc = (acc << 6) | v;
        bits += 6;
        if bits >= 8 {
            bits -= 8;
            out.push((acc >> bits) as u8);
            acc &= (1 << bits) - 1;
        }
    }
    Some(out)
}

impl World {
    pub fn new(schema: Schema, trace: bool) -> Result<World, String> {
        let conn = Connection::open_in_memory().map_err(|e| e.to_string())?;
        prepare_connection(&conn).map_err(|e| e.to_string())?;
        let mut model = DataModel::new();
        model
            .update_system(SYSTEM_DATA_MODEL)
            .map_err(|e| format!("system model: {}", e))?;
        model
            .update(&schema.v1)
            .map_err(|e| format!("model v1: {} in\n{}", e, schema.v1))?;
        let keys = vec![
            Ed25519SigningKey::create_from(&[7u8; 32]),
            Ed25519SigningKey::create_from(&[9u8; 32]),
        ];
        let mut w = World {
            conn,
            model,
            schema,
            store: Store::default(),
            keys,
            rooms: vec![],
            second: false,
            op_errors: BTreeMap::new(),
            trace,
        };
        w.fill_shorts();
        // two rooms and one peer row per signing key
        for _ in 0..2 {
            w.mutate("mutate { sys.Room { } }", Parameters::new(), 0)?;
        }
        w.mutate(
            "mutate { sys.Peer { pub_key: \"AQ\" name: \"p1\" } }",
            Parameters::new(),
            1,
        )?;
        w.mutate("mutate { sys.Peer { pub_key: \"AQID\" } }", Parameters::new(), 2)?;
        w.store = Store::read(&w.conn);
        let room_short = w.schema.entities[w.schema.user_entities + 1].short.clone();
        w.rooms = w.store.of_entity(&room_short).iter().map(|n| n.id.clone()).collect();
        Ok(w)
    }

    /// name -> short name mapping taken from the real model (the only thing the evaluator takes from it)
    pub fn fill_shorts(&mut self) {
        for e in self.schema.entities.iter_mut() {
            if let Ok(me) = self.model.get_entity(&e.name) {
                e.short = me.short_name.clone();
                for f in e.scalars.iter_mut() {
                    if let Ok(mf) = me.get_field(&f.name) {
                        f.short = mf.short_name.clone();
                    }
                }
                for r in e.refs.iter_mut() {
                    if let Ok(mf) = me.get_field(&r.name) {
                        r.short = mf.short_name.clone();
                    }
                }
            }
        }
    }

    pub fn evolve(&mut self) -> Result<(), String> {
        if self.second {
            return Ok(());
        }
        self.second = true;
        if self.schema.evolves {
            self.model
                .update(&self.schema.v2)
                .map_err(|e| format!("model v2: {} in\n{}\nafter\n{}", e, self.schema.v2, self.schema.v1))?;
            self.fill_shorts();
        }
        Ok(())
    }

    pub fn mutate(&mut self, text: &str, mut params: Parameters, signer: u8) -> Result<(), String> {
        if self.trace {
            println!("-- mutate (signer {}) {} {:?}", signer, text, params.params);
        }
        let parser = MutationParser::parse(text, &self.model).map_err(|e| format!("parse: {}", e))?;
        let mut mq = MutationQuery::execute(&mut params, Arc::new(parser), &self.conn)
            .map_err(|e| format!("execute: {}", e))?;
        if signer > 0 {
            mq.sign_all(&self.keys[(signer - 1) as usize % self.keys.len()])
                .map_err(|e| format!("sign: {}", e))?;
        }
        mq.write(&self.conn).map_err(|e| format!("write: {}", e))?;
        Ok(())
    }

    /// runs a query through the real parser, SQL generator and reader
    pub fn query(&self, text: &str, params: &BTreeMap<String, ParamValue>) -> Result<String, QueryError> {
        let parser = QueryParser::parse(text, &self.model).map_err(|e| QueryError::Parse(e.to_string()))?;
        let prepared = PreparedQueries::build(&parser).map_err(|e| QueryError::Parse(e.to_string()))?;
        let mut p = Parameters::new();
        for (k, v) in params {
            p.params.insert(k.clone(), v.clone());
        }
        let mut q = Query {
            parameters: p,
            parser: Arc::new(parser),
            sql_queries: Arc::new(prepared),
        };
        if self.trace {
            for s in &q.sql_queries.sql_queries {
                println!("-- sql\n{}", s.sql_query);
            }
        }
        q.read(&self.conn).map_err(|e| match e {
            discret::verif::database::Error::Database(d) => QueryError::Run(d.to_string()),
            other => QueryError::Params(other.to_string()),
        })
    }

    fn scalar_visible(&self, f: &ScalarField) -> bool {
        self.second || f.late != Late::Added
    }
    fn ref_visible(&self, r: &RefField) -> bool {
        self.second || !r.late
    }

    /// text of the fields of one node (without the surrounding braces)
    fn node_text(
        &self,
        ent: usize,
        node: &NodeSpec,
        update: bool,
        depth: u32,
        params: &mut Parameters,
        counter: &mut u32,
    ) -> String {
        let e = &self.schema.entities[ent];
        let mut out: Vec<String> = vec![];
        for (i, f) in e.scalars.iter().enumerate() {
            if !self.scalar_visible(f) || node.vals.is_empty() {
                continue;
            }
            let choice = node.vals[i % node.vals.len()];
            let nullable_now = f.nullable || (f.late == Late::NullableThenDefault && !self.second);
            let has_default = f.default.is_some() && !nullable_now;
            let p = pool(f.ty);
            let lit: Option<Lit> = match choice {
                ValChoice::Omit => {
                    if update || nullable_now || has_default {
                        None
                    } else {
                        Some(p[0].clone())
                    }
                }
                ValChoice::Null => {
                    if nullable_now {
                        Some(Lit::Null)
                    } else if update {
                        None
                    } else {
                        Some(p[1 % p.len()].clone())
                    }
                }
                ValChoice::Val(v) => Some(p[pick8(v.wrapping_mul(25), p.len())].clone()),
            };
            if let Some(l) = lit {
                if f.ty == Ty::Json && l == Lit::Null {
                    // an explicit null for a Json field panics in mutation_query.rs (property C14)
                    continue;
                }
                if f.ty == Ty::Json && l != Lit::Null {
                    *counter += 1;
                    let var = format!("j{}", counter);
                    if let Lit::Str(s) = &l {
                        params.params.insert(var.clone(), ParamValue::String(s.clone()));
                    }
                    out.push(format!("{}: ${}", f.name, var));
                } else {
                    out.push(format!("{}: {}", f.name, l.text()));
                }
            }
        }
        for (i, r) in e.refs.iter().enumerate() {
            if !self.ref_visible(r) || node.refs.is_empty() {
                continue;
            }
            let rv = &node.refs[i % node.refs.len()];
            let target_short = &self.schema.entities[r.target].short;
            match rv {
                RefVal::Omit => {}
                RefVal::Null => {
                    if update {
                        out.push(format!("{}: null", r.name));
                    }
                }
                RefVal::Link(rows) => {
                    let existing = self.store.of_entity(target_short);
                    if existing.is_empty() {
                        continue;
                    }
                    let mut ids: Vec<Vec<u8>> = vec![];
                    for x in rows {
                        let id = existing[pick(*x, existing.len())].id.clone();
                        if !ids.contains(&id) {
                            ids.push(id);
                        }
                    }
                    if !r.array {
                        ids.truncate(1);
                    }
                    let mut items = vec![];
                    for id in ids {
                        *counter += 1;
                        let var = format!("l{}", counter);
                        params.params.insert(var.clone(), ParamValue::String(b64(&id)));
                        items.push(format!("{{id: ${}}}", var));
                    }
                    if r.array {
                        out.push(format!("{}: [{}]", r.name, items.join(", ")));
                    } else {
                        out.push(format!("{}: {}", r.name, items[0]));
                    }
                }
                RefVal::New(nodes) => {
                    if depth == 0 {
                        continue;
                    }
                    let mut items = vec![];
                    for n in nodes {
                        let t = self.node_text(r.target, n, false, depth - 1, params, counter);
                        if !t.is_empty() {
                            items.push(format!("{{ {} }}", t));
                        }
                    }
                    if items.is_empty() {
                        continue;
                    }
                    if r.array {
                        out.push(format!("{}: [{}]", r.name, items.join(", ")));
                    } else {
                        out.push(format!("{}: {}", r.name, items[0]));
                    }
                }
            }
        }
        out.join(" ")
    }

    pub fn apply(&mut self, op: &DataOp) {
        let mut params = Parameters::new();
        let mut counter = 0u32;
        let (text, signer, tick) = match op {
            DataOp::Create {
                ent,
                node,
                tick,
                signer,
                room,
            } => {
                let ei = pick(*ent, self.schema.user_entities);
                let mut body = self.node_text(ei, node, false, 2, &mut params, &mut counter);
                if *room > 0 && !self.rooms.is_empty() {
                    let rid = &self.rooms[(*room as usize - 1) % self.rooms.len()];
                    params
                        .params
                        .insert("room".into(), ParamValue::String(b64(rid)));
                    body.push_str(" room_id: $room");
                }
                (
                    format!("mutate {{ {} {{ {} }} }}", self.schema.entities[ei].name, body),
                    *signer,
                    *tick,
                )
            }
            DataOp::Update { row, node, tick } => {
                let shorts: Vec<String> = self.schema.entities[..self.schema.user_entities]
                    .iter()
                    .map(|e| e.short.clone())
                    .collect();
                let rows: Vec<&NodeRow> = self
                    .store
                    .nodes
                    .iter()
                    .filter(|n| shorts.contains(&n.entity))
                    .collect();
                if rows.is_empty() {
                    return;
                }
                let target = rows[pick(*row, rows.len())];
                let ei = self.schema.entity_by_short(&target.entity).unwrap();
                let id = target.id.clone();
                let body = self.node_text(ei, node, true, 1, &mut params, &mut counter);
                params.params.insert("uid".into(), ParamValue::String(b64(&id)));
                (
                    format!(
                        "mutate {{ {} {{ id: $uid {} }} }}",
                        self.schema.entities[ei].name, body
                    ),
                    0,
                    *tick,
                )
            }
        };
        dv::world::Clock::advance(tick as i64);
        if let Err(e) = self.mutate(&text, params, signer) {
            let class: String = e.chars().take(40).collect();
            if self.trace {
                println!("-- op error {} for {}", e, text);
            }
            *self.op_errors.entry(class).or_insert(0) += 1;
        }
        self.store = Store::read(&self.conn);
    }
}

#[derive(Clone, Debug)]
pub enum QueryError {
    /// refused by the query parser
    Parse(String),
    /// refused when binding the parameters
    Params(String),
    /// SQLite refused or failed to run the generated SQL
    Run(String),
}
