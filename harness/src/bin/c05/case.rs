//! Serialisable case of C05 and its proptest strategies.
//!
//! Everything is abstract (indices resolved against the model / the stored rows at run time with
//! the monotone `pick`), so that shrinking keeps cases valid.

use proptest::prelude::*;
use serde::{Deserialize, Serialize};

#[derive(Clone, Debug, Serialize, Deserialize)]
pub enum Case {
    /// generated model + data + query
    Gen(GenCase),
    /// evaluator self test number n: a query of the repository's query_test.rs with its expected string
    SelfTest(u8),
    /// hand written, readable regression case: texts and the result the property demands
    Text(TextCase),
}

#[derive(Clone, Debug, Serialize, Deserialize)]
pub struct TextCase {
    /// signature reported when the real result differs from `expected`
    pub signature: String,
    /// models[0] is installed before the mutations, the following ones after them
    pub models: Vec<String>,
    /// one mutation text per entry; a `$prev` parameter is bound to the id of the first row written by the previous mutation
    pub mutations: Vec<String>,
    /// mutations run after the last model was installed
    #[serde(default)]
    pub mutations_after: Vec<String>,
    pub query: String,
    #[serde(default)]
    pub params: Vec<(String, serde_json::Value)>,
    /// what a direct evaluation of the query gives (derived by hand from the property)
    pub expected: serde_json::Value,
    /// paging walk: the query text contains `%PAGING%` (replaced by nothing for the first page, then by
    /// `, after($k0, ..)` bound to these output fields of the last row of the previous page); the
    /// concatenation of the pages must equal `expected`
    #[serde(default)]
    pub walk_keys: Vec<String>,
}

#[derive(Clone, Debug, Serialize, Deserialize)]
pub struct GenCase {
    pub model: ModelSpec,
    pub ops: Vec<DataOp>,
    /// the model evolution step (late fields appear) happens before ops[pick(evolve_at, len+1)]
    pub evolve_at: u16,
    pub query: QuerySpec,
    /// false: shapes of known findings are excluded by construction (counted); true: nothing excluded
    pub wild: bool,
    pub walk: Option<WalkSpec>,
}

#[derive(Clone, Copy, Debug, Serialize, Deserialize, PartialEq, Eq)]
pub enum Ty {
    Integer,
    Float,
    Boolean,
    String,
    Base64,
    Json,
}

#[derive(Clone, Copy, Debug, Serialize, Deserialize, PartialEq, Eq)]
pub enum Mode {
    Required,
    Nullable,
    /// default value = pool[pick]
    Default(u8),
}

#[derive(Clone, Copy, Debug, Serialize, Deserialize, PartialEq, Eq)]
pub enum Late {
    No,
    /// the field only exists in the second model version (rows written before lack it)
    Added,
    /// nullable in the first version, `default` in the second one (only for Mode::Default)
    NullableThenDefault,
}

#[derive(Clone, Debug, Serialize, Deserialize)]
pub struct ScalarSpec {
    pub ty: Ty,
    pub mode: Mode,
    pub late: Late,
}

#[derive(Clone, Debug, Serialize, Deserialize)]
pub struct RefSpec {
    pub target: u16,
    pub array: bool,
    pub nullable: bool,
    pub name: u8,
    pub late: bool,
}

#[derive(Clone, Debug, Serialize, Deserialize)]
pub struct EntitySpec {
    /// 0: default namespace, 1: first namespace, 2: second namespace (when the model has two)
    pub ns: u8,
    pub scalars: Vec<ScalarSpec>,
    pub refs: Vec<RefSpec>,
}

#[derive(Clone, Debug, Serialize, Deserialize)]
pub struct ModelSpec {
    pub entities: Vec<EntitySpec>,
}

#[derive(Clone, Copy, Debug, Serialize, Deserialize, PartialEq, Eq)]
pub enum ValChoice {
    /// leave the field out of the mutation (default / null); a required field gets pool[0]
    Omit,
    /// explicit null (nullable fields only, else pool[1])
    Null,
    Val(u8),
}

#[derive(Clone, Debug, Serialize, Deserialize)]
pub enum RefVal {
    Omit,
    /// `field: null` (removes the references on update)
    Null,
    /// link existing rows of the target entity by id
    Link(Vec<u16>),
    /// nested creation
    New(Vec<NodeSpec>),
}

#[derive(Clone, Debug, Serialize, Deserialize)]
pub struct NodeSpec {
    /// per scalar field (cycled when shorter)
    pub vals: Vec<ValChoice>,
    /// per reference field (cycled when shorter)
    pub refs: Vec<RefVal>,
}

#[derive(Clone, Debug, Serialize, Deserialize)]
pub enum DataOp {
    Create {
        ent: u16,
        node: NodeSpec,
        tick: u8,
        signer: u8,
        room: u8,
    },
    Update {
        row: u16,
        node: NodeSpec,
        tick: u8,
    },
}

#[derive(Clone, Debug, Serialize, Deserialize)]
pub struct SelSpec {
    /// over scalar fields of the entity followed by the system fields
    pub field: u16,
    pub alias: bool,
    /// for json fields: Some(n) selects with the n-th selector of the pool
    pub json_path: Option<u8>,
}

#[derive(Clone, Debug, Serialize, Deserialize)]
pub struct AggSpec {
    pub func: u8,
    pub field: u16,
}

#[derive(Clone, Debug, Serialize, Deserialize)]
pub enum FValSpec {
    /// the value the target has on the picked candidate row
    FromData(u16),
    /// the value of the picked row plus / minus a little
    NearMiss(u16, i8),
    Pool(u8),
    Null,
}

#[derive(Clone, Debug, Serialize, Deserialize)]
pub struct FilterSpec {
    pub target: u16,
    pub op: u8,
    pub val: FValSpec,
    pub as_var: bool,
}

#[derive(Clone, Debug, Serialize, Deserialize)]
pub struct OrdSpec {
    pub target: u16,
    pub desc: bool,
}

#[derive(Clone, Debug, Serialize, Deserialize)]
pub struct PagingSpec {
    pub before: bool,
    pub row: u16,
    pub nkeys: u8,
    pub as_var: bool,
}

#[derive(Clone, Debug, Serialize, Deserialize)]
pub struct EntQSpec {
    /// root: entity; nested: reference field of the parent entity (followed by sys_peer, sys_room)
    pub ent: u16,
    pub alias: bool,
    pub sels: Vec<SelSpec>,
    pub subs: Vec<EntQSpec>,
    pub aggs: Vec<AggSpec>,
    pub filters: Vec<FilterSpec>,
    pub order: Vec<OrdSpec>,
    pub append_id: bool,
    pub first: u8,
    pub skip: u8,
    pub paging: Option<PagingSpec>,
    /// bit i: sub i is listed in nullable()
    pub nullable: u8,
    /// first / skip are passed as variables
    #[serde(default)]
    pub limit_var: bool,
}

#[derive(Clone, Debug, Serialize, Deserialize)]
pub struct QuerySpec {
    pub roots: Vec<EntQSpec>,
}

#[derive(Clone, Debug, Serialize, Deserialize)]
pub struct WalkSpec {
    pub page: u8,
    pub as_var: bool,
    pub before: bool,
}

// ---------------------------------------------------------------------------------------------
// strategies

fn ty_strategy() -> impl Strategy<Value = Ty> {
    prop_oneof![
        4 => Just(Ty::Integer),
        3 => Just(Ty::Float),
        2 => Just(Ty::Boolean),
        4 => Just(Ty::String),
        1 => Just(Ty::Base64),
        1 => Just(Ty::Json),
    ]
}

fn scalar_strategy() -> impl Strategy<Value = ScalarSpec> {
    (
        ty_strategy(),
        prop_oneof![
            4 => Just(Mode::Required),
            3 => Just(Mode::Nullable),
            3 => (0u8..8).prop_map(Mode::Default),
        ],
        prop_oneof![
            6 => Just(Late::No),
            2 => Just(Late::Added),
            1 => Just(Late::NullableThenDefault),
        ],
    )
        .prop_map(|(ty, mode, late)| ScalarSpec { ty, mode, late })
}

fn ref_strategy() -> impl Strategy<Value = RefSpec> {
    (any::<u16>(), any::<bool>(), any::<bool>(), 0u8..4, prop::bool::weighted(0.1)).prop_map(
        |(target, array, nullable, name, late)| RefSpec {
            target,
            array,
            nullable,
            name,
            late,
        },
    )
}

fn entity_strategy() -> impl Strategy<Value = EntitySpec> {
    (
        0u8..3,
        prop::collection::vec(scalar_strategy(), 1..=5),
        prop::collection::vec(ref_strategy(), 0..=2),
    )
        .prop_map(|(ns, scalars, refs)| EntitySpec { ns, scalars, refs })
}

pub fn model_strategy() -> impl Strategy<Value = ModelSpec> {
    prop::collection::vec(entity_strategy(), 2..=4).prop_map(|entities| ModelSpec { entities })
}

fn val_strategy() -> impl Strategy<Value = ValChoice> {
    prop_oneof![
        2 => Just(ValChoice::Omit),
        1 => Just(ValChoice::Null),
        7 => (0u8..10).prop_map(ValChoice::Val),
    ]
}

fn node_strategy(depth: u32) -> BoxedStrategy<NodeSpec> {
    let refval: BoxedStrategy<RefVal> = if depth == 0 {
        prop_oneof![
            2 => Just(RefVal::Omit),
            5 => prop::collection::vec(any::<u16>(), 1..=3).prop_map(RefVal::Link),
        ]
        .boxed()
    } else {
        prop_oneof![
            2 => Just(RefVal::Omit),
            1 => Just(RefVal::Null),
            4 => prop::collection::vec(any::<u16>(), 1..=3).prop_map(RefVal::Link),
            4 => prop::collection::vec(node_strategy(depth - 1), 1..=2).prop_map(RefVal::New),
        ]
        .boxed()
    };
    (
        prop::collection::vec(val_strategy(), 1..=5),
        prop::collection::vec(refval, 0..=2),
    )
        .prop_map(|(vals, refs)| NodeSpec { vals, refs })
        .boxed()
}

fn op_strategy() -> impl Strategy<Value = DataOp> {
    prop_oneof![
        7 => (biased_index(), node_strategy(2), 0u8..3, 0u8..3, 0u8..3).prop_map(
            |(ent, node, tick, signer, room)| DataOp::Create { ent, node, tick, signer, room }
        ),
        1 => (any::<u16>(), node_strategy(1), 0u8..3)
            .prop_map(|(row, node, tick)| DataOp::Update { row, node, tick }),
    ]
}

/// index biased towards the first entities, so that tables get several rows and queries hit them
fn biased_index() -> impl Strategy<Value = u16> {
    prop_oneof![
        3 => 0u16..16000,
        2 => 16000u16..33000,
        2 => any::<u16>(),
    ]
}

fn sel_strategy() -> impl Strategy<Value = SelSpec> {
    (
        any::<u16>(),
        prop::bool::weighted(0.3),
        prop::option::weighted(0.5, 0u8..8),
    )
        .prop_map(|(field, alias, json_path)| SelSpec {
            field,
            alias,
            json_path,
        })
}

fn fval_strategy() -> impl Strategy<Value = FValSpec> {
    prop_oneof![
        9 => any::<u16>().prop_map(FValSpec::FromData),
        2 => (any::<u16>(), -1i8..=1).prop_map(|(r, d)| FValSpec::NearMiss(r, d)),
        1 => (0u8..10).prop_map(FValSpec::Pool),
        2 => Just(FValSpec::Null),
    ]
}

fn filter_strategy() -> impl Strategy<Value = FilterSpec> {
    (
        any::<u16>(),
        prop_oneof![2 => Just(0u8), 2 => Just(1u8), 1 => Just(2u8), 2 => Just(3u8), 1 => Just(4u8), 2 => Just(5u8)],
        fval_strategy(),
        prop::bool::weighted(0.25),
    )
        .prop_map(|(target, op, val, as_var)| FilterSpec {
            target,
            op,
            val,
            as_var,
        })
}

fn ord_strategy() -> impl Strategy<Value = OrdSpec> {
    (any::<u16>(), any::<bool>()).prop_map(|(target, desc)| OrdSpec { target, desc })
}

fn paging_strategy() -> impl Strategy<Value = PagingSpec> {
    (any::<bool>(), any::<u16>(), 1u8..=3, any::<bool>()).prop_map(|(before, row, nkeys, as_var)| {
        PagingSpec {
            before,
            row,
            nkeys,
            as_var,
        }
    })
}

fn entq_strategy(depth: u32, root: bool) -> BoxedStrategy<EntQSpec> {
    let subs: BoxedStrategy<Vec<EntQSpec>> = if depth == 0 {
        Just(vec![]).boxed()
    } else {
        prop::collection::vec(entq_strategy(depth - 1, false), 0..=2).boxed()
    };
    let agg_weight = if root { 0.2 } else { 0.1 };
    let filters: BoxedStrategy<Vec<FilterSpec>> = if root {
        prop_oneof![
            8 => Just(vec![]),
            7 => prop::collection::vec(filter_strategy(), 1..=1),
            4 => prop::collection::vec(filter_strategy(), 2..=2),
            1 => prop::collection::vec(filter_strategy(), 3..=3),
        ]
        .boxed()
    } else {
        prop_oneof![
            12 => Just(vec![]),
            4 => prop::collection::vec(filter_strategy(), 1..=1),
            1 => prop::collection::vec(filter_strategy(), 2..=2),
        ]
        .boxed()
    };
    let ent: BoxedStrategy<u16> = if root { biased_index().boxed() } else { any::<u16>().boxed() };
    (
        (
            ent,
            prop::bool::weighted(0.3),
            prop::collection::vec(sel_strategy(), 1..=4),
            subs,
            prop::option::weighted(
                agg_weight,
                prop::collection::vec(
                    (0u8..5, any::<u16>()).prop_map(|(func, field)| AggSpec { func, field }),
                    1..=3,
                ),
            ),
        ),
        (
            filters,
            prop_oneof![
                2 => Just(vec![]),
                5 => prop::collection::vec(ord_strategy(), 1..=3),
            ],
            prop::bool::weighted(0.7),
            prop_oneof![3 => Just(0u8), 2 => 1u8..5],
            prop_oneof![6 => Just(0u8), 1 => 1u8..3],
            prop::option::weighted(0.15, paging_strategy()),
            prop_oneof![1 => Just(0u8), 1 => Just(1u8), 1 => Just(2u8), 2 => Just(3u8)],
            prop::bool::weighted(0.2),
        ),
    )
        .prop_map(
            |((ent, alias, sels, subs, aggs), (filters, order, append_id, first, skip, paging, nullable, limit_var))| {
                EntQSpec {
                    ent,
                    alias,
                    sels,
                    subs,
                    aggs: aggs.unwrap_or_default(),
                    filters,
                    order,
                    append_id,
                    first,
                    skip,
                    paging,
                    nullable,
                    limit_var,
                }
            },
        )
        .boxed()
}

pub fn query_strategy(depth: u32) -> impl Strategy<Value = QuerySpec> {
    prop_oneof![
        3 => prop::collection::vec(entq_strategy(depth, true), 1..=1),
        1 => prop::collection::vec(entq_strategy(depth, true), 2..=2),
    ]
    .prop_map(|roots| QuerySpec { roots })
}

pub fn case_strategy(max_ops: usize, wild_weight: f64) -> BoxedStrategy<Case> {
    (
        model_strategy(),
        prop::collection::vec(op_strategy(), 3..=max_ops),
        any::<u16>(),
        query_strategy(2),
        prop::bool::weighted(wild_weight),
        prop::option::weighted(
            0.35,
            (1u8..=4, prop::bool::weighted(0.8), prop::bool::weighted(0.3)).prop_map(
                |(page, as_var, before)| WalkSpec {
                    page,
                    as_var,
                    before,
                },
            ),
        ),
    )
        .prop_map(|(model, ops, evolve_at, query, wild, walk)| {
            Case::Gen(GenCase {
                model,
                ops,
                evolve_at,
                query,
                wild,
                walk,
            })
        })
        .boxed()
}
