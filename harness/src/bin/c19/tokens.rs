//! meeting tokens: the token two peers derive for each other is the same on both sides and differs
//! between distinct pairs; invitation tokens are a function of the invitation id.
use discret::verif as dvv;
use dv::engine::*;
use dvv::security::MeetingSecret;
use proptest::prelude::*;
use serde::{Deserialize, Serialize};
use std::collections::BTreeMap;

#[derive(Clone, Debug, Serialize, Deserialize)]
pub struct TokenCase {
    pub secrets: Vec<[u8; 32]>,
    pub ids: Vec<[u8; 16]>,
}

pub fn strategy() -> BoxedStrategy<TokenCase> {
    let secret = prop_oneof![
        6 => any::<[u8; 32]>(),
        // few distinct values: equal and nearly equal key materials meet
        2 => (0u8..4).prop_map(|b| [b; 32]),
    ];
    // (base index, bit to flip): variants that differ in one bit, some of them only in bits x25519 ignores
    let variant = (any::<u16>(), prop_oneof![Just(0u16), Just(1), Just(2), Just(254), Just(255), 0u16..256]);
    (
        proptest::collection::vec(secret, 2..6),
        proptest::collection::vec(variant, 0..3),
        proptest::collection::vec(prop_oneof![3 => any::<[u8; 16]>(), 1 => (0u8..3).prop_map(|b| [b; 16])], 1..5),
    )
        .prop_map(|(mut secrets, variants, ids)| {
            for (i, bit) in variants {
                let mut s = secrets[pick(i, secrets.len())];
                s[(bit / 8) as usize] ^= 1 << (bit % 8);
                secrets.push(s);
            }
            TokenCase { secrets, ids }
        })
        .boxed()
}

pub fn run(case: &TokenCase) -> Outcome {
    let mut o = Outcome::default();
    let ms: Vec<MeetingSecret> = case.secrets.iter().map(|s| MeetingSecret::new(*s)).collect();
    let pubs: Vec<[u8; 32]> = ms.iter().map(|m| *m.public_key().as_bytes()).collect();
    let n = ms.len();
    // token -> the unordered pair of public keys it was derived for
    let mut by_token: BTreeMap<[u8; 7], ([u8; 32], [u8; 32])> = BTreeMap::new();
    let mut distinct_pubs: Vec<[u8; 32]> = pubs.clone();
    distinct_pubs.sort();
    distinct_pubs.dedup();
    for i in 0..n {
        for j in 0..n {
            let t_ij = ms[i].token(&ms[j].public_key());
            let t_ji = ms[j].token(&ms[i].public_key());
            if t_ij != t_ji {
                // two key materials with one public key are one identity twice: its own-device token is
                // derived from the secret bytes, which then differ
                if pubs[i] == pubs[j] && case.secrets[i] != case.secrets[j] {
                    o.count("same-public-key-different-secret-bytes", 1);
                    continue;
                }
                o.violation("token-not-symmetric", format!("secrets {} and {}", i, j));
                continue;
            }
            if pubs[i] == pubs[j] && case.secrets[i] != case.secrets[j] {
                continue;
            }
            let pair = if pubs[i] <= pubs[j] { (pubs[i], pubs[j]) } else { (pubs[j], pubs[i]) };
            match by_token.get(&t_ij) {
                Some(p) if *p != pair => {
                    o.violation("token-shared-by-distinct-pairs", format!("secrets {} and {}", i, j));
                }
                Some(_) => {}
                None => {
                    by_token.insert(t_ij, pair);
                }
            }
        }
    }
    let mut by_id: BTreeMap<[u8; 7], [u8; 16]> = BTreeMap::new();
    for id in &case.ids {
        let t = MeetingSecret::derive_token("P", id);
        if t != MeetingSecret::derive_token("P", id) {
            o.violation("invite-token-not-a-function-of-id", String::new());
        }
        match by_id.get(&t) {
            Some(other) if other != id => o.violation("invite-token-shared-by-distinct-ids", String::new()),
            _ => {
                by_id.insert(t, *id);
            }
        }
        if by_token.contains_key(&t) {
            o.violation("invite-token-equals-pair-token", String::new());
        }
    }
    o.count("token-pairs", (n * n) as u64);
    o.nontrivial = distinct_pubs.len() >= 3;
    o.label(format!("distinct-public-keys:{}", distinct_pubs.len().min(6)));
    if distinct_pubs.len() < n {
        o.label("equal-public-keys-present");
    }
    o
}
