//! C19: connections are trusted only after key proof; invitations are single-use; meeting tokens
//! are symmetric and distinct.
//!
//! A real instance S runs the real `PeerConnectionService` (peer manager, token map, invitation
//! handling, `LocalPeerService` handshake, `InboundQueryService`). Connections are injected the way the
//! QUIC endpoint hands them over (`PeerConnectionMessage::NewConnection` with in-memory channels), and the
//! remote side of every connection is scripted by the case.
mod tokens;

use discret::verif as dvv;
use dv::engine::*;
use dv::rights::*;
use dv::world::*;
use dvv::database::node::Node;
use dvv::database::system_entities::{AllowedPeer, DefaultRoom, Invite, OwnedInvite, Peer as SysPeer, Status};
use dvv::discret::DiscretParams;
use dvv::event_service::Event;
use dvv::network::ConnectionInfo;
use dvv::peer_connection_service::{PeerConnectionMessage, PeerConnectionService};
use dvv::security::{
    derive_key, derive_uid, import_verifying_key, uid_encode, HardwareFingerprint, MeetingSecret, MeetingToken, SigningKey, Uid,
};
use dvv::synchronisation::peer_outbound_service::{InboundQueryService, RemotePeerHandle};
use dvv::synchronisation::{Answer, IdentityAnswer, Query, QueryProtocol, RemoteEvent};
use proptest::prelude::*;
use serde::{Deserialize, Serialize};
use std::collections::{BTreeMap, BTreeSet, HashSet, VecDeque};
use std::sync::atomic::AtomicBool;
use std::sync::Arc;
use std::time::Duration;
use tokio::sync::{mpsc, oneshot, Mutex};
use tokio::time::timeout;

struct C19;

/// identities: 0..=3 remote users r0..r3 (r0 also runs a real instance, the relay victim), 4 a stranger
/// never known to S, 5 S's own key (another device of the same user)
const N_REMOTE: usize = 4;
const STRANGER: usize = 4;
const OWN: usize = 5;
const NAMES: [&str; 6] = ["r0", "r1", "r2", "r3", "stranger", "server"];

#[derive(Clone, Debug, Serialize, Deserialize, PartialEq)]
pub enum TokenSel {
    Allowed(u8),
    Owned(u16),
    Accepted(u16),
    OwnDevice,
    Unknown(u8),
}

/// what the remote side does with the challenge
/// 0 honest: the prover's own valid peer row, the challenge signed with the prover's key
/// 1 impostor: the expected identity's peer row, the challenge signed with the prover's key
/// 2 replay: a valid answer of the expected identity for the challenge of another connection
/// 3 relay: the challenge is handed to the real instance of r0 on another connection and its answer forwarded
/// 4 malformed peer row (kind in `arg`), challenge signed with the prover's key
/// 5 failure answer (success=false), 6 garbage bytes, 7 answer under a wrong query id
/// 8 no answer, 9 answer after the handshake timeout
/// 10 valid peer row, empty / truncated challenge signature
pub const BEHAVIOURS: [&str; 11] = [
    "honest", "impostor", "replay", "relay", "malformed-peer-row", "failure-answer", "garbage", "wrong-id", "silent", "late", "bad-signature-bytes",
];

#[derive(Clone, Debug, Serialize, Deserialize, PartialEq)]
pub struct ConnSpec {
    pub token: TokenSel,
    /// key announced with the connection (ConnectionInfo.peer_verifying_key): identity index, None = the
    /// identity the token belongs to
    pub claimed: Option<u8>,
    pub prover: u8,
    pub behaviour: u8,
    pub arg: u8,
}

#[derive(Clone, Debug, Serialize, Deserialize, PartialEq)]
pub enum Step {
    CreateInvite { default_room: bool },
    /// S is given invitation bytes: made by `inviter` for application 0 = this one, 1 = another one,
    /// 2 = this one's name in another case; `mutation` 0 none, 1 truncated at pos, 2 one byte changed at pos,
    /// 3 trailing bytes appended, 4 signature made by `arg`'s key instead
    AcceptInvite { inviter: u8, app: u8, mutation: u8, pos: u16, arg: u8 },
    Connect(ConnSpec),
    Race(ConnSpec, ConnSpec),
    /// the peer connection service is started again over the same database (tokens, invitations and
    /// allowed peers are read back from what was stored)
    Restart,
}

#[derive(Clone, Debug, Serialize, Deserialize)]
pub struct HCase {
    /// bit i: r_i is an allowed peer of S when the service starts
    pub allowed: u8,
    pub steps: Vec<Step>,
}

#[derive(Clone, Debug, Serialize, Deserialize)]
pub enum Case {
    Handshake(HCase),
    Tokens(tokens::TokenCase),
}

fn spec_strategy(slow: u32) -> BoxedStrategy<ConnSpec> {
    let token = prop_oneof![
        5 => (0u8..5).prop_map(TokenSel::Allowed),
        5 => any::<u16>().prop_map(TokenSel::Owned),
        3 => any::<u16>().prop_map(TokenSel::Accepted),
        1 => Just(TokenSel::OwnDevice),
        1 => any::<u8>().prop_map(TokenSel::Unknown),
    ];
    let mut weighted: Vec<(u32, u8)> = vec![(10, 0), (6, 1), (4, 2), (1, 3), (4, 4), (1, 5), (1, 6), (2, 10)];
    if slow > 0 {
        // the other behaviours weigh four times more where the slow ones are generated
        for w in weighted.iter_mut() {
            w.0 *= 4;
        }
        // behaviours that make S wait for its 10 s handshake timeout
        weighted.push((slow, 7));
        weighted.push((slow, 8));
        weighted.push((slow, 9));
    }
    let total: u32 = weighted.iter().map(|w| w.0).sum::<u32>() * 4;
    let behaviour = (0..total).prop_map(move |x| {
        let mut x = x / 4;
        for (w, b) in &weighted {
            if x < *w {
                return *b;
            }
            x -= *w;
        }
        0u8
    });
    (token, prop_oneof![4 => Just(None), 1 => (0u8..6).prop_map(Some)], 0u8..6, behaviour, any::<u8>())
        .prop_map(|(token, claimed, prover, behaviour, arg)| {
            let mut s = ConnSpec { token, claimed, prover, behaviour, arg };
            if s.behaviour == 3 {
                // the relay victim is r0: its token, its key claimed, somebody else at the keyboard
                s.token = TokenSel::Allowed(0);
                s.claimed = None;
                if s.prover == 0 {
                    s.prover = STRANGER as u8;
                }
            }
            s
        })
        .boxed()
}

fn hcase_strategy(max_steps: usize, slow: u32) -> BoxedStrategy<Case> {
    let step = prop_oneof![
        2 => any::<bool>().prop_map(|default_room| Step::CreateInvite { default_room }),
        1 => Just(Step::Restart),
        2 => (0u8..5, prop_oneof![6 => Just(0u8), 2 => Just(1u8), 1 => Just(2u8)], prop_oneof![5 => Just(0u8), 1 => 1u8..5], any::<u16>(), 0u8..5)
            .prop_map(|(inviter, app, mutation, pos, arg)| Step::AcceptInvite { inviter, app, mutation, pos, arg }),
        10 => spec_strategy(slow).prop_map(Step::Connect),
        3 => (spec_strategy(0), spec_strategy(0), any::<bool>()).prop_map(|(a, mut b, same)| {
            let mut a = a;
            // a relayed proof (known defect) is kept out of races: a race's state change cannot be
            // attributed to one of its two connections
            for c in [&mut a, &mut b] {
                if c.behaviour == 3 {
                    c.behaviour = 1;
                }
            }
            if same {
                b.token = a.token.clone();
            }
            Step::Race(a, b)
        }),
    ];
    (0u8..16, proptest::collection::vec(step, 3..max_steps))
        .prop_map(|(allowed, mut steps)| {
            // most histories own an invitation and hold somebody's invitation early
            steps.insert(0, Step::CreateInvite { default_room: true });
            steps.insert(1, Step::AcceptInvite { inviter: 1, app: 0, mutation: 0, pos: 0, arg: 0 });
            Case::Handshake(HCase { allowed: allowed | 1, steps })
        })
        .boxed()
}

// ------------------------------------------------------------------------------------------------
struct Ident {
    key: Vec<u8>,
    key64: String,
    signing: dvv::security::Ed25519SigningKey,
    ms: MeetingSecret,
    node: Node,
}
fn meeting_secret(name: &str) -> MeetingSecret {
    MeetingSecret::new(derive_key(&format!("{}{}", "MEETING_SECRET", APP), &secret_for(name)))
}
fn ident(name: &str) -> Ident {
    let secret = secret_for(name);
    let signing = signing_key_for_secret(&secret);
    let ms = meeting_secret(name);
    let mut node = SysPeer::create(derive_uid("C19 PEER", &secret), b64(ms.public_key().as_bytes()));
    node.sign(&signing).expect("peer row");
    let key = signing.export_verifying_key();
    Ident { key64: b64(&key), key, signing, ms, node }
}

struct Conn {
    q_out_rx: mpsc::Receiver<QueryProtocol>,
    a_in_tx: mpsc::Sender<Answer>,
    q_in_tx: mpsc::Sender<QueryProtocol>,
    a_out_rx: mpsc::Receiver<Answer>,
    ev_out_rx: mpsc::Receiver<RemoteEvent>,
    _ev_in_tx: mpsc::Sender<RemoteEvent>,
    conn_id: Uid,
}

fn numbered_uid(tag: u8, n: u32) -> Uid {
    let mut u = [tag; 16];
    u[12..16].copy_from_slice(&n.to_be_bytes());
    u
}

async fn open(svc: &PeerConnectionService, token: MeetingToken, claimed: Vec<u8>, n: u32) -> Conn {
    let (a_out_tx, a_out_rx) = mpsc::channel::<Answer>(64);
    let (a_in_tx, a_in_rx) = mpsc::channel::<Answer>(8);
    let (q_out_tx, q_out_rx) = mpsc::channel::<QueryProtocol>(8);
    let (q_in_tx, q_in_rx) = mpsc::channel::<QueryProtocol>(8);
    let (ev_out_tx, ev_out_rx) = mpsc::channel::<RemoteEvent>(8);
    let (ev_in_tx, ev_in_rx) = mpsc::channel::<RemoteEvent>(8);
    let conn_id = numbered_uid(0xC1, n);
    let info = ConnectionInfo {
        endpoint_id: [1; 16],
        remote_id: numbered_uid(0xE0, n),
        conn_id,
        meeting_token: token,
        peer_verifying_key: claimed,
    };
    let _ = svc
        .sender
        .send(PeerConnectionMessage::NewConnection(None, info, a_out_tx, a_in_rx, q_out_tx, q_in_rx, ev_out_tx, ev_in_rx))
        .await;
    Conn { q_out_rx, a_in_tx, q_in_tx, a_out_rx, ev_out_rx, _ev_in_tx: ev_in_tx, conn_id }
}

/// the real instance of r0, serving one connection through the real inbound service
struct Victim {
    _peer: Peer,
    q_tx: mpsc::Sender<QueryProtocol>,
    a_rx: mpsc::Receiver<Answer>,
    next: u64,
}
impl Victim {
    async fn start(dir: std::path::PathBuf) -> Result<Victim, String> {
        let ms = meeting_secret("r0");
        let peer = Peer::start_full("r0", dv::syncworld::MODEL, dir, &config(), Some(*ms.public_key().as_bytes())).await?;
        let (q_tx, q_rx) = mpsc::channel::<QueryProtocol>(8);
        let (a_tx, a_rx) = mpsc::channel::<Answer>(8);
        let handle = RemotePeerHandle { allowed_room: HashSet::new(), db: peer.db.clone(), verifying_key: peer.verifying_key.clone(), reply: a_tx };
        let _service = InboundQueryService::start(
            HardwareFingerprint { id: [8; 16], name: "victim hw".into() },
            [5; 32],
            [6; 16],
            handle,
            q_rx,
            peer.peer_service.clone(),
            Arc::new(Mutex::new(Vec::new())),
            Arc::new(AtomicBool::new(true)),
        );
        // the service handle is only a sender for room updates: keep it alive with the instance
        std::mem::forget(_service);
        Ok(Victim { _peer: peer, q_tx, a_rx, next: 1 })
    }
    /// what r0's instance answers to an identity query of a connection that has proved nothing
    async fn prove(&mut self, challenge: Vec<u8>) -> Option<Vec<u8>> {
        let id = self.next;
        self.next += 1;
        self.q_tx.send(QueryProtocol { id, query: Query::ProveIdentity(challenge) }).await.ok()?;
        match timeout(Duration::from_secs(5), self.a_rx.recv()).await {
            Ok(Some(a)) if a.id == id && a.success => Some(a.serialized),
            _ => None,
        }
    }
}

#[derive(Default, Debug, Clone)]
struct Observed {
    challenged: bool,
    refused_at_token: bool,
    ready: bool,
    fingerprint_pending: bool,
    rooms_served: Vec<Uid>,
    other_queries: usize,
    undecided: bool,
    /// the harness's own judgement of what it sent: Some(key) iff the answer was a timely, well formed proof
    /// of possession of `key` over this connection's challenge, made with a key the remote side holds
    proved: Option<Vec<u8>>,
}

struct Script<'a> {
    spec: &'a ConnSpec,
    idents: &'a [Ident],
    /// identity whose key the token stands for, if any
    expected: Option<usize>,
}

/// what a peer signs to prove its identity (the protocol's message for a challenge, written out here
/// independently of the library)
fn proof_message(challenge: &[u8]) -> Vec<u8> {
    let mut hasher = blake3::Hasher::new_derive_key("discret identity proof");
    hasher.update(challenge);
    hasher.finalize().as_bytes().to_vec()
}

fn malformed(node: &Node, signing: &dvv::security::Ed25519SigningKey, kind: u8) -> Node {
    let mut n = node.clone();
    match kind % 7 {
        0 => {
            n.room_id = Some([3; 16]);
            let _ = n.sign(signing);
        }
        1 => {
            n._entity = "0.1".to_string();
            let _ = n.sign(signing);
        }
        2 => {
            n._json = Some("{}".to_string());
            let _ = n.sign(signing);
        }
        3 => {
            n._json = Some("{\"32\":7,\"33\":\"\"}".to_string());
            let _ = n.sign(signing);
        }
        4 => {
            // row changed after it was signed
            n._json = n._json.map(|j| j.replace("\"\"", "\"x\""));
            n.mdate = 5;
        }
        5 => {
            n._signature = vec![0; 64];
        }
        _ => {
            n._json = None;
            let _ = n.sign(signing);
        }
    }
    n
}

async fn drive(conn: &mut Conn, sc: &Script<'_>, victim: &mut Option<Victim>) -> Observed {
    let mut ob = Observed::default();
    let first = timeout(Duration::from_secs(8), conn.q_out_rx.recv()).await;
    let (qid, challenge) = match first {
        Err(_) => {
            ob.undecided = true;
            return ob;
        }
        Ok(None) => {
            ob.refused_at_token = true;
            probe(conn, &mut ob).await;
            return ob;
        }
        Ok(Some(QueryProtocol { id, query: Query::ProveIdentity(c) })) => (id, c),
        Ok(Some(_)) => {
            ob.other_queries += 1;
            return ob;
        }
    };
    ob.challenged = true;
    let prover = &sc.idents[sc.spec.prover as usize % sc.idents.len()];
    let expected = sc.expected.map(|i| &sc.idents[i]);
    let ser = |a: &IdentityAnswer| bincode::serialize(a).unwrap();
    let mut delay_ms = 0u64;
    let mut answer: Option<Answer> = None;
    match sc.spec.behaviour {
        0 => {
            let a = IdentityAnswer { peer: prover.node.clone(), chall_signature: prover.signing.sign(&proof_message(&challenge)) };
            ob.proved = Some(prover.key.clone());
            answer = Some(Answer { id: qid, success: true, complete: true, serialized: ser(&a) });
        }
        1 => {
            let row = expected.unwrap_or(prover);
            let a = IdentityAnswer { peer: row.node.clone(), chall_signature: prover.signing.sign(&proof_message(&challenge)) };
            if row.key == prover.key {
                ob.proved = Some(prover.key.clone());
            }
            answer = Some(Answer { id: qid, success: true, complete: true, serialized: ser(&a) });
        }
        2 => {
            let who = expected.unwrap_or(prover);
            let mut other = challenge.clone();
            other[sc.spec.arg as usize % 32] ^= 1 << (sc.spec.arg % 8);
            let a = IdentityAnswer { peer: who.node.clone(), chall_signature: who.signing.sign(&proof_message(&other)) };
            answer = Some(Answer { id: qid, success: true, complete: true, serialized: ser(&a) });
        }
        3 => {
            if let Some(v) = victim.as_mut() {
                if let Some(bytes) = v.prove(challenge.clone()).await {
                    answer = Some(Answer { id: qid, success: true, complete: true, serialized: bytes });
                }
            }
        }
        4 => {
            let a = IdentityAnswer { peer: malformed(&prover.node, &prover.signing, sc.spec.arg), chall_signature: prover.signing.sign(&proof_message(&challenge)) };
            answer = Some(Answer { id: qid, success: true, complete: true, serialized: ser(&a) });
        }
        5 => {
            let a = IdentityAnswer { peer: prover.node.clone(), chall_signature: prover.signing.sign(&proof_message(&challenge)) };
            answer = Some(Answer { id: qid, success: false, complete: true, serialized: ser(&a) });
        }
        6 => {
            let a = IdentityAnswer { peer: prover.node.clone(), chall_signature: prover.signing.sign(&proof_message(&challenge)) };
            let mut bytes = ser(&a);
            let cut = (sc.spec.arg as usize * bytes.len()) >> 8;
            bytes.truncate(cut);
            answer = Some(Answer { id: qid, success: true, complete: true, serialized: bytes });
        }
        7 => {
            let a = IdentityAnswer { peer: prover.node.clone(), chall_signature: prover.signing.sign(&proof_message(&challenge)) };
            answer = Some(Answer { id: qid + 1 + sc.spec.arg as u64, success: true, complete: true, serialized: ser(&a) });
        }
        8 => {}
        9 => {
            delay_ms = 10_600;
            let a = IdentityAnswer { peer: prover.node.clone(), chall_signature: prover.signing.sign(&proof_message(&challenge)) };
            answer = Some(Answer { id: qid, success: true, complete: true, serialized: ser(&a) });
        }
        _ => {
            let mut sig = prover.signing.sign(&proof_message(&challenge));
            match sc.spec.arg % 3 {
                0 => sig.clear(),
                1 => sig.truncate(63),
                _ => sig[sc.spec.arg as usize % 64] ^= 0x40,
            }
            let a = IdentityAnswer { peer: prover.node.clone(), chall_signature: sig };
            answer = Some(Answer { id: qid, success: true, complete: true, serialized: ser(&a) });
        }
    }
    if delay_ms > 0 {
        tokio::time::sleep(Duration::from_millis(delay_ms)).await;
    }
    if let Some(a) = answer {
        let _ = conn.a_in_tx.send(a).await;
        // a remote that does not wait for the verdict: its room list request is in flight while the proof
        // is being checked (whatever it is served is collected with the later probe)
        let _ = conn.q_in_tx.try_send(QueryProtocol { id: 8000, query: Query::RoomList });
    }
    // outcome: the readiness event (trusted), or the connection's channels closing (given up)
    let guard = tokio::time::sleep(Duration::from_secs(25));
    tokio::pin!(guard);
    let mut ev_open = true;
    let mut q_open = true;
    loop {
        if !ev_open && !q_open {
            break;
        }
        tokio::select! {
            ev = conn.ev_out_rx.recv(), if ev_open => match ev {
                Some(RemoteEvent::Ready) => { ob.ready = true; break; }
                Some(RemoteEvent::ReadyFingerprint) => { ob.fingerprint_pending = true; break; }
                Some(_) => {}
                None => ev_open = false,
            },
            q = conn.q_out_rx.recv(), if q_open => match q {
                Some(_) => ob.other_queries += 1,
                None => q_open = false,
            },
            _ = &mut guard => { ob.undecided = true; break; }
        }
    }
    probe(conn, &mut ob).await;
    ob
}

/// asks for the room list the way a synchronising peer does; a sentinel identity query ends the wait
async fn probe(conn: &mut Conn, ob: &mut Observed) {
    if conn.q_in_tx.send(QueryProtocol { id: 9000, query: Query::RoomList }).await.is_err() {
        return;
    }
    if conn.q_in_tx.send(QueryProtocol { id: 9001, query: Query::ProveIdentity(vec![1, 2, 3]) }).await.is_err() {
        return;
    }
    loop {
        match timeout(Duration::from_secs(5), conn.a_out_rx.recv()).await {
            Ok(Some(a)) => {
                if a.id == 9001 {
                    break;
                }
                if (a.id == 9000 || a.id == 8000) && a.success && !a.complete {
                    if let Ok(list) = bincode::deserialize::<VecDeque<Uid>>(&a.serialized) {
                        ob.rooms_served.extend(list);
                    }
                }
            }
            _ => break,
        }
    }
}

// ------------------------------------------------------------------------------------------------
#[derive(Clone, Debug, PartialEq)]
enum Tok {
    Allowed(usize),
    Own,
    Owned(usize),
    Accepted(usize),
    Unknown,
}
impl Tok {
    fn name(&self) -> &'static str {
        match self {
            Tok::Allowed(_) => "allowed-peer",
            Tok::Own => "own-device",
            Tok::Owned(_) => "owned-invite",
            Tok::Accepted(_) => "accepted-invite",
            Tok::Unknown => "unknown-token",
        }
    }
}
struct OwnedInv {
    id: Uid,
    token: MeetingToken,
    default_room: bool,
    consumed_by: Option<Vec<u8>>,
}
struct AcceptedInv {
    id: Uid,
    token: MeetingToken,
    /// identity whose key verifies the invitation's signature over (id, application)
    signer: Option<usize>,
    consumed: bool,
}

#[derive(Clone, Debug, Default, PartialEq)]
struct DbState {
    allowed: BTreeSet<String>,
    room_d_members: BTreeSet<String>,
    owned: BTreeSet<String>,
    invites: BTreeSet<String>,
}

struct World {
    s: Peer,
    svc: PeerConnectionService,
    hw: HardwareFingerprint,
    idents: Vec<Ident>,
    own_token: MeetingToken,
    room_of: Vec<Uid>,
    room_d: Uid,
    room_d64: String,
    auth_d64: String,
    owned: Vec<OwnedInv>,
    accepted: Vec<AcceptedInv>,
    allowed: BTreeSet<usize>,
    events: tokio::sync::broadcast::Receiver<Event>,
    n_conn: u32,
    /// conn id (base64) -> (entitled key, behaviour, token kind)
    conns: BTreeMap<String, (Option<Vec<u8>>, String)>,
}

impl World {
    async fn fence(&self) {
        let (tx, rx) = oneshot::channel();
        let _ = self.svc.sender.send(PeerConnectionMessage::ValidateHardware([0; 32], self.hw.clone(), tx)).await;
        let _ = timeout(Duration::from_secs(20), rx).await;
        self.s.fence().await;
    }
    async fn db_state(&self) -> DbState {
        let mut st = DbState::default();
        if let Ok(list) = self.s.db.get_allowed_peers(self.s.private_room).await {
            for a in list {
                st.allowed.insert(a.peer.verifying_key.clone());
            }
        }
        if let Some(room) = self.s.room(self.room_d).await {
            let m = RoomModel::from_room(&room);
            for k in m.keys() {
                if m.is_member(&k, Clock::get()) {
                    st.room_d_members.insert(k);
                }
            }
        }
        if let Ok(list) = OwnedInvite::list_valid(uid_encode(&self.s.private_room), &self.s.db).await {
            for o in list {
                st.owned.insert(uid_encode(&o.id));
            }
        }
        if let Ok(list) = Invite::list(uid_encode(&self.s.private_room), &self.s.db).await {
            for i in list {
                st.invites.insert(uid_encode(&i.invite_id));
            }
        }
        st
    }
    fn resolve(&self, sel: &TokenSel) -> (Tok, MeetingToken) {
        match sel {
            TokenSel::Allowed(i) => {
                let i = *i as usize % (N_REMOTE + 1);
                let tok = self.idents[OWN].ms.token(&self.idents[i].ms.public_key());
                (if self.allowed.contains(&i) { Tok::Allowed(i) } else { Tok::Unknown }, tok)
            }
            TokenSel::Owned(k) => {
                if self.owned.is_empty() {
                    (Tok::Unknown, [0x55; 7])
                } else {
                    let k = pick(*k, self.owned.len());
                    (Tok::Owned(k), self.owned[k].token)
                }
            }
            TokenSel::Accepted(k) => {
                if self.accepted.is_empty() {
                    (Tok::Unknown, [0x56; 7])
                } else {
                    let k = pick(*k, self.accepted.len());
                    (Tok::Accepted(k), self.accepted[k].token)
                }
            }
            TokenSel::OwnDevice => (Tok::Own, self.own_token),
            TokenSel::Unknown(b) => (Tok::Unknown, [*b, 1, 2, 3, 4, 5, 6]),
        }
    }
    fn expected_ident(&self, tok: &Tok) -> Option<usize> {
        match tok {
            Tok::Allowed(i) => Some(*i),
            Tok::Own => Some(OWN),
            Tok::Accepted(k) => self.accepted[*k].signer,
            _ => None,
        }
    }
    /// key the connection may be treated as, given what the remote side really proved
    fn entitled(&self, tok: &Tok, claimed: &[u8], proved: &Option<Vec<u8>>) -> Option<Vec<u8>> {
        let p = proved.as_ref()?;
        match tok {
            Tok::Allowed(i) => (self.idents[*i].key == *p && claimed == &p[..]).then(|| p.clone()),
            Tok::Own => (self.idents[OWN].key == *p && claimed == &p[..]).then(|| p.clone()),
            Tok::Owned(k) => self.owned[*k].consumed_by.is_none().then(|| p.clone()),
            Tok::Accepted(k) => {
                let a = &self.accepted[*k];
                (!a.consumed && a.signer.map(|s| self.idents[s].key == *p).unwrap_or(false)).then(|| p.clone())
            }
            Tok::Unknown => None,
        }
    }
    fn member_rooms(&self, models: &[(Uid, RoomModel)], key64: &str) -> BTreeSet<Uid> {
        models.iter().filter(|(_, m)| m.is_member(key64, Clock::get())).map(|(r, _)| *r).collect()
    }
    async fn room_models(&self) -> Vec<(Uid, RoomModel)> {
        let mut out = vec![];
        let mut ids = self.room_of.clone();
        ids.push(self.room_d);
        for id in ids {
            if let Some(r) = self.s.room(id).await {
                out.push((id, RoomModel::from_room(&r)));
            }
        }
        out
    }
}

/// one root cause, one signature: whatever token a relayed proof is used with, it is the same defect
fn sig_for(class: &str, tok: &Tok, beh: &str) -> String {
    if beh == "relay" {
        "proof-relayed-from-another-connection".to_string()
    } else {
        format!("{}:{}:{}", class, tok.name(), beh)
    }
}

fn class_of(tok: &Tok, w: &World, proved: &Option<Vec<u8>>) -> &'static str {
    let consumed = match tok {
        Tok::Owned(k) => w.owned[*k].consumed_by.is_some(),
        Tok::Accepted(k) => w.accepted[*k].consumed,
        _ => false,
    };
    if consumed && proved.is_some() {
        "consumed-invite-reused"
    } else if proved.is_none() {
        "trusted-without-proof"
    } else {
        "trusted-as-other-key"
    }
}

/// judge one finished connection against the model; returns the set of keys it was entitled to add
#[allow(clippy::too_many_arguments)]
async fn judge_conn(w: &World, o: &mut Outcome, step: usize, spec: &ConnSpec, tok: &Tok, claimed: &[u8], ob: &Observed, seen: &mut BTreeSet<String>) -> Option<Vec<u8>> {
    let beh = BEHAVIOURS[spec.behaviour as usize % BEHAVIOURS.len()];
    let entitled = w.entitled(tok, claimed, &ob.proved);
    let own_device = ob.proved.as_ref().map(|p| *p == w.idents[OWN].key).unwrap_or(false);
    o.count(&format!("conn:{}:{}", tok.name(), beh), 1);
    if ob.challenged {
        o.count("challenged", 1);
    }
    if ob.refused_at_token {
        o.count("refused-at-token", 1);
    }
    if ob.undecided {
        o.count("undecided", 1);
        return entitled;
    }
    let class = class_of(tok, w, &ob.proved);
    let mut report = |what: &str, detail: String, o: &mut Outcome| {
        let sig = sig_for(class, &tok, beh);
        if seen.insert(format!("{}:{}", sig, what)) {
            o.violation(sig, format!("step {} {:?}: {} ({})", step, spec, what, detail));
        }
    };
    if entitled.is_none() {
        if ob.ready {
            report("readiness announced", String::new(), o);
        }
        if ob.fingerprint_pending {
            report("treated as another device of the user", String::new(), o);
        }
        if !ob.rooms_served.is_empty() {
            report("rooms served", format!("{} rooms", ob.rooms_served.len()), o);
        }
    } else if !own_device {
        let k64 = b64(entitled.as_ref().unwrap());
        let models = w.room_models().await;
        let mine = w.member_rooms(&models, &k64);
        for r in &ob.rooms_served {
            // rooms gained by this very connection (an invitation's default room) are the key's own
            if !mine.contains(r) {
                report("rooms of another key served", format!("room {}", uid_encode(r)), o);
            }
        }
        if ob.ready {
            o.count("trusted-after-proof", 1);
        } else {
            o.count("entitled-not-trusted", 1);
        }
    }
    entitled
}

fn judge_delta(
    o: &mut Outcome,
    step: usize,
    what: &str,
    sig: String,
    before: &DbState,
    after: &DbState,
    may_allow: &BTreeSet<String>,
    may_join: &BTreeSet<String>,
    may_drop_owned: &BTreeSet<String>,
    may_drop_invites: &BTreeSet<String>,
    may_add_invites: &BTreeSet<String>,
) {
    let mut bad = vec![];
    for k in after.allowed.difference(&before.allowed) {
        if !may_allow.contains(k) {
            bad.push(format!("allowed peer added: {}", k));
        }
    }
    for k in before.allowed.difference(&after.allowed) {
        bad.push(format!("allowed peer removed: {}", k));
    }
    for k in after.room_d_members.difference(&before.room_d_members) {
        if !may_join.contains(k) {
            bad.push(format!("default room member added: {}", k));
        }
    }
    for k in before.owned.difference(&after.owned) {
        if !may_drop_owned.contains(k) {
            bad.push(format!("owned invitation removed: {}", k));
        }
    }
    for k in before.invites.difference(&after.invites) {
        if !may_drop_invites.contains(k) {
            bad.push(format!("held invitation removed: {}", k));
        }
    }
    for k in after.invites.difference(&before.invites) {
        if !may_add_invites.contains(k) {
            bad.push(format!("held invitation added: {}", k));
        }
    }
    if !bad.is_empty() {
        o.violation(sig, format!("step {} {}: {}", step, what, bad.join("; ")));
    }
}

async fn run_handshake(case: &HCase, ctx: &RunCtx) -> Outcome {
    let mut o = Outcome::default();
    let dir = ctx.case_dir("c19");
    let idents: Vec<Ident> = NAMES.iter().map(|n| ident(n)).collect();
    let s = match Peer::start_full("server", dv::syncworld::MODEL, dir.join("s"), &config(), Some(*idents[OWN].ms.public_key().as_bytes())).await {
        Ok(p) => p,
        Err(e) => {
            o.discard = Some(e);
            return o;
        }
    };
    assert_eq!(s.verifying_key, idents[OWN].key);
    let needs_victim = case.steps.iter().any(|st| match st {
        Step::Connect(c) => c.behaviour == 3,
        Step::Race(a, b) => a.behaviour == 3 || b.behaviour == 3,
        _ => false,
    });
    let mut victim = if needs_victim {
        match Victim::start(dir.join("v")).await {
            Ok(v) => Some(v),
            Err(e) => {
                o.discard = Some(e);
                return o;
            }
        }
    } else {
        None
    };
    // the meeting token two peers derive for each other (checked for the instances of this case too)
    let mut idents = idents;
    if let Some(v) = &victim {
        if let Ok(Some(n)) = v._peer.db.get_peer_node(v._peer.verifying_key.clone()).await {
            idents[0].node = n;
        }
    }
    let room_id64 = uid_encode(&s.private_room);
    let mut allowed = BTreeSet::new();
    for i in 0..N_REMOTE {
        let tok_s = idents[OWN].ms.token(&idents[i].ms.public_key());
        let tok_r = idents[i].ms.token(&idents[OWN].ms.public_key());
        if tok_s != tok_r {
            o.violation("token-not-symmetric", format!("identity {}", i));
        }
        if case.allowed & (1 << i) != 0 {
            if let Err(e) = s.db.add_peer_nodes(vec![idents[i].node.clone()]).await {
                o.discard = Some(format!("peer row: {}", e));
                return o;
            }
            if let Err(e) = AllowedPeer::add(&room_id64, &idents[i].key64, &b64(&tok_s), Status::Enabled, &s.db).await {
                o.discard = Some(format!("allowed peer: {}", e));
                return o;
            }
            allowed.insert(i);
        }
    }
    // one room per remote identity (what "its rooms" are), and the default room of invitations
    let mut room_of = vec![];
    for i in 0..=N_REMOTE {
        Clock::advance(3);
        let mut p = Parameters::new();
        p.add("me", s.key64()).unwrap();
        p.add("k", if i < N_REMOTE { idents[i].key64.clone() } else { s.key64() }).unwrap();
        let res = s
            .mutate(
                "mutate { sys.Room { admin:[{verif_key:$me}] authorisations:[{ name:\"g\" rights:[{entity:\"*\" mutate_self:true mutate_all:true}] users:[{verif_key:$k}] }] } }",
                Some(p),
            )
            .await;
        match res {
            Ok(js) => {
                let v: serde_json::Value = serde_json::from_str(&js).unwrap();
                room_of.push((
                    uid_of(v["sys.Room"]["id"].as_str().unwrap()),
                    v["sys.Room"]["id"].as_str().unwrap().to_string(),
                    v["sys.Room"]["authorisations"][0]["id"].as_str().unwrap().to_string(),
                ));
            }
            Err(e) => {
                o.discard = Some(format!("room: {}", e));
                return o;
            }
        }
    }
    let (room_d, room_d64, auth_d64) = room_of.pop().unwrap();
    let hw = HardwareFingerprint { id: [9; 16], name: "hw".into() };
    let params = DiscretParams {
        app_key: APP.to_string(),
        verifying_key: s.verifying_key.clone(),
        private_room_id: s.private_room,
        hardware_fingerprint: hw.clone(),
        configuration: config(),
    };
    let params_again = params.clone();
    let svc = match PeerConnectionService::start(&params, &s.services(), meeting_secret("server")).await {
        Ok(x) => x,
        Err(e) => {
            o.discard = Some(format!("service: {}", e));
            return o;
        }
    };
    let own_token = match s.db.get_allowed_peers(s.private_room).await {
        Ok(list) => list
            .iter()
            .find(|a| a.peer.verifying_key == s.key64())
            .and_then(|a| MeetingSecret::decode_token(&a.meeting_token).ok())
            .unwrap_or([0x57; 7]),
        Err(_) => [0x57; 7],
    };
    let events = s.events.subcribe().await;
    let mut w = World {
        s,
        svc,
        hw,
        idents,
        own_token,
        room_of: room_of.iter().map(|r| r.0).collect(),
        room_d,
        room_d64,
        auth_d64,
        owned: vec![],
        accepted: vec![],
        allowed,
        events,
        n_conn: 0,
        conns: BTreeMap::new(),
    };
    w.fence().await;
    let mut seen = BTreeSet::new();
    let mut nontrivial = false;
    let mut before = w.db_state().await;
    for (i, step) in case.steps.iter().enumerate() {
        Clock::advance(5);
        match step {
            Step::Restart => {
                // the previous service keeps running but receives nothing any more
                w.fence().await;
                match PeerConnectionService::start(&params_again, &w.s.services(), meeting_secret("server")).await {
                    Ok(x) => {
                        w.svc = x;
                        o.label("service-restarted");
                    }
                    Err(e) => {
                        o.discard = Some(format!("service restart: {}", e));
                        return o;
                    }
                }
                w.fence().await;
                before = w.db_state().await;
            }
            Step::CreateInvite { default_room } => {
                let (tx, rx) = oneshot::channel();
                let dr = default_room.then(|| DefaultRoom { room: w.room_d64.clone(), authorisation: w.auth_d64.clone() });
                let _ = w.svc.sender.send(PeerConnectionMessage::CreateInvite(dr, tx)).await;
                if let Ok(Ok(Ok(bytes))) = timeout(Duration::from_secs(20), rx).await {
                    if let Ok(inv) = bincode::deserialize::<Invite>(&bytes) {
                        let token = MeetingSecret::derive_token("P", &inv.invite_id);
                        if inv.application != APP {
                            o.violation("own-invite-names-other-application", format!("step {}", i));
                        }
                        w.owned.push(OwnedInv { id: inv.invite_id, token, default_room: *default_room, consumed_by: None });
                        o.count("invites-created", 1);
                    }
                }
                w.fence().await;
                before = w.db_state().await;
            }
            Step::AcceptInvite { inviter, app, mutation, pos, arg } => {
                let inviter = *inviter as usize % (N_REMOTE + 1);
                let application = match app {
                    0 => APP.to_string(),
                    1 => "another application".to_string(),
                    _ => APP.to_uppercase(),
                };
                let invite_id = numbered_uid(0x1A, i as u32);
                let mut hasher = blake3::Hasher::new();
                hasher.update(&invite_id);
                hasher.update(application.as_bytes());
                let h = hasher.finalize();
                let signer = if *mutation == 4 { *arg as usize % (N_REMOTE + 1) } else { inviter };
                let inv = Invite { invite_id, application: application.clone(), invite_sign: w.idents[signer].signing.sign(h.as_bytes()) };
                let mut bytes = bincode::serialize(&inv).unwrap();
                match mutation {
                    1 => bytes.truncate(pick(*pos, bytes.len())),
                    2 => {
                        let p = pick(*pos, bytes.len());
                        bytes[p] ^= 1 << (arg % 8);
                    }
                    3 => bytes.extend_from_slice(&[*arg; 5]),
                    _ => {}
                }
                let decoded = bincode::deserialize::<Invite>(&bytes).ok();
                let _ = w.svc.sender.send(PeerConnectionMessage::AcceptInvite(bytes)).await;
                w.fence().await;
                let after = w.db_state().await;
                let mut may_add = BTreeSet::new();
                match &decoded {
                    Some(d) if d.application == APP => {
                        may_add.insert(uid_encode(&d.invite_id));
                        o.count("invite-bytes:acceptable", 1);
                    }
                    Some(_) => o.count("invite-bytes:other-application", 1),
                    None => o.count("invite-bytes:undecodable", 1),
                }
                let sig = match &decoded {
                    Some(d) if d.application != APP => "invite-for-other-application-accepted",
                    None => "undecodable-invite-accepted",
                    _ => "invite-acceptance-changed-other-state",
                };
                judge_delta(&mut o, i, "accepting invitation bytes", sig.to_string(), &before, &after, &BTreeSet::new(), &BTreeSet::new(), &BTreeSet::new(), &BTreeSet::new(), &may_add);
                if let Some(d) = decoded {
                    if after.invites.contains(&uid_encode(&d.invite_id)) && !w.accepted.iter().any(|a| a.id == d.invite_id) {
                        // who can consume it: the identity whose key verifies the signature over (id, application)
                        let mut hasher = blake3::Hasher::new();
                        hasher.update(&d.invite_id);
                        hasher.update(d.application.as_bytes());
                        let h = hasher.finalize();
                        let signer = (0..w.idents.len()).find(|k| {
                            import_verifying_key(&w.idents[*k].key).map(|vk| vk.verify(h.as_bytes(), &d.invite_sign).is_ok()).unwrap_or(false)
                        });
                        w.accepted.push(AcceptedInv { id: d.invite_id, token: MeetingSecret::derive_token("P", &d.invite_id), signer, consumed: false });
                        o.count("invites-held", 1);
                    }
                }
                before = after;
            }
            Step::Connect(spec) => {
                let (tok, token) = w.resolve(&spec.token);
                let exp = w.expected_ident(&tok);
                let claimed = match spec.claimed {
                    Some(c) => w.idents[c as usize % w.idents.len()].key.clone(),
                    None => exp.map(|e| w.idents[e].key.clone()).unwrap_or_else(|| w.idents[spec.prover as usize % w.idents.len()].key.clone()),
                };
                w.n_conn += 1;
                let mut conn = open(&w.svc, token, claimed.clone(), w.n_conn).await;
                let ob = {
                    let sc = Script { spec, idents: &w.idents, expected: exp };
                    drive(&mut conn, &sc, &mut victim).await
                };
                let cid = uid_encode(&conn.conn_id);
                drop(conn);
                w.fence().await;
                let after = w.db_state().await;
                let beh = BEHAVIOURS[spec.behaviour as usize % BEHAVIOURS.len()];
                let class = class_of(&tok, &w, &ob.proved);
                let entitled = judge_conn(&w, &mut o, i, spec, &tok, &claimed, &ob, &mut seen).await;
                w.conns.insert(cid, (entitled.clone(), sig_for(class, &tok, beh)));
                if ob.undecided {
                    before = after;
                    continue;
                }
                let mut may_allow = BTreeSet::new();
                let mut may_join = BTreeSet::new();
                let mut may_drop_owned = BTreeSet::new();
                let mut may_drop_inv = BTreeSet::new();
                if let Some(k) = &entitled {
                    match &tok {
                        Tok::Owned(n) => {
                            may_allow.insert(b64(k));
                            if w.owned[*n].default_room {
                                may_join.insert(b64(k));
                            }
                            may_drop_owned.insert(uid_encode(&w.owned[*n].id));
                        }
                        Tok::Accepted(n) => {
                            may_allow.insert(b64(k));
                            may_drop_inv.insert(uid_encode(&w.accepted[*n].id));
                        }
                        _ => {}
                    }
                }
                judge_delta(&mut o, i, "connection", sig_for(class, &tok, beh), &before, &after, &may_allow, &may_join, &may_drop_owned, &may_drop_inv, &BTreeSet::new());
                if entitled.is_none() && ob.challenged {
                    nontrivial = true;
                    o.label(format!("refused:{}", beh));
                }
                for (idx, id) in w.idents.iter().enumerate() {
                    if may_allow.contains(&id.key64) && after.allowed.contains(&id.key64) {
                        w.allowed.insert(idx);
                    }
                }
                // the model follows what was really consumed
                if let (Some(k), Tok::Owned(n)) = (&entitled, &tok) {
                    if after != before {
                        w.owned[*n].consumed_by = Some(k.clone());
                        o.count("owned-invite-consumed", 1);
                        o.label("invite-consumed");
                    }
                }
                if let (Some(_), Tok::Accepted(n)) = (&entitled, &tok) {
                    if after != before {
                        w.accepted[*n].consumed = true;
                        o.count("held-invite-consumed", 1);
                        o.label("held-invite-consumed");
                    }
                }
                if class == "consumed-invite-reused" {
                    o.label("consumed-invite-used-again");
                    nontrivial = true;
                }
                before = after;
            }
            Step::Race(a, b) => {
                let (tok_a, token_a) = w.resolve(&a.token);
                let (tok_b, token_b) = w.resolve(&b.token);
                let exp_a = w.expected_ident(&tok_a);
                let exp_b = w.expected_ident(&tok_b);
                let claimed_of = |spec: &ConnSpec, exp: Option<usize>| match spec.claimed {
                    Some(c) => w.idents[c as usize % w.idents.len()].key.clone(),
                    None => exp.map(|e| w.idents[e].key.clone()).unwrap_or_else(|| w.idents[spec.prover as usize % w.idents.len()].key.clone()),
                };
                let cl_a = claimed_of(a, exp_a);
                let cl_b = claimed_of(b, exp_b);
                let mut conn_a = open(&w.svc, token_a, cl_a.clone(), w.n_conn + 1).await;
                let mut conn_b = open(&w.svc, token_b, cl_b.clone(), w.n_conn + 2).await;
                w.n_conn += 2;
                // the relay victim serves one of the two
                let mut none: Option<Victim> = None;
                let (ob_a, ob_b) = {
                    let sc_a = Script { spec: a, idents: &w.idents, expected: exp_a };
                    let sc_b = Script { spec: b, idents: &w.idents, expected: exp_b };
                    if b.behaviour == 3 && a.behaviour != 3 {
                        tokio::join!(drive(&mut conn_a, &sc_a, &mut none), drive(&mut conn_b, &sc_b, &mut victim))
                    } else {
                        tokio::join!(drive(&mut conn_a, &sc_a, &mut victim), drive(&mut conn_b, &sc_b, &mut none))
                    }
                };
                let cid_a = uid_encode(&conn_a.conn_id);
                let cid_b = uid_encode(&conn_b.conn_id);
                drop(conn_a);
                drop(conn_b);
                w.fence().await;
                let after = w.db_state().await;
                let beh_a = BEHAVIOURS[a.behaviour as usize % BEHAVIOURS.len()];
                let beh_b = BEHAVIOURS[b.behaviour as usize % BEHAVIOURS.len()];
                let class_a = class_of(&tok_a, &w, &ob_a.proved);
                let class_b = class_of(&tok_b, &w, &ob_b.proved);
                let ent_a = judge_conn(&w, &mut o, i, a, &tok_a, &cl_a, &ob_a, &mut seen).await;
                let ent_b = judge_conn(&w, &mut o, i, b, &tok_b, &cl_b, &ob_b, &mut seen).await;
                w.conns.insert(cid_a, (ent_a.clone(), sig_for(class_a, &tok_a, beh_a)));
                w.conns.insert(cid_b, (ent_b.clone(), sig_for(class_b, &tok_b, beh_b)));
                o.label("racing-connections");
                if ob_a.undecided || ob_b.undecided {
                    before = after;
                    continue;
                }
                let mut may_allow = BTreeSet::new();
                let mut may_join = BTreeSet::new();
                let mut may_drop_owned = BTreeSet::new();
                let mut may_drop_inv = BTreeSet::new();
                for (ent, tok) in [(&ent_a, &tok_a), (&ent_b, &tok_b)] {
                    if let Some(k) = ent {
                        match tok {
                            Tok::Owned(n) => {
                                may_allow.insert(b64(k));
                                if w.owned[*n].default_room {
                                    may_join.insert(b64(k));
                                }
                                may_drop_owned.insert(uid_encode(&w.owned[*n].id));
                            }
                            Tok::Accepted(n) => {
                                may_allow.insert(b64(k));
                                may_drop_inv.insert(uid_encode(&w.accepted[*n].id));
                            }
                            _ => {}
                        }
                    }
                }
                // the unentitled side decides the signature when there is one
                let sig = if ent_a.is_none() {
                    sig_for(class_a, &tok_a, beh_a)
                } else {
                    sig_for(class_b, &tok_b, beh_b)
                };
                judge_delta(&mut o, i, "racing connections", sig, &before, &after, &may_allow, &may_join, &may_drop_owned, &may_drop_inv, &BTreeSet::new());
                for (idx, id) in w.idents.iter().enumerate() {
                    if may_allow.contains(&id.key64) && after.allowed.contains(&id.key64) {
                        w.allowed.insert(idx);
                    }
                }
                // one invitation, two different keys at the same time: one consumption
                if let (Tok::Owned(na), Tok::Owned(nb), Some(ka), Some(kb)) = (&tok_a, &tok_b, &ent_a, &ent_b) {
                    if na == nb && ka != kb {
                        nontrivial = true;
                        o.label("one-invite-two-keys-at-once");
                        let gained: Vec<&String> = after.allowed.difference(&before.allowed).collect();
                        let joined: Vec<&String> = after.room_d_members.difference(&before.room_d_members).collect();
                        if gained.len() > 1 || joined.len() > 1 {
                            o.violation(
                                "invite-consumed-twice:owned-invite:race",
                                format!("step {}: allowed peers added {:?}, default room members added {:?}", i, gained, joined),
                            );
                        }
                    }
                }
                for (ent, tok) in [(&ent_a, &tok_a), (&ent_b, &tok_b)] {
                    if let (Some(k), Tok::Owned(n)) = (ent, tok) {
                        if after != before && w.owned[*n].consumed_by.is_none() {
                            // whoever of the two was added
                            let who = if after.allowed.contains(&b64(k)) && !before.allowed.contains(&b64(k)) { Some(k.clone()) } else { None };
                            if who.is_some() || !after.owned.contains(&uid_encode(&w.owned[*n].id)) {
                                w.owned[*n].consumed_by = Some(who.unwrap_or_default());
                            }
                        }
                    }
                    if let (Some(_), Tok::Accepted(n)) = (ent, tok) {
                        if after != before {
                            w.accepted[*n].consumed = true;
                        }
                    }
                }
                if (ent_a.is_none() && ob_a.challenged) || (ent_b.is_none() && ob_b.challenged) {
                    nontrivial = true;
                }
                before = after;
            }
        }
    }
    // connection reports: every "peer connected" event names a connection that was entitled to that key
    w.fence().await;
    tokio::time::sleep(Duration::from_millis(30)).await;
    w.fence().await;
    loop {
        match w.events.try_recv() {
            Ok(Event::PeerConnected(key, _, conn_id)) => {
                o.count("peer-connected-events", 1);
                match w.conns.get(&conn_id) {
                    Some((Some(k), _)) if *k == key => {}
                    Some((_, sig)) => o.violation(sig.clone(), format!("connection {} reported as connected peer {}", conn_id, b64(&key))),
                    None => o.violation("connected-event-for-unknown-connection", format!("{} {}", conn_id, b64(&key))),
                }
            }
            Ok(_) => {}
            Err(tokio::sync::broadcast::error::TryRecvError::Lagged(_)) => {}
            Err(_) => break,
        }
    }
    // an invitation of S is consumed by one key at most over the whole history
    o.nontrivial = nontrivial;
    let _ = std::fs::remove_dir_all(&dir);
    o
}

impl Property for C19 {
    type Case = Case;
    const ID: &'static str = "C19";
    fn plan(tier: Tier) -> Plan {
        match tier {
            Tier::Quick => Plan { shards: 16, cases_per_shard: 70, max_shrink_iters: 120 },
            Tier::Thorough => Plan { shards: 16, cases_per_shard: 900, max_shrink_iters: 300 },
        }
    }
    fn strategy(tier: Tier) -> BoxedStrategy<Case> {
        let (steps, slow) = match tier {
            Tier::Quick => (9, 0),
            Tier::Thorough => (16, 1),
        };
        prop_oneof![
            5 => hcase_strategy(steps, slow),
            2 => tokens::strategy().prop_map(Case::Tokens),
        ]
        .boxed()
    }
    fn fixed_cases(_tier: Tier) -> Vec<Case> {
        let c = |token: TokenSel, prover: u8, behaviour: u8| ConnSpec { token, claimed: None, prover, behaviour, arg: 3 };
        vec![
            // the slow behaviours once per run: no answer, answer after the timeout
            Case::Handshake(HCase {
                allowed: 3,
                steps: vec![
                    Step::Race(c(TokenSel::Allowed(1), 1, 8), c(TokenSel::Allowed(0), 0, 9)),
                    Step::Race(c(TokenSel::Allowed(1), 1, 7), c(TokenSel::Owned(0), 4, 7)),
                    Step::Connect(c(TokenSel::Allowed(1), 1, 0)),
                ],
            }),
            // an invitation used by a second key after it was consumed, and by two keys at once
            Case::Handshake(HCase {
                allowed: 1,
                steps: vec![
                    Step::CreateInvite { default_room: true },
                    Step::Connect(c(TokenSel::Owned(0), 2, 0)),
                    Step::Connect(c(TokenSel::Owned(0), 3, 0)),
                    Step::Restart,
                    Step::Connect(c(TokenSel::Owned(0), 4, 0)),
                    Step::CreateInvite { default_room: true },
                    Step::Race(c(TokenSel::Owned(u16::MAX), 1, 0), c(TokenSel::Owned(u16::MAX), 4, 0)),
                ],
            }),
        ]
    }
    fn run(case: &Case, ctx: &RunCtx) -> Outcome {
        match case {
            Case::Tokens(t) => tokens::run(t),
            Case::Handshake(h) => {
                begin_case(1);
                let rt = runtime();
                let out = rt.block_on(run_handshake(h, ctx));
                rt.shutdown_timeout(Duration::from_millis(200));
                out
            }
        }
    }
    fn rule() -> String {
        "Handshake cases: a real instance S runs the real peer connection service (token map, invitations, handshake, inbound query service); r0..r3 are allowed peers by a generated mask, each the only user of one room of S; generated histories create invitations (with / without default room), hand S invitation bytes (made by any identity, for this or another application, truncated / bit-flipped / extended / signed by somebody else), and open connections (alone or two at once) with a chosen token (allowed peer, owned invitation, held invitation, own device, unknown), announced key, prover and remote behaviour (honest, impostor with the victim's row, replayed answer, challenge relayed to r0's real instance, malformed peer rows, failure / garbage / wrong-id answers, silence, late answer, damaged signature). Oracle: the harness decides from what it sent whether possession of a key was proved over this connection's challenge; readiness announcements, rooms served to the connection, 'peer connected' events, new allowed peers, new default-room members and removed invitations must all be covered by that proof and the model's token state (allowed peer: the token's key; owned invitation: any proved key, once; held invitation: the key that signed it, once). Token cases: generated secrets (with clamping-equivalent variants), symmetry of the pair token, distinctness between pairs with different public keys and from own-device tokens, invitation tokens by id. Non-trivial = a challenged connection that was not entitled, a consumed invitation used again, one invitation used by two keys at once, or a token case with at least three distinct public keys; distinct = distinct case digest".to_string()
    }
    fn assumptions() -> Vec<String> {
        vec![
            "connections are injected at PeerConnectionMessage::NewConnection with in-memory channels (the QUIC transport and its certificate pinning are not run)".into(),
            "a 'peer connected' event still in flight when the case ends is missed (never a false alarm)".into(),
            "collisions of the 7-byte tokens between unrelated pairs are treated as impossible (probability < 1e-9 over a thorough run)".into(),
            "the own-device path (same key, hardware fingerprint validation) is exercised but only its impostor side is judged".into(),
        ]
    }
}

fn main() {
    main_for::<C19>()
}
