//! C09: the daily log is a function of the stored content, nothing else.
use dv::engine::*;
use dv::props::sync::{case_strategy, SyncCase};
use dv::syncworld::*;
use dv::world::*;
use proptest::strategy::BoxedStrategy;
use std::collections::{BTreeMap, BTreeSet};

struct C09;

type Key = (String, String, i64); // room, entity, day

/// independent model: (entry count, hash over the sorted signatures) per (room, entity, day)
fn model(s: &Snapshot) -> BTreeMap<Key, (i64, String)> {
    let mut sigs: BTreeMap<Key, Vec<Vec<u8>>> = BTreeMap::new();
    let day = |t: i64| t.div_euclid(DAY) * DAY;
    for n in &s.nodes {
        if let Some(r) = &n.room {
            sigs.entry((r.clone(), n.entity.clone(), day(n.mdate))).or_default().push(unb64(&n.sig));
        }
    }
    for d in &s.node_dels {
        sigs.entry((d.room.clone(), d.entity.clone(), day(d.deletion_date))).or_default().push(unb64(&d.sig));
    }
    for d in &s.edge_dels {
        sigs.entry((d.room.clone(), d.src_entity.clone(), day(d.deletion_date))).or_default().push(unb64(&d.sig));
    }
    let mut out = BTreeMap::new();
    for (k, mut v) in sigs {
        v.sort();
        let mut h = blake3::Hasher::new();
        for s in &v {
            h.update(s);
        }
        out.insert(k, (v.len() as i64, b64(h.finalize().as_bytes())));
    }
    out
}

fn check_log(peer: &str, s: &Snapshot, when: &str, out: &mut Outcome) {
    let m = model(s);
    let mut rows: BTreeMap<Key, &LogRow> = BTreeMap::new();
    for l in &s.log {
        rows.insert((l.room.clone(), l.entity.clone(), l.date), l);
        if l.need_recompute == Some(1) {
            out.violation(
                "pending-recompute-after-fence",
                format!("{} {}: row {:?} still needs recomputation", peer, when, l),
            );
        }
    }
    for (k, (count, hash)) in &m {
        match rows.get(k) {
            None => out.violation(
                "log-row-missing",
                format!("{} {}: no _daily_log row for {:?} although {} entries are stored", peer, when, k, count),
            ),
            Some(l) => {
                if l.entry_number != *count {
                    out.violation(
                        if l.entry_number > *count { "entry-count-stale-high" } else { "entry-count-stale-low" },
                        format!("{} {}: {:?} log says {} entries, stored {}", peer, when, k, l.entry_number, count),
                    );
                } else if l.daily_hash.as_deref() != Some(hash.as_str()) {
                    out.violation(
                        "daily-hash-differs-from-content",
                        format!("{} {}: {:?} hash {:?} expected {}", peer, when, k, l.daily_hash, hash),
                    );
                }
            }
        }
    }
    for (k, l) in &rows {
        if !m.contains_key(k) && (l.entry_number != 0 || l.daily_hash.is_some()) {
            out.violation(
                "log-row-for-empty-day",
                format!("{} {}: {:?} has entry_number {} hash {:?} but nothing is stored for that day", peer, when, k, l.entry_number, l.daily_hash),
            );
        }
    }
}

fn norm_log(s: &Snapshot, room: &str) -> Vec<(String, i64, i64, Option<String>, Option<String>)> {
    s.log
        .iter()
        .filter(|l| l.room == room && !(l.entry_number == 0 && l.daily_hash.is_none()))
        .map(|l| (l.entity.clone(), l.date, l.entry_number, l.daily_hash.clone(), l.history_hash.clone()))
        .collect()
}

impl Property for C09 {
    type Case = SyncCase;
    const ID: &'static str = "C09";
    fn plan(tier: Tier) -> Plan {
        match tier {
            Tier::Quick => Plan { shards: 16, cases_per_shard: 60, max_shrink_iters: 200 },
            Tier::Thorough => Plan { shards: 16, cases_per_shard: 2000, max_shrink_iters: 400 },
        }
    }
    fn strategy(tier: Tier) -> BoxedStrategy<SyncCase> {
        match tier {
            Tier::Quick => case_strategy(35, 3, false),
            Tier::Thorough => case_strategy(70, 3, false),
        }
    }
    fn run(case: &SyncCase, ctx: &RunCtx) -> Outcome {
        begin_case(1);
        let dir = ctx.case_dir("c09");
        let rt = runtime();
        let out = rt.block_on(async {
            let mut o = Outcome::default();
            let mut w = match SyncWorld::start(case.peers as usize, case.rooms as usize, &dir).await {
                Ok(w) => w,
                Err(e) => {
                    o.discard = Some(format!("world-start:{}", e));
                    return o;
                }
            };
            // mode 0 excludes the shapes of C03's known findings; here all modes are of interest,
            // the log must describe the content whatever the content is
            w.single_entity = false;
            w.no_double_delete = case.mode == 0;
            let mut day_change = false;
            let mut old_row_deleted = false;
            let mut batched_sync = 0;
            let mut seen: BTreeSet<String> = BTreeSet::new();
            for (i, op) in case.ops.iter().enumerate() {
                let before_day = Clock::get() / DAY;
                let info = w.apply(op).await;
                if !info.applied {
                    continue;
                }
                o.count(&format!("op:{}", info.kind), 1);
                if Clock::get() / DAY != before_day {
                    day_change = true;
                }
                if matches!(info.kind, "update" | "move" | "set-parent" | "null-parent" | "add-link" | "delete-link") && day_change {
                    o.label("write-on-row-of-earlier-day-possible");
                }
                if info.kind == "delete-node" && day_change {
                    old_row_deleted = true;
                }
                if info.kind.starts_with("sync") {
                    for st in &info.stats {
                        if st.rows() > 1 {
                            batched_sync += 1;
                        }
                    }
                }
                for p in &w.peers {
                    p.fence().await;
                    let s = p.snapshot().await.user_data();
                    if std::env::var("DV_TRACE").is_ok() {
                        let short = |x: &str| x.chars().skip(2).take(4).collect::<String>();
                        let lg: Vec<String> = s.log.iter().map(|l| format!("r{}e{}d{}n{}h{}H{}", short(&l.room), l.entity, l.date / DAY % 1000, l.entry_number, l.daily_hash.as_deref().map(short).unwrap_or("-".into()), l.history_hash.as_deref().map(short).unwrap_or("-".into()))).collect();
                        println!("step {} {:?} {}: {:?}", i, op, p.name, lg);
                    }
                    let mut tmp = Outcome::default();
                    check_log(&p.name, &s, &format!("after step {} {:?}", i, op), &mut tmp);
                    for v in tmp.violations {
                        if seen.insert(format!("{}{}", v.signature, p.name)) {
                            o.violations.push(v);
                        }
                    }
                }
            }
            o.nontrivial = day_change && (old_row_deleted || batched_sync > 0 || o.labels.iter().any(|l| l.starts_with("write-on-row")));
            if old_row_deleted {
                o.label("deletion-of-row-from-earlier-day");
            }
            if batched_sync > 0 {
                o.label("sync-batch-with-several-rows");
            }
            o.label(format!("mode:{}", case.mode));

            // (A') incremental log == the system's own full recomputation (history hash included)
            for p in &w.peers {
                p.fence().await;
                let before = p.snapshot().await.user_data();
                let _ = p
                    .write_sql(|c| {
                        c.execute("UPDATE _daily_log SET need_recompute = 1, daily_hash = NULL", [])?;
                        Ok(())
                    })
                    .await;
                p.recompute().await;
                let after = p.snapshot().await.user_data();
                if before.log != after.log {
                    let a: BTreeSet<_> = before.log.iter().collect();
                    let b: BTreeSet<_> = after.log.iter().collect();
                    let d: Vec<_> = a.symmetric_difference(&b).collect();
                    let only_history = d.iter().all(|l| {
                        let other = if a.contains(*l) { &after.log } else { &before.log };
                        other.iter().any(|x| {
                            x.room == l.room && x.entity == l.entity && x.date == l.date
                                && x.entry_number == l.entry_number && x.daily_hash == l.daily_hash
                        })
                    });
                    o.violation(
                        if only_history { "history-hash-depends-on-recompute-batching" } else { "incremental-log-differs-from-full-recompute" },
                        format!("{}: {:?}", p.name, d.iter().take(2).collect::<Vec<_>>()),
                    );
                }
            }
            // (C) equal content => equal logs (after the full recomputation above, and before it
            // as far as count and daily hash go: already implied by the model check)
            let snaps: Vec<Snapshot> = {
                let mut v = vec![];
                for p in &w.peers {
                    v.push(p.snapshot().await.user_data());
                }
                v
            };
            for r in &w.rooms64 {
                for a in 0..snaps.len() {
                    for b in (a + 1)..snaps.len() {
                        let ca = snaps[a].for_room(r);
                        let cb = snaps[b].for_room(r);
                        if ca.nodes == cb.nodes && ca.node_dels == cb.node_dels && ca.edge_dels == cb.edge_dels {
                            o.count("equal-content-pairs", 1);
                            if norm_log(&snaps[a], r) != norm_log(&snaps[b], r) {
                                o.violation(
                                    "equal-content-different-logs",
                                    format!("{} and {} hold the same rows of room {} but their logs differ: {:?} vs {:?}",
                                        w.peers[a].name, w.peers[b].name, r, norm_log(&snaps[a], r), norm_log(&snaps[b], r)),
                                );
                            }
                        }
                    }
                }
            }
            o
        });
        drop(rt);
        let _ = std::fs::remove_dir_all(&dir);
        out
    }
    fn rule() -> String {
        "proptest histories over 2-3 real instances, 1-2 rooms, 2 entities, several days (writes, room moves, reference changes, deletions of rows of earlier days, pulls of every batching incl. interrupted ones, explicit recompute points); after EVERY applied step and a recompute fence each peer's _daily_log is compared with an independent model (entry count and hash over the sorted signatures of the stored rows and deletion records per room/entity/day); at the end the log must equal the system's own full recomputation (history hash included) and peers holding equal room content must hold equal logs; non-trivial = the clock crossed a day boundary and (a row of an earlier day was deleted or changed, or a pull delivered several rows); distinct = distinct case digest".to_string()
    }
    fn assumptions() -> Vec<String> {
        vec![
            "the daily hash formula (blake3 over the signatures sorted bytewise) is taken from the documented behaviour and re-implemented in the harness".into(),
            "the history hash is checked only metamorphically (incremental == full recompute, equal content => equal history)".into(),
        ]
    }
}
fn main() {
    main_for::<C09>()
}
