//! Adversarial inputs against a running instance (`dv::world::Peer`): requests through the public
//! API, wire queries through the real `process_inbound`, rows through the verification service
//! and the ingestion calls, invitation bytes, answers of a hostile server through the real
//! `QueryService` / `synchronise_room`. After every input the fixed probe must be answered.

use crate::shared::{self, check_probe_answer, panic_signature, take_panics, PanicRec};
use discret::verif as dvv;
use dv::engine::{pick, Outcome};
use dv::world::*;
use dvv::database::edge::{Edge, EdgeDeletionEntry};
use dvv::database::node::{Node, NodeDeletionEntry, NodeIdentifier};
use dvv::database::system_entities::Invite;
use dvv::security::{Ed25519SigningKey, HardwareFingerprint, SigningKey, Uid};
use dvv::signature_verification_service::SignatureVerificationService;
use dvv::synchronisation::peer_inbound_service::{LocalPeerService, QueryService};
use dvv::synchronisation::peer_outbound_service::{InboundQueryService, RemotePeerHandle};
use dvv::synchronisation::{Answer, Query, QueryProtocol};
use proptest::prelude::*;
use serde::{Deserialize, Serialize};
use std::collections::HashSet;
use std::path::PathBuf;
use std::sync::atomic::AtomicBool;
use std::sync::Arc;
use std::time::Duration;
use tokio::sync::{mpsc, Mutex};

pub const APP_MODEL: &str = "app { Item { name: String, n: Integer nullable, data: Json nullable, parent: app.Item nullable, kids: [app.Item] } Note(no_full_text_index) { text: String default \"\", bin: Base64 nullable } }";

pub const STEP_TIMEOUT: Duration = Duration::from_secs(20);

// ---------------------------------------------------------------------------------------------
// specs
// ---------------------------------------------------------------------------------------------

#[derive(Clone, Debug, Serialize, Deserialize)]
pub enum BytesSpec {
    Good,
    Empty,
    Short(u8),
    Long(u16),
    /// the good value with its first byte replaced
    FirstByte(u8),
    /// the good value with one byte xored
    Flip(u16, u8),
    /// the good value with bytes appended
    Extended(u8),
    Raw(Vec<u8>),
}

pub fn bytes_strategy() -> impl Strategy<Value = BytesSpec> {
    prop_oneof![
        5 => Just(BytesSpec::Good),
        3 => Just(BytesSpec::Empty),
        2 => any::<u8>().prop_map(BytesSpec::Short),
        1 => (0u16..2000).prop_map(BytesSpec::Long),
        2 => any::<u8>().prop_map(BytesSpec::FirstByte),
        2 => (any::<u16>(), 1u8..=255).prop_map(|(a, b)| BytesSpec::Flip(a, b)),
        1 => (1u8..40).prop_map(BytesSpec::Extended),
        1 => prop::collection::vec(any::<u8>(), 0..70).prop_map(BytesSpec::Raw),
    ]
}

pub fn apply_bytes(spec: &BytesSpec, good: &[u8]) -> Vec<u8> {
    match spec {
        BytesSpec::Good => good.to_vec(),
        BytesSpec::Empty => vec![],
        BytesSpec::Short(n) => {
            let n = (*n as usize) % good.len().max(1);
            good[..n].to_vec()
        }
        BytesSpec::Long(n) => {
            let mut v = good.to_vec();
            v.resize(good.len() + 1 + *n as usize, 0xAB);
            v
        }
        BytesSpec::FirstByte(b) => {
            let mut v = good.to_vec();
            if !v.is_empty() {
                v[0] = if *b == v[0] { b.wrapping_add(1) } else { *b };
            }
            v
        }
        BytesSpec::Flip(i, x) => {
            let mut v = good.to_vec();
            if !v.is_empty() {
                let k = pick(*i, v.len());
                v[k] ^= *x;
            }
            v
        }
        BytesSpec::Extended(n) => {
            let mut v = good.to_vec();
            v.extend(std::iter::repeat(7u8).take(*n as usize));
            v
        }
        BytesSpec::Raw(v) => v.clone(),
    }
}

pub const DATES: &[i64] = &[
    T0,
    T0 + DAY,
    T0 - DAY,
    0,
    -1,
    1,
    i64::MAX,
    i64::MIN,
    8_210_266_876_799_999,
    8_210_266_876_800_000,
    -8_334_601_228_800_000,
    -8_334_601_228_800_001,
    i64::MAX - DAY,
    4_102_444_800_000,
];

#[derive(Clone, Copy, Debug, Serialize, Deserialize)]
pub enum RoomSel {
    Shared,
    Private,
    Unknown,
    Zero,
}
#[derive(Clone, Copy, Debug, Serialize, Deserialize)]
pub enum EntSel {
    Item,
    Note,
    Sys(u8),
    Empty,
    Unknown,
    Long,
    Odd(u8),
}

fn room_sel() -> impl Strategy<Value = RoomSel> {
    prop_oneof![6 => Just(RoomSel::Shared), 2 => Just(RoomSel::Private), 1 => Just(RoomSel::Unknown), 1 => Just(RoomSel::Zero)]
}
fn ent_sel() -> impl Strategy<Value = EntSel> {
    prop_oneof![
        5 => Just(EntSel::Item),
        2 => Just(EntSel::Note),
        2 => any::<u8>().prop_map(EntSel::Sys),
        1 => Just(EntSel::Empty),
        1 => Just(EntSel::Unknown),
        1 => Just(EntSel::Long),
        2 => any::<u8>().prop_map(EntSel::Odd),
    ]
}

#[derive(Clone, Debug, Serialize, Deserialize)]
pub struct QSpec {
    pub kind: u8,
    pub id: u64,
    pub room: RoomSel,
    pub ent: EntSel,
    pub date: u8,
    /// ids: index into the rows of the world, or an unknown id
    pub ids: Vec<Option<u16>>,
    pub many: u16,
    pub challenge: BytesSpec,
}

fn qspec_strategy() -> impl Strategy<Value = QSpec> {
    (
        any::<u8>(),
        prop_oneof![Just(0u64), Just(u64::MAX), any::<u64>()],
        room_sel(),
        ent_sel(),
        any::<u8>(),
        prop::collection::vec(prop::option::weighted(0.7, any::<u16>()), 0..4),
        prop_oneof![4 => Just(0u16), 1 => 1u16..3000],
        bytes_strategy(),
    )
        .prop_map(|(kind, id, room, ent, date, ids, many, challenge)| QSpec { kind, id, room, ent, date, ids, many, challenge })
}

#[derive(Clone, Debug, Serialize, Deserialize)]
pub struct RowSpec {
    /// 0 node, 1 edge, 2 node deletion, 3 edge deletion
    pub kind: u8,
    /// 0 the instance's own key, 1 a foreign key, 2 not signed at all
    pub signer: u8,
    pub key: BytesSpec,
    pub sig: BytesSpec,
    pub room: RoomSel,
    pub ent: EntSel,
    pub json: u8,
    pub cdate: u8,
    pub mdate: u8,
    /// existing row (index) or a new id
    pub target: Option<u16>,
    pub label: u8,
    pub binary: Option<BytesSpec>,
}

fn rowspec_strategy() -> impl Strategy<Value = RowSpec> {
    let any_row = (
        (0u8..4, 0u8..3, bytes_strategy(), bytes_strategy(), room_sel(), ent_sel()),
        (any::<u8>(), any::<u8>(), any::<u8>(), prop::option::weighted(0.5, any::<u16>()), any::<u8>(), prop::option::weighted(0.2, bytes_strategy())),
    )
        .prop_map(|((kind, signer, key, sig, room, ent), (json, cdate, mdate, target, label, binary))| RowSpec {
            kind,
            signer,
            key,
            sig,
            room,
            ent,
            json,
            cdate,
            mdate,
            target,
            label,
            binary,
        });
    // rows that pass signature verification (signed by the instance's user or by the other user
    // of the room): what a hostile but authorised peer can send
    let signed_row = (
        (0u8..4, 0u8..2, prop_oneof![4 => Just(RoomSel::Shared), 1 => Just(RoomSel::Private), 1 => Just(RoomSel::Unknown)], prop_oneof![5 => Just(EntSel::Item), 2 => Just(EntSel::Note), 1 => ent_sel()]),
        (any::<u8>(), prop_oneof![3 => Just(0u8), 1 => any::<u8>()], prop_oneof![3 => Just(1u8), 1 => any::<u8>()], prop::option::weighted(0.4, any::<u16>()), 0u8..5, prop::option::weighted(0.1, bytes_strategy())),
    )
        .prop_map(|((kind, signer, room, ent), (json, cdate, mdate, target, label, binary))| RowSpec {
            kind,
            signer,
            key: BytesSpec::Good,
            sig: BytesSpec::Good,
            room,
            ent,
            json,
            cdate,
            mdate,
            target,
            label,
            binary,
        });
    prop_oneof![3 => any_row, 2 => signed_row]
}

#[derive(Clone, Debug, Serialize, Deserialize)]
pub enum Step {
    /// a structured query, serialised, optionally damaged, decoded, served
    Query { q: QSpec, flips: Vec<(u16, u8)>, truncate: Option<u16> },
    /// arbitrary bytes decoded as QueryProtocol and served when they decode
    RawQuery(Vec<u8>),
    Row(RowSpec),
    /// invitation: structured (application matches or not, signature bytes) then damaged, or raw
    Invite { app_ok: bool, sign: BytesSpec, flips: Vec<(u16, u8)>, truncate: Option<u16>, raw: Option<Vec<u8>> },
    VerifyHash { sig: BytesSpec, key: BytesSpec },
    /// a request text through the public API of the instance
    Api { kind: u8, text: String, params: String },
    /// a data model text through update_data_model of the running instance
    ModelUpdate(String),
    /// a text derived from a grammar at run time (0 model, 1 query, 2 mutation, 3 deletion) and
    /// given to the public API of the instance; a model text is appended to the current model
    /// when `keep` is set (otherwise it replaces it, which the instance must refuse)
    Derived { target: u8, dna: Vec<u8>, muts: Vec<crate::pest_gen::Mutation>, keep: bool },
}

/// how `Step::Derived` gets its text (the grammars live in main.rs)
pub type Deriver = dyn Fn(u8, &[u8], &[crate::pest_gen::Mutation]) -> String;

pub fn step_strategy() -> impl Strategy<Value = Step> {
    let flips = || prop::collection::vec((any::<u16>(), 1u8..=255), 0..3);
    prop_oneof![
        6 => (qspec_strategy(), flips(), prop::option::weighted(0.1, any::<u16>())).prop_map(|(q, flips, truncate)| Step::Query { q, flips, truncate }),
        2 => prop::collection::vec(any::<u8>(), 0..64).prop_map(Step::RawQuery),
        6 => rowspec_strategy().prop_map(Step::Row),
        2 => (any::<bool>(), bytes_strategy(), flips(), prop::option::weighted(0.1, any::<u16>()), prop::option::weighted(0.2, prop::collection::vec(any::<u8>(), 0..80)))
            .prop_map(|(app_ok, sign, flips, truncate, raw)| Step::Invite { app_ok, sign, flips, truncate, raw }),
        2 => (bytes_strategy(), bytes_strategy()).prop_map(|(sig, key)| Step::VerifyHash { sig, key }),
        3 => (0u8..4, prop::collection::vec(any::<u8>(), 0..120), prop::collection::vec(crate::mutation_strategy(), 0..3), any::<bool>())
            .prop_map(|(target, dna, muts, keep)| Step::Derived { target, dna, muts, keep }),
    ]
}

// ---------------------------------------------------------------------------------------------
// the world
// ---------------------------------------------------------------------------------------------

pub struct World {
    pub rt: tokio::runtime::Runtime,
    pub peer: Peer,
    pub dir: PathBuf,
    pub generation: u32,
    pub model: String,
    pub shared_room: Uid,
    pub shared_room64: String,
    /// (id, short entity name) of rows of the shared room
    pub rows: Vec<(Uid, String)>,
    pub allowed: HashSet<Uid>,
    pub foreign: Ed25519SigningKey,
    pub probe_n: u64,
    pub good_sig: (Vec<u8>, [u8; 32]),
    pub restarts: u64,
}

pub enum Guarded<T> {
    Done(T),
    Panicked,
    TimedOut,
}

impl World {
    pub fn start(dir: PathBuf, model: &str) -> Result<World, String> {
        begin_case(1);
        let rt = runtime();
        let full_model = format!("{}\n{}", model, shared::PROBE_MODEL);
        let peer = rt.block_on(Peer::start("c14", &full_model, dir.join("g0")))?;
        let foreign = shared::signing_key("foreign");
        let hash = *blake3::hash(b"c14 probe hash").as_bytes();
        let good_sig = (peer.signing_key.sign(&hash), hash);
        let mut w = World {
            rt,
            peer,
            dir,
            generation: 0,
            model: full_model,
            shared_room: [0; 16],
            shared_room64: String::new(),
            rows: vec![],
            allowed: HashSet::new(),
            foreign,
            probe_n: 0,
            good_sig,
            restarts: 0,
        };
        w.populate()?;
        Ok(w)
    }

    fn populate(&mut self) -> Result<(), String> {
        let peer = &self.peer;
        let foreign_key = b64(&self.foreign.export_verifying_key());
        let (room, rows, allowed) = self.rt.block_on(async {
            Clock::advance(1);
            let mut p = Parameters::new();
            p.add("admin", peer.key64()).unwrap();
            p.add("u0", peer.key64()).unwrap();
            p.add("u1", foreign_key).unwrap();
            let res = peer
                .mutate(
                    "mutate { sys.Room{ admin: [{verif_key:$admin}] authorisations:[{ name:\"all\" rights:[{entity:\"*\" mutate_self:true mutate_all:true}] users:[{verif_key:$u0},{verif_key:$u1}] }] } }",
                    Some(p),
                )
                .await?;
            let v: serde_json::Value = serde_json::from_str(&res).map_err(|e| e.to_string())?;
            let room64 = v["sys.Room"]["id"].as_str().ok_or("room id")?.to_string();
            let room = uid_of(&room64);
            let mut rows = Vec::new();
            if self.model.contains("app {") {
                Clock::advance(1);
                let mut p = Parameters::new();
                p.add("room", room64.clone()).unwrap();
                let res = peer
                    .mutate(
                        "mutate { app.Item { room_id:$room name:\"root\" data:\"{\\\"a\\\":1}\" kids:[{name:\"k1\"},{name:\"k2\"}] } app.Note { room_id:$room text:\"note\" } }",
                        Some(p),
                    )
                    .await?;
                for id in crate::model::ids_of_result(&res) {
                    rows.push(uid_of(&id));
                }
            }
            peer.fence().await;
            // short names of the rows
            let ids = rows.clone();
            let rows: Vec<(Uid, String)> = peer
                .sql(move |c| {
                    ids.iter()
                        .filter_map(|id| c.query_row("SELECT _entity FROM _node WHERE id=?", [id], |r| r.get::<_, String>(0)).ok().map(|e| (*id, e)))
                        .collect()
                })
                .await;
            // allowed rooms exactly as a connection computes them
            let (tx, mut rx) = mpsc::channel::<Answer>(64);
            let mut handle = RemotePeerHandle { allowed_room: HashSet::new(), db: peer.db.clone(), verifying_key: peer.verifying_key.clone(), reply: tx };
            let key = Arc::new(Mutex::new(peer.verifying_key.clone()));
            let ready = Arc::new(AtomicBool::new(true));
            let fp = HardwareFingerprint { id: [7; 16], name: "dv".into() };
            let drain = async { while let Some(a) = rx.recv().await { if a.complete { break; } } };
            let serve = InboundQueryService::process_inbound(QueryProtocol { id: 1, query: Query::RoomList }, &mut handle, &key, &ready, &fp);
            let (r, _) = tokio::join!(serve, drain);
            r.map_err(|e| format!("room list: {}", e))?;
            Ok::<_, String>(((room, room64), rows, handle.allowed_room.clone()))
        })?;
        self.shared_room = room.0;
        self.shared_room64 = room.1;
        self.rows = rows;
        self.allowed = allowed;
        Ok(())
    }

    /// a panic killed a service thread of the instance: continue the case on a fresh instance
    pub fn restart(&mut self) -> Result<(), String> {
        self.generation += 1;
        self.restarts += 1;
        let dir = self.dir.join(format!("g{}", self.generation));
        let peer = self.rt.block_on(Peer::start("c14", &self.model, dir))?;
        self.peer = peer;
        self.populate()
    }

    /// runs a future on the runtime in its own task: a panic of the task is reported, not propagated
    pub fn guarded<T: Send + 'static>(&self, fut: impl std::future::Future<Output = T> + Send + 'static) -> Guarded<T> {
        self.rt.block_on(async {
            let h = tokio::spawn(fut);
            match tokio::time::timeout(STEP_TIMEOUT, h).await {
                Err(_) => Guarded::TimedOut,
                Ok(Ok(v)) => Guarded::Done(v),
                Ok(Err(e)) => {
                    if e.is_panic() {
                        Guarded::Panicked
                    } else {
                        Guarded::TimedOut
                    }
                }
            }
        })
    }

    pub fn room_of(&self, r: RoomSel) -> Uid {
        match r {
            RoomSel::Shared => self.shared_room,
            RoomSel::Private => self.peer.private_room,
            RoomSel::Unknown => [0x5A; 16],
            RoomSel::Zero => [0; 16],
        }
    }

    pub fn entity_of(&self, e: EntSel) -> String {
        match e {
            EntSel::Item => self.rows.first().map(|r| r.1.clone()).unwrap_or("1.0".into()),
            EntSel::Note => self.rows.last().map(|r| r.1.clone()).unwrap_or("1.1".into()),
            EntSel::Sys(n) => format!("0.{}", n % 10),
            EntSel::Empty => String::new(),
            EntSel::Unknown => "9.9".into(),
            EntSel::Long => "9".repeat(5000),
            EntSel::Odd(n) => ["'", "1.0' OR '1'='1", "\u{0}", "é.ü", "1", ".", "1.", "-1.-1", "1.0\n"][*(&(n as usize)) % 9].to_string(),
        }
    }

    fn id_of(&self, sel: Option<u16>) -> Uid {
        match sel {
            Some(i) if !self.rows.is_empty() => self.rows[pick(i, self.rows.len())].0,
            _ => [0xEE; 16],
        }
    }

    pub fn build_query(&self, q: &QSpec) -> Query {
        let room = self.room_of(q.room);
        let ent = self.entity_of(q.ent);
        let date = DATES[q.date as usize % DATES.len()];
        let mut ids: Vec<Uid> = q.ids.iter().map(|i| self.id_of(*i)).collect();
        for k in 0..q.many {
            let mut id = [0u8; 16];
            id[0..2].copy_from_slice(&k.to_le_bytes());
            ids.push(id);
        }
        match q.kind % 13 {
            0 => Query::ProveIdentity(apply_bytes(&q.challenge, &[9u8; 32])),
            1 => Query::HardwareFingerprint(),
            2 => Query::RoomList,
            3 => Query::RoomDefinition(room),
            4 => Query::RoomNode(room),
            5 => Query::RoomLog(room),
            6 => Query::RoomLogAt(room, date),
            7 => Query::EdgeDeletionLog(room, ent, date),
            8 => Query::NodeDeletionLog(room, ent, date),
            9 => Query::RoomDailyNodes(room, ent, date),
            10 => Query::Nodes(room, ids),
            11 => Query::Edges(room, ids.into_iter().map(|i| (i, date)).collect()),
            _ => Query::PeersForRoom(room),
        }
    }

    /// serves one decoded query with the real handler, draining the answers concurrently.
    /// Returns (result text, number of answers, a final answer was seen)
    pub fn serve(&self, msg: QueryProtocol, remote_key: Vec<u8>) -> Guarded<(Result<(), String>, usize, bool)> {
        let db = self.peer.db.clone();
        let own_key = self.peer.verifying_key.clone();
        let allowed = self.allowed.clone();
        self.guarded(async move {
            let (tx, mut rx) = mpsc::channel::<Answer>(16);
            let mut handle = RemotePeerHandle { allowed_room: allowed, db, verifying_key: own_key, reply: tx };
            let key = Arc::new(Mutex::new(remote_key));
            let ready = Arc::new(AtomicBool::new(true));
            let fp = HardwareFingerprint { id: [7; 16], name: "dv".into() };
            let mut answers = 0usize;
            let mut complete = false;
            let res = {
                let fut = InboundQueryService::process_inbound(msg, &mut handle, &key, &ready, &fp);
                tokio::pin!(fut);
                loop {
                    tokio::select! {
                        r = &mut fut => break r,
                        a = rx.recv() => {
                            if let Some(a) = a {
                                answers += 1;
                                if a.complete || !a.success { complete = true; }
                            }
                        }
                    }
                }
            };
            while let Ok(a) = rx.try_recv() {
                answers += 1;
                if a.complete || !a.success {
                    complete = true;
                }
            }
            (res.map_err(|e| e.to_string()), answers, complete)
        })
    }

    /// the fixed probe on the instance: one mutation, one query, one signature verification
    pub fn probe(&mut self) -> Result<(), ProbeFail> {
        self.probe_n += 1;
        let name = format!("probe-{}-{}", self.generation, self.probe_n);
        let db = self.peer.db.clone();
        let sigs = self.peer.sigs.clone();
        let key = self.peer.verifying_key.clone();
        let (sig, hash) = self.good_sig.clone();
        let n2 = name.clone();
        let r = self.guarded(async move {
            let mut p = Parameters::new();
            p.add("name", n2.clone()).unwrap();
            let m = db.mutate("mutate { zzprobe.P { name: $name } }", Some(p)).await.map_err(|e| format!("probe mutation: {}", e))?;
            if !m.contains(&n2) {
                return Err(format!("probe mutation answered {}", m));
            }
            let mut p = Parameters::new();
            p.add("name", n2.clone()).unwrap();
            let q = db
                .query("query { zzprobe.P (name = $name) { id name n } }", Some(p))
                .await
                .map_err(|e| format!("probe query: {}", e))?;
            check_probe_answer(&q, &n2)?;
            if !sigs.verify_hash(sig.clone(), hash, key.clone()).await {
                return Err("probe verification: a good signature was refused".to_string());
            }
            let mut bad = sig.clone();
            bad[5] ^= 1;
            if sigs.verify_hash(bad, hash, key).await {
                return Err("probe verification: a bad signature was accepted".to_string());
            }
            Ok(())
        });
        match r {
            Guarded::Done(Ok(())) => Ok(()),
            Guarded::Done(Err(e)) => Err(ProbeFail::Wrong(e)),
            Guarded::Panicked => Err(ProbeFail::Wrong("the probe task panicked".into())),
            Guarded::TimedOut => Err(ProbeFail::Timeout),
        }
    }
}

pub enum ProbeFail {
    Wrong(String),
    Timeout,
}

// ---------------------------------------------------------------------------------------------
// interpreter
// ---------------------------------------------------------------------------------------------


/// turns the panics recorded since the last call into violations; returns how many there were
pub fn report_panics(o: &mut Outcome, stage: &str, detail: &str) -> usize {
    let ps: Vec<PanicRec> = take_panics();
    let n = ps.len();
    let mut seen: Vec<String> = Vec::new();
    // a task that awaits the reply of a service thread panics when that thread died
    // ("receiver.await.unwrap()"): reported only when the death itself was not observed
    let is_consequence = |p: &PanicRec| p.msg.contains("RecvError") && p.file.ends_with("signature_verification_service.rs");
    let has_cause = ps.iter().any(|p| !is_consequence(p) && !shared::is_harness_panic(p));
    for p in ps {
        if has_cause && is_consequence(&p) {
            continue;
        }
        let sig = if shared::is_harness_panic(&p) {
            // a task of the harness that awaited a reply of a dead service thread
            if p.msg.contains("RecvError") || p.file.ends_with("signature_verification_service.rs") {
                continue;
            }
            format!("harness-panic:{}:{}", shared::short_file(&p.file), p.line)
        } else {
            panic_signature(&p, stage)
        };
        if seen.contains(&sig) {
            continue;
        }
        seen.push(sig.clone());
        o.violation(sig, format!("{}:{} on thread '{}': {} [{}]", p.file, p.line, p.thread, p.msg, detail).replace('\n', "\\n"));
    }
    n
}

fn damage(bytes: &mut Vec<u8>, flips: &[(u16, u8)], truncate: Option<u16>) {
    for (i, x) in flips {
        if !bytes.is_empty() {
            let k = pick(*i, bytes.len());
            bytes[k] ^= *x;
        }
    }
    if let Some(t) = truncate {
        let k = pick(t, bytes.len() + 1);
        bytes.truncate(k);
    }
}

fn query_name(q: &Query) -> &'static str {
    match q {
        Query::ProveIdentity(_) => "ProveIdentity",
        Query::HardwareFingerprint() => "HardwareFingerprint",
        Query::RoomList => "RoomList",
        Query::RoomDefinition(_) => "RoomDefinition",
        Query::RoomNode(_) => "RoomNode",
        Query::RoomLog(_) => "RoomLog",
        Query::RoomLogAt(_, _) => "RoomLogAt",
        Query::EdgeDeletionLog(_, _, _) => "EdgeDeletionLog",
        Query::NodeDeletionLog(_, _, _) => "NodeDeletionLog",
        Query::RoomDailyNodes(_, _, _) => "RoomDailyNodes",
        Query::Nodes(_, _) => "Nodes",
        Query::Edges(_, _) => "Edges",
        Query::PeersForRoom(_) => "PeersForRoom",
    }
}

const JSONS: &[&str] = &[
    "{\"32\":\"x\"}",
    "{\"32\":\"x\",\"33\":5,\"34\":{\"a\":[1,2]}}",
    "{}",
    "[]",
    "null",
    "not json",
    "{\"32\":5}",
    "{\"32\":\"x\",\"33\":\"str\"}",
    "{\"32\":\"x\",\"34\":7}",
    "{\"32\":\"x\",\"zz\":{\"deep\":[[[[[[1]]]]]]}}",
    "",
    "{\"32\":\"\u{0}\"}",
    "BIG",
];

pub fn run_steps(w: &mut World, steps: &[Step], o: &mut Outcome, derive: &Deriver) {
    let mut prev_stage = String::from("setup");
    for (si, step) in steps.iter().enumerate() {
        // a panic recorded after the probe of the previous step belongs to that step
        if report_panics(o, &prev_stage, &format!("recorded after the probe of step {}", si as i64 - 1)) > 0 {
            o.count("instance_restarts_after_panic", 1);
            if w.restart().is_err() {
                o.discard = Some("restart-failed".into());
                return;
            }
        }
        let mut stage = String::new();
        let mut detail = format!("step {}", si);
        let mut timed_out = false;
        match step {
            Step::Query { q, flips, truncate } => {
                let query = w.build_query(q);
                let name = query_name(&query);
                let mut bytes = bincode::serialize(&QueryProtocol { id: q.id, query }).unwrap();
                let damaged = !flips.is_empty() || truncate.is_some();
                damage(&mut bytes, flips, *truncate);
                stage = format!("wire.query.{}", name);
                run_query_bytes(w, &bytes, o, &mut stage, &mut detail, &mut timed_out, damaged);
            }
            Step::RawQuery(bytes) => {
                stage = "wire.query.raw".into();
                run_query_bytes(w, bytes, o, &mut stage, &mut detail, &mut timed_out, true);
            }
            Step::Row(r) => {
                stage = run_row(w, r, o, &mut detail, &mut timed_out);
            }
            Step::Invite { app_ok, sign, flips, truncate, raw } => {
                stage = "invite".into();
                let bytes = match raw {
                    Some(r) => r.clone(),
                    None => {
                        let inv = Invite {
                            invite_id: [0x42; 16],
                            application: if *app_ok { APP.to_string() } else { "another app".to_string() },
                            invite_sign: apply_bytes(sign, &w.good_sig.0),
                        };
                        let mut b = bincode::serialize(&inv).unwrap();
                        damage(&mut b, flips, *truncate);
                        b
                    }
                };
                run_invite(w, &bytes, o, &mut detail, &mut timed_out);
            }
            Step::VerifyHash { sig, key } => {
                stage = "verify_hash".into();
                let s = apply_bytes(sig, &w.good_sig.0);
                let k = apply_bytes(key, &w.peer.verifying_key);
                detail = format!("step {} verify_hash sig {} bytes key {} bytes", si, s.len(), k.len());
                let direct = shared::verify_hash_direct(&s, &w.good_sig.1, &k);
                if direct.is_none() {
                    o.label("verify_hash:direct-panic");
                }
                let _ = report_panics(o, "verify_hash.direct", &detail);
                let sigs = w.peer.sigs.clone();
                let hash = w.good_sig.1;
                let expect = matches!(sig, BytesSpec::Good) && matches!(key, BytesSpec::Good);
                match w.guarded(async move { sigs.verify_hash(s, hash, k).await }) {
                    Guarded::Done(v) => {
                        o.label(if v { "verify_hash:true" } else { "verify_hash:false" });
                        if v != expect && direct == Some(expect) {
                            o.violation("verify-hash-service-differs-from-direct", detail.clone());
                        }
                    }
                    Guarded::Panicked => o.label("verify_hash:service-panic"),
                    Guarded::TimedOut => timed_out = true,
                }
            }
            Step::Api { kind, text, params } => {
                stage = format!("api.{}", ["query", "mutate", "delete"][*kind as usize % 3]);
                detail = format!("step {} {}", si, text.chars().take(200).collect::<String>());
                let db = w.peer.db.clone();
                let (k, t, p) = (*kind % 3, text.clone(), params.clone());
                let r = w.guarded(async move {
                    let params = if p.is_empty() { None } else { Parameters::from_json(&p).ok() };
                    match k {
                        0 => db.query(&t, params).await.map(|_| ()).map_err(|e| e.to_string()),
                        1 => db.mutate(&t, params).await.map(|_| ()).map_err(|e| e.to_string()),
                        _ => db.delete(&t, params).await.map(|_| ()).map_err(|e| e.to_string()),
                    }
                });
                match r {
                    Guarded::Done(Ok(())) => o.label(format!("{}:ok", stage)),
                    Guarded::Done(Err(_)) => o.label(format!("{}:err", stage)),
                    Guarded::Panicked => o.label(format!("{}:panic", stage)),
                    Guarded::TimedOut => timed_out = true,
                }
            }
            Step::Derived { target, dna, muts, keep } => {
                let text = derive(*target, dna, muts);
                let step = if *target % 4 == 0 {
                    Step::ModelUpdate(if *keep { format!("{}\n{}", w.model, text) } else { text })
                } else {
                    Step::Api { kind: (*target % 4) - 1, text, params: String::new() }
                };
                // interpreted as the concrete step (same verdicts, same probe)
                run_steps(w, std::slice::from_ref(&step), o, derive);
                continue;
            }
            Step::ModelUpdate(text) => {
                stage = "api.update_data_model".into();
                detail = format!("step {} {}", si, text.chars().take(200).collect::<String>());
                let db = w.peer.db.clone();
                let t = text.clone();
                match w.guarded(async move { db.update_data_model(&t).await.map(|_| ()).map_err(|e| e.to_string()) }) {
                    Guarded::Done(Ok(())) => o.label("model-update:ok"),
                    Guarded::Done(Err(_)) => o.label("model-update:err"),
                    Guarded::Panicked => o.label("model-update:panic"),
                    Guarded::TimedOut => timed_out = true,
                }
            }
        }
        // quiescence: what the step submitted (including the daily log recomputation it may have
        // scheduled) has been processed before the verdict
        {
            let peer_db = w.peer.db.clone();
            let _ = w.guarded(async move {
                let _ = peer_db.datamodel().await;
                peer_db.compute_daily_log().await;
                let _ = peer_db.datamodel().await;
            });
            let fence = w.rt.block_on(async { tokio::time::timeout(Duration::from_secs(10), w.peer.fence()).await });
            let _ = fence;
        }
        prev_stage = stage.clone();
        let panics = report_panics(o, &stage, &detail);
        if timed_out {
            if panics == 0 {
                o.discard = Some("step-timeout".into());
                o.count("step_timeouts", 1);
            }
            let _ = w.restart();
            continue;
        }
        if panics > 0 {
            // a thread of the instance may be gone for good: the panic is the finding, the
            // rest of the case continues on a fresh instance
            o.count("instance_restarts_after_panic", 1);
            if let Err(e) = w.restart() {
                o.discard = Some(format!("restart-failed:{}", e));
                return;
            }
            continue;
        }
        match w.probe() {
            Ok(()) => o.count("probes_ok", 1),
            Err(ProbeFail::Timeout) => {
                let n = report_panics(o, &format!("{}+probe", stage), &detail);
                if n == 0 {
                    o.discard = Some("probe-timeout".into());
                    o.count("probe_timeouts", 1);
                }
                let _ = w.restart();
            }
            Err(ProbeFail::Wrong(e)) => {
                let n = report_panics(o, &format!("{}+probe", stage), &detail);
                if n == 0 {
                    o.violation(format!("probe-failed@{}", stage), format!("{} after {}", e, detail));
                }
                let _ = w.restart();
            }
        }
    }
}

fn run_query_bytes(w: &mut World, bytes: &[u8], o: &mut Outcome, stage: &mut String, detail: &mut String, timed_out: &mut bool, damaged: bool) {
    let decoded = shared::guard(|| bincode::deserialize::<QueryProtocol>(bytes));
    let msg = match decoded {
        None => {
            *stage = "wire.decode".into();
            return;
        }
        Some(Err(_)) => {
            o.label("wire:undecodable");
            return;
        }
        Some(Ok(m)) => m,
    };
    let name = query_name(&msg.query);
    if damaged {
        *stage = format!("wire.query.{}", name);
    }
    o.label(format!("wire:served:{}", name));
    o.count("wire_queries_served", 1);
    let room_scoped = !matches!(msg.query, Query::ProveIdentity(_) | Query::HardwareFingerprint() | Query::RoomList);
    *detail = format!("{} query {} ({} bytes: {})", detail, name, bytes.len(), hex(&bytes[..bytes.len().min(60)]));
    let key = w.foreign.export_verifying_key();
    match w.serve(msg, key) {
        Guarded::Done((res, answers, complete)) => {
            match res {
                Ok(()) => {
                    if room_scoped && !complete {
                        o.violation(format!("wire-no-final-answer:{}", name), format!("{} answers, none final; {}", answers, detail));
                    }
                }
                Err(_) => o.label("wire:handler-err"),
            }
        }
        Guarded::Panicked => o.label("wire:handler-panic"),
        Guarded::TimedOut => *timed_out = true,
    }
}

fn hex(b: &[u8]) -> String {
    b.iter().map(|x| format!("{:02x}", x)).collect()
}

fn run_invite(w: &mut World, bytes: &[u8], o: &mut Outcome, detail: &mut String, timed_out: &mut bool) {
    *detail = format!("{} invite bytes {}", detail, hex(&bytes[..bytes.len().min(80)]));
    let inv = match shared::guard(|| bincode::deserialize::<Invite>(bytes)) {
        None => return,
        Some(Err(_)) => {
            o.label("invite:undecodable");
            return;
        }
        Some(Ok(i)) => i,
    };
    // what PeerManager::accept_invite does with the decoded value (the manager itself needs a
    // QUIC endpoint): application check, insert into the private room, list, and the check the
    // connection code runs on a TokenType::Invite
    if inv.application != APP {
        o.label("invite:other-app");
        return;
    }
    o.label("invite:accepted-shape");
    let db = w.peer.db.clone();
    let room = b64(&w.peer.private_room);
    let key = w.peer.verifying_key.clone();
    let r = w.guarded(async move {
        let _ = inv.hash();
        let ins = inv.insert(room.clone(), &db).await.map_err(|e| e.to_string());
        let list = Invite::list(room.clone(), &db).await.map_err(|e| e.to_string());
        if let Ok(k) = dvv::security::import_verifying_key(&key) {
            let _ = k.verify(&inv.hash(), &inv.invite_sign);
        }
        let del = Invite::delete(room, inv.invite_id, &db).await.map_err(|e| e.to_string());
        (ins, list.map(|l| l.len()), del)
    });
    match r {
        Guarded::Done((ins, list, _del)) => {
            if ins.is_ok() && list.is_err() {
                o.violation("invite-stored-but-not-listable", format!("{:?}; {}", list, detail));
            }
            o.label(if ins.is_ok() { "invite:stored" } else { "invite:refused" });
        }
        Guarded::Panicked => o.label("invite:panic"),
        Guarded::TimedOut => *timed_out = true,
    }
}

fn run_row(w: &mut World, r: &RowSpec, o: &mut Outcome, detail: &mut String, timed_out: &mut bool) -> String {
    let kinds = ["node", "edge", "node-deletion", "edge-deletion"];
    let kind = r.kind % 4;
    let stage = format!("row.{}", kinds[kind as usize]);
    let room = w.room_of(r.room);
    let ent = w.entity_of(r.ent);
    let cdate = DATES[r.cdate as usize % DATES.len()];
    let mdate = DATES[r.mdate as usize % DATES.len()];
    let existing = r.target.is_some() && !w.rows.is_empty();
    let id = if existing { w.id_of(r.target) } else { let mut i = [0x77u8; 16]; i[0] = r.json; i[1] = r.label; i };
    let json = {
        let j = JSONS[r.json as usize % JSONS.len()];
        if j == "BIG" { format!("{{\"32\":\"{}\"}}", "b".repeat(300_000)) } else { j.to_string() }
    };
    let own = Ed25519SigningKey::create_from(&dvv::security::derive_key(&format!("{} SIGNING_KEY", APP), &w.peer.secret));
    let signer: Option<&Ed25519SigningKey> = match r.signer % 3 {
        0 => Some(&own),
        1 => Some(&w.foreign),
        _ => None,
    };
    let good_key = signer.map(|k| k.export_verifying_key()).unwrap_or_else(|| w.peer.verifying_key.clone());
    let shape = format!(
        "{} signer {} key {:?} sig {:?} room {:?} ent {:?} json#{} cdate {} mdate {} existing {}",
        kinds[kind as usize], r.signer % 3, r.key, r.sig, r.room, r.ent, r.json as usize % JSONS.len(), cdate, mdate, existing
    );
    *detail = format!("{} {}", detail, shape);
    let good_row = signer.is_some() && matches!(r.key, BytesSpec::Good) && matches!(r.sig, BytesSpec::Good);
    o.count(if good_row { "rows_validly_signed" } else { "rows_bad_key_or_signature" }, 1);
    let labels = ["32", "33", "34", "35", "36", "", "zz", "'"];
    let label = labels[r.label as usize % labels.len()].to_string();
    let dest = w.rows.get(1).map(|x| x.0).unwrap_or([0x88; 16]);
    let sigs = w.peer.sigs.clone();
    let db = w.peer.db.clone();

    match kind {
        0 => {
            let mut node = Node {
                id,
                room_id: if matches!(r.room, RoomSel::Zero) { None } else { Some(room) },
                cdate,
                mdate,
                _entity: ent,
                _json: if json.is_empty() { None } else { Some(json) },
                _binary: r.binary.as_ref().map(|b| apply_bytes(b, &[1, 2, 3, 4])),
                verifying_key: vec![],
                _signature: vec![],
                _local_id: None,
            };
            if let Some(k) = signer {
                let _ = shared::guard(|| node.sign(k));
            }
            node.verifying_key = apply_bytes(&r.key, &good_key);
            let gs = if node._signature.is_empty() { vec![0u8; 64] } else { node._signature.clone() };
            node._signature = apply_bytes(&r.sig, &gs);
            let direct = shared::guard(|| node.verify().is_ok());
            report_panics(o, "row.node.verify", detail);
            let n2 = node.clone();
            match w.guarded(async move { sigs.verify_nodes(vec![n2]).await.map(|_| ()).map_err(|e| e.to_string()) }) {
                Guarded::Done(Ok(())) => {
                    o.label("row:node:verified");
                    if direct == Some(false) {
                        o.violation("verify-service-differs-from-direct:node", detail.clone());
                    }
                    let ident = NodeIdentifier { id: node.id, mdate: node.mdate, signature: node._signature.clone() };
                    let r2 = w.guarded(async move {
                        let mut set = HashSet::new();
                        set.insert(ident);
                        let filtered = db.filter_existing_node(set).await.map_err(|e| e.to_string())?;
                        let mut to_insert = Vec::new();
                        for mut nti in filtered {
                            let mut n = node.clone();
                            n._local_id = nti.old_local_id;
                            nti.node = Some(n);
                            to_insert.push(nti);
                        }
                        if to_insert.is_empty() {
                            return Ok(None);
                        }
                        db.add_nodes(room, to_insert).await.map(|v| Some(v.len())).map_err(|e| e.to_string())
                    });
                    match r2 {
                        Guarded::Done(Ok(Some(0))) => o.label("row:node:ingested"),
                        Guarded::Done(Ok(Some(_))) => o.label("row:node:rejected"),
                        Guarded::Done(Ok(None)) => o.label("row:node:already-known"),
                        Guarded::Done(Err(_)) => o.label("row:node:ingest-err"),
                        Guarded::Panicked => o.label("row:node:ingest-panic"),
                        Guarded::TimedOut => *timed_out = true,
                    }
                }
                Guarded::Done(Err(_)) => o.label("row:node:refused"),
                Guarded::Panicked => {
                    o.label("row:node:verifier-panic");
                    w.peer.sigs = SignatureVerificationService::start(1);
                }
                Guarded::TimedOut => *timed_out = true,
            }
        }
        1 => {
            let mut edge = Edge { src: id, src_entity: ent, label, dest, cdate, verifying_key: vec![], signature: vec![] };
            if let Some(k) = signer {
                let _ = shared::guard(|| edge.sign(k));
            }
            edge.verifying_key = apply_bytes(&r.key, &good_key);
            let gs = if edge.signature.is_empty() { vec![0u8; 64] } else { edge.signature.clone() };
            edge.signature = apply_bytes(&r.sig, &gs);
            let direct = shared::guard(|| edge.verify().is_ok());
            report_panics(o, "row.edge.verify", detail);
            let e2 = edge.clone();
            match w.guarded(async move { sigs.verify_edges(vec![e2]).await.map(|_| ()).map_err(|e| e.to_string()) }) {
                Guarded::Done(Ok(())) => {
                    o.label("row:edge:verified");
                    if direct == Some(false) {
                        o.violation("verify-service-differs-from-direct:edge", detail.clone());
                    }
                    match w.guarded(async move { db.add_edges(room, vec![edge]).await.map(|v| v.len()).map_err(|e| e.to_string()) }) {
                        Guarded::Done(Ok(0)) => o.label("row:edge:ingested"),
                        Guarded::Done(Ok(_)) => o.label("row:edge:rejected"),
                        Guarded::Done(Err(_)) => o.label("row:edge:ingest-err"),
                        Guarded::Panicked => o.label("row:edge:ingest-panic"),
                        Guarded::TimedOut => *timed_out = true,
                    }
                }
                Guarded::Done(Err(_)) => o.label("row:edge:refused"),
                Guarded::Panicked => {
                    o.label("row:edge:verifier-panic");
                    w.peer.sigs = SignatureVerificationService::start(1);
                }
                Guarded::TimedOut => *timed_out = true,
            }
        }
        2 => {
            let node = Node { id, room_id: Some(room), cdate, mdate, _entity: ent.clone(), ..Default::default() };
            let deletion_date = cdate;
            let mut entry = match signer {
                Some(k) => NodeDeletionEntry::build(room, &node, deletion_date, k),
                None => NodeDeletionEntry {
                    room_id: room,
                    id,
                    entity: ent,
                    mdate,
                    deletion_date,
                    verifying_key: vec![],
                    signature: vec![0; 64],
                    entity_name: None,
                },
            };
            entry.verifying_key = apply_bytes(&r.key, &good_key);
            let gs = entry.signature.clone();
            entry.signature = apply_bytes(&r.sig, &gs);
            let direct = shared::guard(|| entry.verify().is_ok());
            report_panics(o, "row.node-deletion.verify", detail);
            match w.guarded(async move {
                let v = sigs.verify_node_log(vec![entry]).await.map_err(|e| e.to_string())?;
                Ok::<_, String>(v)
            }) {
                Guarded::Done(Ok(v)) => {
                    o.label("row:node-deletion:verified");
                    if direct == Some(false) {
                        o.violation("verify-service-differs-from-direct:node-deletion", detail.clone());
                    }
                    match w.guarded(async move { db.delete_nodes(v).await.map_err(|e| e.to_string()) }) {
                        Guarded::Done(Ok(())) => o.label("row:node-deletion:applied"),
                        Guarded::Done(Err(_)) => o.label("row:node-deletion:ingest-err"),
                        Guarded::Panicked => o.label("row:node-deletion:ingest-panic"),
                        Guarded::TimedOut => *timed_out = true,
                    }
                }
                Guarded::Done(Err(_)) => o.label("row:node-deletion:refused"),
                Guarded::Panicked => {
                    o.label("row:node-deletion:verifier-panic");
                    w.peer.sigs = SignatureVerificationService::start(1);
                }
                Guarded::TimedOut => *timed_out = true,
            }
        }
        _ => {
            let edge = Edge { src: id, src_entity: ent.clone(), label: label.clone(), dest, cdate, ..Default::default() };
            let deletion_date = mdate;
            let mut entry = match signer {
                Some(k) => EdgeDeletionEntry::build(room, &edge, deletion_date, k),
                None => EdgeDeletionEntry {
                    room_id: room,
                    src: id,
                    src_entity: ent,
                    dest,
                    label,
                    cdate,
                    deletion_date,
                    verifying_key: vec![],
                    signature: vec![0; 64],
                    entity_name: None,
                },
            };
            entry.verifying_key = apply_bytes(&r.key, &good_key);
            let gs = entry.signature.clone();
            entry.signature = apply_bytes(&r.sig, &gs);
            let direct = shared::guard(|| entry.verify().is_ok());
            report_panics(o, "row.edge-deletion.verify", detail);
            match w.guarded(async move {
                let v = sigs.verify_edge_log(vec![entry]).await.map_err(|e| e.to_string())?;
                Ok::<_, String>(v)
            }) {
                Guarded::Done(Ok(v)) => {
                    o.label("row:edge-deletion:verified");
                    if direct == Some(false) {
                        o.violation("verify-service-differs-from-direct:edge-deletion", detail.clone());
                    }
                    match w.guarded(async move { db.delete_edges(v).await.map_err(|e| e.to_string()) }) {
                        Guarded::Done(Ok(())) => o.label("row:edge-deletion:applied"),
                        Guarded::Done(Err(_)) => o.label("row:edge-deletion:ingest-err"),
                        Guarded::Panicked => o.label("row:edge-deletion:ingest-panic"),
                        Guarded::TimedOut => *timed_out = true,
                    }
                }
                Guarded::Done(Err(_)) => o.label("row:edge-deletion:refused"),
                Guarded::Panicked => {
                    o.label("row:edge-deletion:verifier-panic");
                    w.peer.sigs = SignatureVerificationService::start(1);
                }
                Guarded::TimedOut => *timed_out = true,
            }
        }
    }
    stage
}

// ---------------------------------------------------------------------------------------------
// a hostile server: answers to the queries of the real synchronisation code
// ---------------------------------------------------------------------------------------------

#[derive(Clone, Debug, Serialize, Deserialize)]
pub enum AnswerPlan {
    /// what the real server answers
    Honest,
    /// the honest payload with bytes xored
    Damaged(Vec<(u16, u8)>),
    /// the honest payload cut
    Truncated(u16),
    /// arbitrary payload
    Raw { success: bool, complete: bool, bytes: Vec<u8> },
    /// the honest answers with another message id
    WrongId(u64),
    /// success flag inverted
    FlipSuccess,
    /// never marks the answer complete: closes the connection instead
    Close,
}

pub fn answer_plan_strategy() -> impl Strategy<Value = AnswerPlan> {
    prop_oneof![
        5 => Just(AnswerPlan::Honest),
        4 => prop::collection::vec((any::<u16>(), 1u8..=255), 1..4).prop_map(AnswerPlan::Damaged),
        2 => any::<u16>().prop_map(AnswerPlan::Truncated),
        3 => (any::<bool>(), any::<bool>(), prop::collection::vec(any::<u8>(), 0..120)).prop_map(|(success, complete, bytes)| AnswerPlan::Raw { success, complete, bytes }),
        1 => any::<u64>().prop_map(AnswerPlan::WrongId),
        1 => Just(AnswerPlan::FlipSuccess),
        1 => Just(AnswerPlan::Close),
    ]
}

/// the puller `w.peer` synchronises the shared room from a second real instance whose answers
/// are rewritten according to `plans` (one plan per query, in order; honest when exhausted)
pub fn run_hostile_pull(w: &mut World, server: &Peer, plans: &[AnswerPlan], o: &mut Outcome) {
    let _ = take_panics();
    let room = w.shared_room;
    let services = w.peer.services();
    let peer_service = w.peer.peer_service.clone();
    let server_db = server.db.clone();
    let server_key = server.verifying_key.clone();
    let puller_key = w.peer.verifying_key.clone();
    let plans: Vec<AnswerPlan> = plans.to_vec();
    let r = w.guarded(async move {
        let (q_tx, mut q_rx) = mpsc::channel::<QueryProtocol>(16);
        let (a_tx, a_rx) = mpsc::channel::<Answer>(16);
        let qs = QueryService::start(q_tx, a_rx);
        let served = Arc::new(std::sync::atomic::AtomicUsize::new(0));
        let served2 = served.clone();
        let server_task = tokio::spawn(async move {
            let (in_tx, mut in_rx) = mpsc::channel::<Answer>(64);
            let mut handle = RemotePeerHandle { allowed_room: HashSet::from([room]), db: server_db, verifying_key: server_key, reply: in_tx };
            let key = Arc::new(Mutex::new(puller_key));
            let ready = Arc::new(AtomicBool::new(true));
            let fp = HardwareFingerprint { id: [7; 16], name: "dv".into() };
            let mut n = 0usize;
            while let Some(msg) = q_rx.recv().await {
                let plan = plans.get(n).cloned().unwrap_or(AnswerPlan::Honest);
                n += 1;
                served2.store(n, std::sync::atomic::Ordering::SeqCst);
                let id = msg.id;
                // the server of this scenario is an honest instance whose answers are rewritten:
                // it must not be brought down by what the puller relays back to it (a date taken
                // from a rewritten answer), that would be the known wire-query finding again
                let relayed_date = match &msg.query {
                    Query::RoomLogAt(_, d) | Query::EdgeDeletionLog(_, _, d) | Query::NodeDeletionLog(_, _, d) | Query::RoomDailyNodes(_, _, d) => Some(*d),
                    _ => None,
                };
                if let Some(d) = relayed_date {
                    if !(-8_000_000_000_000_000..=8_000_000_000_000_000).contains(&d) {
                        let payload = bincode::serialize(&dvv::synchronisation::Error::RemoteTechnical("date".into())).unwrap();
                        if a_tx.send(Answer { id, success: false, complete: true, serialized: payload }).await.is_err() {
                            return;
                        }
                        continue;
                    }
                }
                // honest answers first
                let mut honest: Vec<Answer> = Vec::new();
                {
                    let fut = InboundQueryService::process_inbound(msg, &mut handle, &key, &ready, &fp);
                    tokio::pin!(fut);
                    loop {
                        tokio::select! {
                            _ = &mut fut => break,
                            a = in_rx.recv() => { if let Some(a) = a { honest.push(a); } }
                        }
                    }
                    while let Ok(a) = in_rx.try_recv() {
                        honest.push(a);
                    }
                }
                let mut out: Vec<Answer> = Vec::new();
                match plan {
                    AnswerPlan::Honest => out = honest,
                    AnswerPlan::Damaged(flips) => {
                        for mut a in honest {
                            for (i, x) in &flips {
                                if !a.serialized.is_empty() {
                                    let k = pick(*i, a.serialized.len());
                                    a.serialized[k] ^= *x;
                                }
                            }
                            out.push(a);
                        }
                    }
                    AnswerPlan::Truncated(t) => {
                        for mut a in honest {
                            let k = pick(t, a.serialized.len() + 1);
                            a.serialized.truncate(k);
                            out.push(a);
                        }
                    }
                    AnswerPlan::Raw { success, complete, bytes } => {
                        out.push(Answer { id, success, complete, serialized: bytes });
                        out.push(Answer { id, success: true, complete: true, serialized: vec![] });
                    }
                    AnswerPlan::WrongId(other) => {
                        for mut a in honest {
                            a.id = other;
                            out.push(a);
                        }
                        // the real answer never comes: close instead of letting the puller wait
                        for a in out.drain(..) {
                            let _ = a_tx.send(a).await;
                        }
                        break;
                    }
                    AnswerPlan::FlipSuccess => {
                        for mut a in honest {
                            a.success = !a.success;
                            out.push(a);
                        }
                    }
                    AnswerPlan::Close => break,
                }
                for a in out {
                    if a_tx.send(a).await.is_err() {
                        return;
                    }
                }
            }
        });
        let res = LocalPeerService::verif_synchronise_room(room, &qs, peer_service, &services).await;
        drop(qs);
        server_task.abort();
        let _ = server_task.await;
        (res.map_err(|e| e.to_string()), served.load(std::sync::atomic::Ordering::SeqCst))
    });
    let detail = "answers of a hostile server".to_string();
    match r {
        Guarded::Done((res, served)) => {
            o.count("hostile_queries_answered", served as u64);
            o.label(if res.is_ok() { "pull:ok" } else { "pull:err" });
        }
        Guarded::Panicked => o.label("pull:panic"),
        Guarded::TimedOut => {
            if report_panics(o, "pull", &detail) == 0 {
                o.discard = Some("pull-timeout".into());
            }
            let _ = w.restart();
            return;
        }
    }
    let n = report_panics(o, "pull", "answers of a hostile server");
    if n > 0 {
        let _ = w.restart();
        return;
    }
    match w.probe() {
        Ok(()) => o.count("probes_ok", 1),
        Err(ProbeFail::Timeout) => {
            if report_panics(o, "pull+probe", "") == 0 {
                o.discard = Some("probe-timeout".into());
            }
        }
        Err(ProbeFail::Wrong(e)) => {
            if report_panics(o, "pull+probe", "") == 0 {
                o.violation("probe-failed@pull", e);
            }
        }
    }
}

