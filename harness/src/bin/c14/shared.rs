//! Oracle shared by the proptest check (`src/bin/c14`) and by the libFuzzer targets (`/verif/fuzz`,
//! which includes this very file with `#[path]`): the process-wide panic observer, the in-memory
//! execution path (parse -> execute -> write / read on a prepared in-memory connection), the
//! classifier of database engine errors and the decoders of the wire types.
//!
//! Only crates available to both builds are used: discret (feature `verif`), rusqlite, bincode,
//! serde_json, blake3.

#![allow(dead_code)]

use discret::verif as dv;
use dv::database::deletion::DeletionQuery;
use dv::database::mutation_query::MutationQuery;
use dv::database::query::{PreparedQueries, Query};
use dv::database::query_language::data_model_parser::DataModel;
use dv::database::query_language::deletion_parser::DeletionParser;
use dv::database::query_language::mutation_parser::MutationParser;
use dv::database::query_language::parameter::{Parameters, ParametersAdd};
use dv::database::query_language::query_parser::QueryParser;
use dv::database::query_language::FieldType;
use dv::database::sqlite_database::{prepare_connection, Writeable};
use dv::database::system_entities::SYSTEM_DATA_MODEL;
use dv::security::{Ed25519SigningKey, SigningKey};

use std::panic::{catch_unwind, AssertUnwindSafe};
use std::sync::atomic::{AtomicBool, AtomicU64, Ordering};
use std::sync::{Arc, Mutex, Once};

// ---------------------------------------------------------------------------------------------
// panic observer
// ---------------------------------------------------------------------------------------------

#[derive(Clone, Debug)]
pub struct PanicRec {
    pub thread: String,
    pub file: String,
    pub line: u32,
    pub msg: String,
}

static PANICS: Mutex<Vec<PanicRec>> = Mutex::new(Vec::new());
static PANIC_COUNT: AtomicU64 = AtomicU64::new(0);
static HOOK: Once = Once::new();
/// when set, panics are also printed on stderr (debugging)
pub static VERBOSE: AtomicBool = AtomicBool::new(false);

/// installs the process-wide hook: every panic on every thread (reader, writer, verifier, tokio
/// workers, the calling thread) is counted and its location recorded. Nothing is printed unless
/// `VERBOSE` is set, the default hook is not called.
pub fn install_hook() {
    HOOK.call_once(set_the_hook);
}

/// replaces whatever hook is installed (libFuzzer installs its own after start-up)
pub fn install_hook_force() {
    HOOK.call_once(|| {});
    set_the_hook();
}

fn set_the_hook() {
    std::panic::set_hook(Box::new(|info| {
        let (file, line) = match info.location() {
            Some(l) => (l.file().to_string(), l.line()),
            None => ("?".to_string(), 0),
        };
        let msg = if let Some(s) = info.payload().downcast_ref::<&str>() {
            s.to_string()
        } else if let Some(s) = info.payload().downcast_ref::<String>() {
            s.clone()
        } else {
            "non-string panic payload".to_string()
        };
        let thread = std::thread::current().name().unwrap_or("unnamed").to_string();
        if VERBOSE.load(Ordering::Relaxed) {
            eprintln!("[c14 hook] panic on thread '{}' at {}:{}: {}", thread, file, line, msg);
        }
        PANIC_COUNT.fetch_add(1, Ordering::SeqCst);
        if let Ok(mut p) = PANICS.lock() {
            if p.len() < 10_000 {
                p.push(PanicRec { thread, file, line, msg });
            }
        }
    }));
}

pub fn panic_count() -> u64 {
    PANIC_COUNT.load(Ordering::SeqCst)
}

/// removes and returns every panic recorded so far
pub fn take_panics() -> Vec<PanicRec> {
    match PANICS.lock() {
        Ok(mut p) => std::mem::take(&mut *p),
        Err(e) => std::mem::take(&mut *e.into_inner()),
    }
}

/// path of the panicking file, made independent of the checkout location:
/// `database/mutation_query.rs` for files of the crate under test, `<crate>/<file>` for
/// dependencies, `std/<file>` for the standard library
pub fn short_file(file: &str) -> String {
    let f = file.replace('\\', "/");
    if let Some(i) = f.find("/repo/src/") {
        return f[i + "/repo/src/".len()..].to_string();
    }
    if f.starts_with("src/") && !f.contains("/bin/c14/") {
        return f["src/".len()..].to_string();
    }
    if let Some(i) = f.find("/registry/src/") {
        let rest = &f[i + "/registry/src/".len()..];
        let mut parts = rest.split('/');
        let _index = parts.next();
        let krate = parts.next().unwrap_or("?");
        let base = rest.rsplit('/').next().unwrap_or("?");
        // strip the version of the crate directory
        let krate = match krate.rfind('-') {
            Some(p) if krate[p + 1..].chars().next().map(|c| c.is_ascii_digit()).unwrap_or(false) => &krate[..p],
            _ => krate,
        };
        return format!("{}/{}", krate, base);
    }
    if f.starts_with("/rustc/") || f.contains("/library/") {
        return format!("std/{}", f.rsplit('/').next().unwrap_or("?"));
    }
    if f.contains("/verif/harness/") || f.contains("/verif/fuzz/") || f.contains("bin/c14/") {
        return format!("HARNESS/{}", f.rsplit('/').next().unwrap_or("?"));
    }
    f.rsplit('/').next().unwrap_or("?").to_string()
}

/// message prefix with the volatile parts removed: digits collapsed, quotes dropped, at most 48
/// characters, blanks replaced by '-'
pub fn short_msg(msg: &str) -> String {
    // the text of the error carried by an unwrap of Err varies with the input: not part of the key
    let msg = match msg.find("on an `Err` value") {
        Some(i) => &msg[..i + "on an `Err` value".len()],
        None => msg,
    };
    let mut out = String::new();
    let mut last_digit = false;
    for c in msg.chars() {
        if out.len() >= 48 {
            break;
        }
        if c.is_ascii_digit() {
            if !last_digit {
                out.push('N');
            }
            last_digit = true;
            continue;
        }
        last_digit = false;
        match c {
            'a'..='z' | 'A'..='Z' | '_' | ':' | '(' | ')' | '.' => out.push(c),
            ' ' | '\n' | '\t' | '-' => {
                if !out.ends_with('-') {
                    out.push('-')
                }
            }
            _ => {}
        }
    }
    out.trim_matches('-').to_string()
}

/// the source line of the panic site with blanks removed (at most 44 characters): two panic
/// sites of one file with the same message get different keys, and the key survives edits that
/// only move the line. Empty when the source cannot be read.
pub fn code_snippet(p: &PanicRec) -> String {
    let candidates = [p.file.clone(), format!("/repo/{}", p.file)];
    for c in candidates {
        if let Ok(text) = std::fs::read_to_string(&c) {
            if let Some(line) = text.lines().nth((p.line as usize).saturating_sub(1)) {
                let mut out = String::new();
                for ch in line.trim().chars() {
                    if out.len() >= 44 {
                        break;
                    }
                    if ch.is_ascii_alphanumeric() || "_:.()?!&[]<>=,".contains(ch) {
                        out.push(ch);
                    }
                }
                return out;
            }
        }
    }
    String::new()
}

/// (file, message-prefix, code of the site) key of a panic: the allow-list of the fuzz targets
/// and the signatures of the check are both built from it
pub fn panic_key(p: &PanicRec) -> String {
    let snip = code_snippet(p);
    if snip.is_empty() {
        format!("{}:{}", short_file(&p.file), short_msg(&p.msg))
    } else {
        format!("{}:{}:{}", short_file(&p.file), short_msg(&p.msg), snip)
    }
}

pub fn is_harness_panic(p: &PanicRec) -> bool {
    short_file(&p.file).starts_with("HARNESS/")
}

/// the way an input reaches the code: part of the signature of a panic
pub fn channel_of(stage: &str) -> &'static str {
    let s = stage;
    if s.starts_with("mem.") || s.starts_with("parse.") || s.starts_with("texts.") || s.starts_with("requests.") || s.starts_with("bomb") {
        "local-text"
    } else if s.starts_with("api.") {
        "local-api"
    } else if s.starts_with("wire.") {
        "wire-query"
    } else if s.starts_with("row.") {
        "remote-row"
    } else if s.starts_with("invite") {
        "invite"
    } else if s.starts_with("verify_hash") {
        "verify-hash"
    } else if s.starts_with("pull") {
        "remote-answer"
    } else {
        "other"
    }
}

/// signature of a panic observed while the harness was in `stage`
pub fn panic_signature(p: &PanicRec, stage: &str) -> String {
    format!("panic:{}@{}", panic_key(p), channel_of(stage))
}

/// runs `f`, catching a panic of the calling thread; panics of other threads are only recorded
pub fn guard<T>(f: impl FnOnce() -> T) -> Option<T> {
    catch_unwind(AssertUnwindSafe(f)).ok()
}

// ---------------------------------------------------------------------------------------------
// database engine error classification
// ---------------------------------------------------------------------------------------------

/// true when the error text (Display or Debug of any of the crate's error types) shows an error
/// raised by the database engine while preparing or running a statement
pub fn sql_error_text(e: &dv::database::Error) -> Option<String> {
    match e {
        // an error raised while a prepared statement runs is marked: the full text search
        // expression errors are of that kind
        dv::database::Error::Database(r @ rusqlite::Error::SqliteFailure(_, _)) => Some(format!("RUNTIME {}", r)),
        dv::database::Error::Database(r) => Some(format!("{}", r)),
        _ => None,
    }
}

/// engine errors that come from the *data* given to a statement that was prepared correctly
/// (full text search expressions are a little language of their own): not "a generated statement
/// rejected by the engine"
pub fn is_data_error(msg: &str) -> bool {
    let runtime = msg.starts_with("RUNTIME ");
    let m = msg.trim_start_matches("RUNTIME ").to_lowercase();
    if runtime && (m.starts_with("no such column") || m.contains("syntax error near") || m.starts_with("unknown special query")) {
        return true;
    }
    m.starts_with("fts5:") || m.contains("fts5: syntax error") || m.contains("unterminated string") && m.contains("fts5")
        || m.contains("no such column") && m.contains("fts5")
        || m.contains("unknown special query")
        || m == "unterminated string"
}

pub const SQL_KEYWORDS: &[&str] = &[
    "abort", "action", "add", "after", "all", "alter", "always", "analyze", "and", "as", "asc", "attach",
    "autoincrement", "before", "begin", "between", "by", "cascade", "case", "cast", "check", "collate",
    "column", "commit", "conflict", "constraint", "create", "cross", "current", "current_date",
    "current_time", "current_timestamp", "database", "default", "deferrable", "deferred", "delete", "desc",
    "detach", "distinct", "do", "drop", "each", "else", "end", "escape", "except", "exclude", "exclusive",
    "exists", "explain", "fail", "filter", "first", "following", "for", "foreign", "from", "full",
    "generated", "glob", "group", "groups", "having", "if", "ignore", "immediate", "in", "index", "indexed",
    "initially", "inner", "insert", "instead", "intersect", "into", "is", "isnull", "join", "key", "last",
    "left", "like", "limit", "match", "materialized", "natural", "no", "not", "nothing", "notnull", "null",
    "nulls", "of", "offset", "on", "or", "order", "others", "outer", "over", "partition", "plan", "pragma",
    "preceding", "primary", "query", "raise", "range", "recursive", "references", "regexp", "reindex",
    "release", "rename", "replace", "restrict", "returning", "right", "rollback", "row", "rows", "savepoint",
    "select", "set", "table", "temp", "temporary", "then", "ties", "to", "transaction", "trigger",
    "unbounded", "union", "unique", "update", "using", "vacuum", "values", "view", "virtual", "when",
    "where", "window", "with", "without",
];

pub fn is_sql_keyword(s: &str) -> bool {
    let l = s.to_ascii_lowercase();
    SQL_KEYWORDS.contains(&l.as_str())
}

/// facts about a request that the classifier of engine errors needs; filled by whoever knows the
/// request (the structured generator) or by a scan of the text (raw texts, fuzz targets)
#[derive(Clone, Debug, Default)]
pub struct SqlFacts {
    /// identifiers that the request may place where the engine expects a table alias
    pub alias_candidates: Vec<String>,
    /// the request selects or filters a Json field that has a default value in the model
    pub json_default_selected: bool,
    /// a float literal of the request or a float default of the model is not finite
    pub non_finite_float: bool,
    /// a string default of the model contains a single quote
    pub quote_in_string_default: bool,
    /// a filter names the alias under which a system field is selected
    pub filter_on_system_alias: bool,
}

/// identifiers of a request text (anything made of letters, digits, '_' and '.')
pub fn scan_identifiers(text: &str) -> Vec<String> {
    let mut v = Vec::new();
    let mut cur = String::new();
    for c in text.chars() {
        if c.is_alphanumeric() || c == '_' || c == '.' || c == '$' {
            cur.push(c);
        } else if !cur.is_empty() {
            v.push(std::mem::take(&mut cur));
        }
    }
    if !cur.is_empty() {
        v.push(cur);
    }
    v.sort();
    v.dedup();
    v
}

/// identifiers of a request text that stand where an entity, a sub-entity or an alias stands:
/// followed by `{`, `(` or `:` (functions and parameter keywords excluded)
pub fn scan_alias_candidates(text: &str) -> Vec<String> {
    let chars: Vec<char> = text.chars().collect();
    let mut v = Vec::new();
    let mut i = 0;
    let mut first = true;
    while i < chars.len() {
        let c = chars[i];
        if c == '"' {
            // skip a string literal
            i += 1;
            while i < chars.len() && chars[i] != '"' {
                if chars[i] == '\\' {
                    i += 1;
                }
                i += 1;
            }
            i += 1;
            continue;
        }
        if c.is_alphanumeric() || c == '_' || c == '.' {
            let st = i;
            while i < chars.len() && (chars[i].is_alphanumeric() || chars[i] == '_' || chars[i] == '.') {
                i += 1;
            }
            let word: String = chars[st..i].iter().collect();
            let preceded_by_dollar = st > 0 && chars[st - 1] == '$';
            let mut j = i;
            while j < chars.len() && chars[j].is_whitespace() {
                j += 1;
            }
            let next = chars.get(j).copied().unwrap_or(' ');
            let is_kw = matches!(
                word.as_str(),
                "order_by" | "search" | "before" | "after" | "nullable" | "count" | "avg" | "max" | "min" | "sum"
            );
            let head = first && matches!(word.as_str(), "query" | "mutate" | "delete");
            if first {
                first = false;
                if head {
                    // the optional name of the request follows: not an alias either
                    let mut k = j;
                    while k < chars.len() && (chars[k].is_alphanumeric() || chars[k] == '_') {
                        k += 1;
                    }
                    i = k.max(i);
                    continue;
                }
            }
            if !preceded_by_dollar && !is_kw && (next == '{' || next == '(' || next == ':') {
                v.push(word.replace('.', "$"));
            }
            continue;
        }
        i += 1;
    }
    v.sort();
    v.dedup();
    v
}

pub fn facts_from_text(model: &str, request: &str) -> SqlFacts {
    let mut f = SqlFacts::default();
    f.alias_candidates = scan_alias_candidates(request);
    let lm = model.to_lowercase();
    // coarse scans: good enough to name the shape, the engine message decides first
    f.json_default_selected = {
        let mut found = false;
        let mut rest = lm.as_str();
        while let Some(i) = rest.find("json") {
            let after = rest[i + 4..].trim_start();
            if after.starts_with("default") {
                found = true;
                break;
            }
            rest = &rest[i + 4..];
        }
        found && request.contains("->")
    };
    f.non_finite_float = has_non_finite_float(model) || has_non_finite_float(request);
    f.quote_in_string_default = lm.contains("default") && model.contains('\'');
    f
}

/// a float literal `digits.digits[e..]` that overflows f64
pub fn has_non_finite_float(text: &str) -> bool {
    let b = text.as_bytes();
    let mut i = 0;
    while i < b.len() {
        if b[i].is_ascii_digit() {
            let s = i;
            while i < b.len() && (b[i].is_ascii_digit() || b[i] == b'.' || b[i] == b'e' || b[i] == b'E' || b[i] == b'+' || b[i] == b'-') {
                i += 1;
            }
            let tok = &text[s..i];
            if tok.contains('.') {
                if let Ok(v) = tok.trim_end_matches(|c| c == '+' || c == '-').parse::<f64>() {
                    if !v.is_finite() {
                        return true;
                    }
                }
            }
        } else {
            i += 1;
        }
    }
    false
}

fn near_token(msg: &str) -> Option<String> {
    let i = msg.find("near \"")?;
    let rest = &msg[i + 6..];
    let j = rest.find('"')?;
    Some(rest[..j].to_string())
}

fn normalise_sql_msg(msg: &str) -> String {
    // drop quoted tokens and numbers
    let mut out = String::new();
    let mut in_quote = false;
    for c in msg.chars() {
        if c == '"' || c == '\'' {
            in_quote = !in_quote;
            continue;
        }
        if in_quote {
            continue;
        }
        if out.len() >= 40 {
            break;
        }
        if c.is_ascii_alphabetic() {
            out.push(c.to_ascii_lowercase());
        } else if c == ' ' || c == ':' || c == '-' {
            if !out.ends_with('-') {
                out.push('-');
            }
        }
    }
    out.trim_matches('-').to_string()
}

/// signature `sql:<shape>` of a database engine error on a request that passed parsing
pub fn classify_sql(kind: &str, msg: &str, facts: &SqlFacts) -> String {
    let full_msg = msg;
    // the two shapes below explained engine errors before bfec9df / 5fd9076 repaired them; an error in a
    // statement that has one of them is now classified by its real cause
    let json_default_selected = false;
    let quote_in_string_default = false;
    let msg = msg.trim_start_matches("RUNTIME ");
    // rusqlite appends " in <sql> at offset n": the statement is not part of the shape
    let msg = match msg.find(" in SELECT") {
        Some(i) => &msg[..i],
        None => msg.lines().next().unwrap_or(msg),
    };
    let mut near = near_token(msg);
    if near.is_none() {
        if let Some(i) = msg.find("unrecognized token: \"") {
            let rest = &msg[i + 21..];
            if let Some(j) = rest.find('"') {
                near = Some(rest[..j].to_string());
            }
        }
    }
    if near.as_deref() == Some("OFFSET") {
        return "sql:skip-without-first".to_string();
    }
    if msg.contains("misuse of aggregate") {
        return "sql:reference-filter-in-aggregate-query".to_string();
    }
    let syntax = msg.contains("syntax error") || msg.contains("unrecognized token");
    if syntax && facts.alias_candidates.iter().any(|a| a.starts_with('$')) {
        return "sql:alias-starting-with-a-dot".to_string();
    }
    if msg.contains("unknown join type") && facts.alias_candidates.iter().any(|a| is_sql_keyword(a)) {
        return "sql:reserved-word-as-table-alias".to_string();
    }
    if syntax && facts.alias_candidates.iter().any(|a| a.chars().next().map(|c| c.is_ascii_digit()).unwrap_or(false)) && !json_default_selected {
        return "sql:digit-first-identifier-as-table-alias".to_string();
    }
    if msg.contains("JSON cannot hold BLOB values") {
        return "sql:aggregate-on-binary-system-field".to_string();
    }
    if let Some(i) = msg.find("no such column: ") {
        let col = msg[i + 16..].trim();
        if facts.alias_candidates.iter().any(|a| a == col) {
            return "sql:filter-on-system-reference-field".to_string();
        }
    }
    if msg.contains("no such column: sys_peer") || msg.contains("no such column: sys_room") {
        return "sql:filter-on-system-reference-field".to_string();
    }
    // "<literal>AND": a filter on a literal followed by a json filter
    if let Some(tok) = &near {
        if (tok.ends_with("AND") && tok.len() > 3) || (tok == "_json" && msg.contains("syntax error")) {
            return "sql:literal-filter-then-json-filter-missing-space".to_string();
        }
    }
    if let Some(tok) = &near {
        let tl = tok.to_lowercase();
        if is_sql_keyword(&tl) && facts.alias_candidates.iter().any(|a| a.to_lowercase() == tl) {
            return "sql:reserved-word-as-table-alias".to_string();
        }
        if (tl == "." || tl == "(") && facts.alias_candidates.iter().any(|a| is_sql_keyword(a)) {
            return "sql:reserved-word-as-table-alias".to_string();
        }
        if facts
            .alias_candidates
            .iter()
            .any(|a| a.chars().next().map(|c| c.is_ascii_digit()).unwrap_or(false) && a.contains(tok.as_str()) && tok.len() > 1)
        {
            return "sql:digit-first-identifier-as-table-alias".to_string();
        }
        if tok.chars().next().map(|c| c.is_ascii_digit()).unwrap_or(false)
            && facts
                .alias_candidates
                .iter()
                .any(|a| a.chars().next().map(|c| c.is_ascii_digit()).unwrap_or(false) && (a.starts_with(tok.as_str()) || tok.starts_with(a.as_str())))
        {
            return "sql:digit-first-identifier-as-table-alias".to_string();
        }
    }
    if msg.starts_with("ambiguous column name") {
        return "sql:ambiguous-system-column-in-sub-entity".to_string();
    }
    if facts.filter_on_system_alias && (msg.contains("no such column") || near.is_some()) {
        return "sql:filter-on-alias-of-system-field".to_string();
    }
    if msg.contains("no such column: inf") || msg.contains("no such column: NaN") || msg.contains("no such column: -inf") {
        return "sql:non-finite-float-literal".to_string();
    }
    if msg.contains("syntax error") && facts.alias_candidates.iter().any(|a| is_sql_keyword(a)) && !json_default_selected {
        return "sql:reserved-word-as-table-alias".to_string();
    }
    if near.is_some() && json_default_selected {
        return "sql:json-field-default-missing-paren".to_string();
    }
    if quote_in_string_default && (near.is_some() || msg.contains("unrecognized token")) {
        return "sql:quote-in-string-default".to_string();
    }
    if msg.contains("NATURAL join may not have") || msg.contains("a JOIN clause is required before") {
        // an entity called natural / using ... is read as a join keyword
        return "sql:reserved-word-as-table-alias".to_string();
    }
    // last resort before an unclassified signature: the table aliases the statement really uses (read from the SQL
    // text the engine quotes in its message). The entity name / alias is written unquoted after the table name.
    let engine_refused = msg.contains("syntax error") || msg.contains("unrecognized token") || msg.contains("no such column") || msg.contains("unknown join type");
    if engine_refused {
        let aliases = sql_table_aliases(full_msg);
        if aliases.iter().any(|a| a.starts_with('$')) {
            return "sql:alias-starting-with-a-dot".to_string();
        }
        if aliases.iter().any(|a| is_sql_keyword(a)) {
            return "sql:reserved-word-as-table-alias".to_string();
        }
        if aliases.iter().any(|a| a.chars().next().map(|c| c.is_ascii_digit()).unwrap_or(false)) {
            return "sql:digit-first-identifier-as-table-alias".to_string();
        }
    }
    format!("sql:{}:{}", kind, normalise_sql_msg(msg))
}

/// the identifiers that follow `_node ` in the SQL text quoted by an engine error message
pub fn sql_table_aliases(message: &str) -> Vec<String> {
    let mut out = vec![];
    let mut rest = message;
    while let Some(i) = rest.find("_node ") {
        let after = &rest[i + 6..];
        let alias: String = after.chars().take_while(|c| !c.is_whitespace() && *c != '\\' && *c != ',' && *c != ')').collect();
        let alias = alias.split("\\n").next().unwrap_or("").to_string();
        if !alias.is_empty() {
            out.push(alias);
        }
        rest = after;
    }
    out
}

// ---------------------------------------------------------------------------------------------
// parameters
// ---------------------------------------------------------------------------------------------

/// a parameter value that can be stored in a case
#[derive(Clone, Debug, PartialEq)]
pub enum PVal {
    Null,
    Bool(bool),
    Int(i64),
    Float(f64),
    Str(String),
}

pub fn build_params(list: &[(String, PVal)]) -> Parameters {
    let mut p = Parameters::new();
    for (k, v) in list {
        let _ = match v {
            PVal::Null => p.add_null(k),
            PVal::Bool(b) => p.add(k, *b),
            PVal::Int(i) => p.add(k, *i),
            PVal::Float(f) => p.add(k, *f),
            PVal::Str(s) => p.add(k, s.clone()),
        };
    }
    p
}

/// variables of a parsed request and their types, read from the Debug output of `Variables`
/// (the field is private): `(name, type name, nullable)`
pub fn variables_of(debug: &str) -> Vec<(String, String, bool)> {
    // Variables { vars: {"name": Variable { var_type: String(false) }, ...} }
    let mut out = Vec::new();
    let mut rest = debug;
    while let Some(i) = rest.find("\": Variable { var_type: ") {
        // name = text between the previous unescaped quote and i
        let head = &rest[..i];
        let start = match head.rfind('"') {
            Some(s) => s + 1,
            None => break,
        };
        let name = head[start..].to_string();
        let after = &rest[i + "\": Variable { var_type: ".len()..];
        let end = after.find(' ').unwrap_or(after.len());
        let ty = &after[..end];
        let (tname, nullable) = match ty.find('(') {
            Some(p) => (ty[..p].to_string(), ty.contains("true")),
            None => (ty.to_string(), false),
        };
        out.push((name, tname, nullable));
        rest = &after[end..];
    }
    out.sort();
    out
}

/// a valid value for a variable type; `salt` selects among a few shapes (null when nullable)
pub fn plausible_value(ty: &str, nullable: bool, salt: u8) -> PVal {
    if nullable && salt % 4 == 3 {
        return PVal::Null;
    }
    match ty {
        "Boolean" => PVal::Bool(salt % 2 == 0),
        "Integer" => PVal::Int([0, 1, -1, 42, i64::MAX, i64::MIN][(salt as usize / 4) % 6]),
        "Float" => PVal::Float([0.0, 1.5, -2.25, 1e300, 5e-324][(salt as usize / 4) % 5]),
        "Base64" | "Binary" => PVal::Str(["AAAAAAAAAAAAAAAAAAAAAA", "emV0emV0", "", "AQ"][(salt as usize / 4) % 4].to_string()),
        "Json" => PVal::Str(["{}", "[1,2]", "{\"a\":{\"b\":[1]}}"][(salt as usize / 4) % 3].to_string()),
        _ => PVal::Str(["x", "", "it's", "{\"a\":1}", "日本語", "\u{0}"][(salt as usize / 4) % 6].to_string()),
    }
}

// ---------------------------------------------------------------------------------------------
// in-memory execution path
// ---------------------------------------------------------------------------------------------

#[derive(Clone, Debug, PartialEq, Eq)]
pub enum Verdict {
    /// rejected by the grammar
    GrammarErr,
    /// accepted by the grammar, rejected by the semantic layer of the parser
    SemanticErr,
    /// parsed, rejected while validating parameters or while reading what the request refers to
    ExecErr,
    /// parsed and executed
    Ok,
    /// parsed, then rejected by the database engine (message inside)
    SqlErr(String),
    /// parsed, engine error caused by the data of a full text search expression
    DataErr(String),
    /// the call panicked (the panic record is in the global list)
    Panicked,
}

#[derive(Clone, Debug)]
pub struct StepOut {
    pub verdict: Verdict,
    /// true when the text passed the pest grammar (it reached the semantic layer)
    pub passed_grammar: bool,
    pub result: Option<String>,
    pub error: Option<String>,
}

fn grammar_error(msg: &str) -> bool {
    // pest errors are rendered with a position line " --> line:col"
    msg.contains(" --> ") && msg.contains("expected")
}

pub struct MemWorld {
    pub model: DataModel,
    pub conn: rusqlite::Connection,
    pub key: Ed25519SigningKey,
    pub model_text: String,
}

pub const PROBE_MODEL: &str = "zzprobe { P { name: String, n: Integer default 7 } }";

impl MemWorld {
    /// system model + `model_text` (+ the probe namespace when `with_probe`), the indexes of the
    /// model are created on the connection exactly as `GraphDatabase::update_data_model` does
    pub fn new(model_text: &str, with_probe: bool) -> Result<MemWorld, StepOut> {
        let conn = rusqlite::Connection::open_in_memory().expect("in-memory connection");
        prepare_connection(&conn).expect("prepare_connection");
        let mut w = MemWorld {
            model: DataModel::new(),
            conn,
            key: Ed25519SigningKey::create_from(blake3::hash(b"c14 mem world").as_bytes()),
            model_text: String::new(),
        };
        w.model.update_system(SYSTEM_DATA_MODEL).expect("system data model");
        let full = if with_probe {
            format!("{}\n{}", model_text, PROBE_MODEL)
        } else {
            model_text.to_string()
        };
        let out = w.update_model(&full);
        match out.verdict {
            Verdict::Ok => Ok(w),
            _ => Err(out),
        }
    }

    /// removes every row (the schema, the model and the indexes stay): lets a world be reused
    pub fn reset_data(&mut self) {
        for sql in [
            "DELETE FROM _node",
            "DELETE FROM _edge",
            "DELETE FROM _node_deletion_log",
            "DELETE FROM _edge_deletion_log",
            "DELETE FROM _daily_log",
            "INSERT INTO _node_fts(_node_fts) VALUES('delete-all')",
        ] {
            let _ = self.conn.execute(sql, []);
        }
    }

    /// `DataModel::update` on a clone (a refused model leaves the world unchanged), then index DDL
    pub fn update_model(&mut self, text: &str) -> StepOut {
        let mut candidate = self.model.clone();
        let r = guard(|| candidate.update(text));
        let r = match r {
            None => return StepOut { verdict: Verdict::Panicked, passed_grammar: false, result: None, error: None },
            Some(r) => r,
        };
        if let Err(e) = r {
            let msg = e.to_string();
            let g = grammar_error(&msg);
            return StepOut {
                verdict: if g { Verdict::GrammarErr } else { Verdict::SemanticErr },
                passed_grammar: !g,
                result: None,
                error: Some(msg),
            };
        }
        // index statements
        let ddl = guard(|| -> Result<(), rusqlite::Error> {
            for ns in candidate.namespaces() {
                for entity in ns.1 {
                    for (name, _) in &entity.1.indexes_to_remove {
                        let exists: Option<i64> = {
                            use rusqlite::OptionalExtension;
                            self.conn
                                .query_row("SELECT 1 FROM sqlite_master WHERE type= 'index' AND name = ? ", [name], |r| r.get(0))
                                .optional()?
                        };
                        if exists.is_some() {
                            self.conn.execute(&format!("DROP INDEX {}", name), [])?;
                        }
                    }
                    for (name, idx) in &entity.1.indexes {
                        let exists: Option<i64> = {
                            use rusqlite::OptionalExtension;
                            self.conn
                                .query_row("SELECT 1 FROM sqlite_master WHERE type= 'index' AND name = ? ", [name], |r| r.get(0))
                                .optional()?
                        };
                        if exists.is_none() {
                            self.conn.execute(&idx.create_query(), [])?;
                        }
                    }
                }
            }
            Ok(())
        });
        match ddl {
            None => StepOut { verdict: Verdict::Panicked, passed_grammar: true, result: None, error: None },
            Some(Err(e)) => StepOut {
                verdict: Verdict::SqlErr(e.to_string()),
                passed_grammar: true,
                result: None,
                error: Some(e.to_string()),
            },
            Some(Ok(())) => {
                self.model = candidate;
                self.model_text = text.to_string();
                StepOut { verdict: Verdict::Ok, passed_grammar: true, result: None, error: None }
            }
        }
    }

    fn from_db_error(e: dv::database::Error, parsed_stage: bool) -> StepOut {
        let text = e.to_string();
        if let Some(sql) = sql_error_text(&e) {
            let verdict = if is_data_error(&sql) { Verdict::DataErr(sql.clone()) } else { Verdict::SqlErr(sql.clone()) };
            return StepOut { verdict, passed_grammar: true, result: None, error: Some(text) };
        }
        let _ = parsed_stage;
        StepOut { verdict: Verdict::ExecErr, passed_grammar: true, result: None, error: Some(text) }
    }

    fn from_parse_error(msg: String) -> StepOut {
        let g = grammar_error(&msg);
        StepOut {
            verdict: if g { Verdict::GrammarErr } else { Verdict::SemanticErr },
            passed_grammar: !g,
            result: None,
            error: Some(msg),
        }
    }

    fn panicked(passed_grammar: bool) -> StepOut {
        StepOut { verdict: Verdict::Panicked, passed_grammar, result: None, error: None }
    }

    /// variables of the request (None when it does not parse)
    pub fn request_variables(&self, kind: char, text: &str) -> Option<Vec<(String, String, bool)>> {
        let dbg = guard(|| match kind {
            'q' => QueryParser::parse(text, &self.model).ok().map(|p| format!("{:?}", p.variables)),
            'm' => MutationParser::parse(text, &self.model).ok().map(|p| format!("{:?}", p.variables)),
            _ => DeletionParser::parse(text, &self.model).ok().map(|p| format!("{:?}", p.variables)),
        })??;
        Some(variables_of(&dbg))
    }

    /// parse -> MutationQuery::execute -> sign_all -> write in a transaction -> result JSON
    pub fn mutate(&mut self, text: &str, params: &[(String, PVal)]) -> StepOut {
        let parsed = match guard(|| MutationParser::parse(text, &self.model)) {
            None => return Self::panicked(false),
            Some(Err(e)) => return Self::from_parse_error(e.to_string()),
            Some(Ok(p)) => Arc::new(p),
        };
        let mut p = build_params(params);
        let exec = guard(|| MutationQuery::execute(&mut p, parsed.clone(), &self.conn));
        let mut mq = match exec {
            None => return Self::panicked(true),
            Some(Err(e)) => return Self::from_db_error(e, true),
            Some(Ok(m)) => m,
        };
        let signed = guard(|| mq.sign_all(&self.key));
        match signed {
            None => return Self::panicked(true),
            Some(Err(e)) => return Self::from_db_error(e, true),
            Some(Ok(())) => {}
        }
        let _ = self.conn.execute("BEGIN TRANSACTION", []);
        let written = guard(|| mq.write(&self.conn));
        match written {
            None => {
                let _ = self.conn.execute("ROLLBACK", []);
                return Self::panicked(true);
            }
            Some(Err(e)) => {
                let _ = self.conn.execute("ROLLBACK", []);
                return Self::from_db_error(dv::database::Error::Database(e), true);
            }
            Some(Ok(())) => {
                let _ = self.conn.execute("COMMIT", []);
            }
        }
        match guard(|| mq.result()) {
            None => Self::panicked(true),
            Some(Err(e)) => Self::from_db_error(e, true),
            Some(Ok(s)) => StepOut { verdict: Verdict::Ok, passed_grammar: true, result: Some(s), error: None },
        }
    }

    /// parse -> PreparedQueries::build -> Query::read
    pub fn query(&mut self, text: &str, params: &[(String, PVal)]) -> StepOut {
        let parsed = match guard(|| QueryParser::parse(text, &self.model)) {
            None => return Self::panicked(false),
            Some(Err(e)) => return Self::from_parse_error(e.to_string()),
            Some(Ok(p)) => p,
        };
        let prepared = match guard(|| PreparedQueries::build(&parsed)) {
            None => return Self::panicked(true),
            Some(Err(e)) => return Self::from_db_error(e, true),
            Some(Ok(p)) => p,
        };
        let mut q = Query {
            parameters: build_params(params),
            parser: Arc::new(parsed),
            sql_queries: Arc::new(prepared),
        };
        match guard(|| q.read(&self.conn)) {
            None => Self::panicked(true),
            Some(Err(e)) => Self::from_db_error(e, true),
            Some(Ok(s)) => StepOut { verdict: Verdict::Ok, passed_grammar: true, result: Some(s), error: None },
        }
    }

    /// parse -> DeletionQuery::build -> delete in a transaction
    pub fn delete(&mut self, text: &str, params: &[(String, PVal)]) -> StepOut {
        let parsed = match guard(|| DeletionParser::parse(text, &self.model)) {
            None => return Self::panicked(false),
            Some(Err(e)) => return Self::from_parse_error(e.to_string()),
            Some(Ok(p)) => Arc::new(p),
        };
        let mut p = build_params(params);
        let mut dq = match guard(|| DeletionQuery::build(&mut p, parsed, &self.conn)) {
            None => return Self::panicked(true),
            Some(Err(e)) => return Self::from_db_error(e, true),
            Some(Ok(d)) => d,
        };
        let _ = self.conn.execute("BEGIN TRANSACTION", []);
        match guard(|| dq.delete(&self.conn)) {
            None => {
                let _ = self.conn.execute("ROLLBACK", []);
                Self::panicked(true)
            }
            Some(Err(e)) => {
                let _ = self.conn.execute("ROLLBACK", []);
                Self::from_db_error(dv::database::Error::Database(e), true)
            }
            Some(Ok(())) => {
                let _ = self.conn.execute("COMMIT", []);
                StepOut { verdict: Verdict::Ok, passed_grammar: true, result: None, error: None }
            }
        }
    }

    /// the fixed probe: one mutation, one query whose answer is checked against what was written
    pub fn probe(&mut self, k: u64) -> Result<(), String> {
        let name = format!("probe-{}", k);
        let m = self.mutate(
            "mutate { zzprobe.P { name: $name } }",
            &[("name".to_string(), PVal::Str(name.clone()))],
        );
        if m.verdict != Verdict::Ok {
            return Err(format!("probe mutation: {:?} {:?}", m.verdict, m.error));
        }
        let q = self.query(
            "query { zzprobe.P (name = $name) { id name n } }",
            &[("name".to_string(), PVal::Str(name.clone()))],
        );
        if q.verdict != Verdict::Ok {
            return Err(format!("probe query: {:?} {:?}", q.verdict, q.error));
        }
        check_probe_answer(q.result.as_deref().unwrap_or(""), &name)
    }
}

/// the probe query must return exactly the row written by the probe mutation
pub fn check_probe_answer(json: &str, name: &str) -> Result<(), String> {
    let v: serde_json::Value = serde_json::from_str(json).map_err(|e| format!("probe answer is not JSON: {} ({})", e, json))?;
    let rows = v
        .get("zzprobe.P")
        .and_then(|r| r.as_array())
        .ok_or_else(|| format!("probe answer has no zzprobe.P array: {}", json))?;
    if rows.len() != 1 {
        return Err(format!("probe answer has {} rows instead of 1: {}", rows.len(), json));
    }
    let row = &rows[0];
    if row.get("name").and_then(|n| n.as_str()) != Some(name) {
        return Err(format!("probe answer has the wrong name: {}", json));
    }
    if row.get("n").and_then(|n| n.as_i64()) != Some(7) {
        return Err(format!("probe answer misses the default value: {}", json));
    }
    if row.get("id").and_then(|n| n.as_str()).map(|s| s.len()) != Some(22) {
        return Err(format!("probe answer has no id: {}", json));
    }
    Ok(())
}

// ---------------------------------------------------------------------------------------------
// direct calls on the four parsers and Parameters::from_json (no model needed beyond `model`)
// ---------------------------------------------------------------------------------------------

/// result of feeding one text to one parser: (passed the grammar, accepted, panicked)
#[derive(Clone, Copy, Debug, Default)]
pub struct ParseOut {
    pub passed_grammar: bool,
    pub accepted: bool,
    pub panicked: bool,
}

pub fn parse_model_text(text: &str) -> ParseOut {
    let r = guard(|| {
        let mut dm = DataModel::new();
        dm.update(text)
    });
    match r {
        None => ParseOut { panicked: true, ..Default::default() },
        Some(Ok(())) => ParseOut { passed_grammar: true, accepted: true, panicked: false },
        Some(Err(e)) => ParseOut { passed_grammar: !grammar_error(&e.to_string()), accepted: false, panicked: false },
    }
}

pub fn parse_params_json(text: &str) -> ParseOut {
    match guard(|| Parameters::from_json(text)) {
        None => ParseOut { panicked: true, ..Default::default() },
        Some(Ok(_)) => ParseOut { passed_grammar: true, accepted: true, panicked: false },
        Some(Err(e)) => {
            // "grammar" of parameters = JSON
            let json_ok = serde_json::from_str::<serde_json::Value>(text).is_ok();
            let _ = e;
            ParseOut { passed_grammar: json_ok, accepted: false, panicked: false }
        }
    }
}

// ---------------------------------------------------------------------------------------------
// wire types
// ---------------------------------------------------------------------------------------------

pub mod wire {
    use super::dv;
    use super::guard;
    use dv::database::daily_log::{DailyLog, RoomDefinitionLog};
    use dv::database::edge::{Edge, EdgeDeletionEntry};
    use dv::database::node::{Node, NodeDeletionEntry, NodeIdentifier};
    use dv::database::room_node::RoomNode;
    use dv::database::system_entities::Invite;
    use dv::network::{Announce, AnnounceHeader, ConnectionInfo};
    use dv::security::HardwareFingerprint;
    use dv::signature_verification_service::SignatureVerificationService;
    use dv::synchronisation::{Answer, IdentityAnswer, QueryProtocol, RemoteEvent};
    use std::collections::{HashSet, VecDeque};

    pub const KINDS: usize = 20;

    /// decodes `bytes` as the wire type number `kind` and, when it decodes, runs the checks the
    /// receiving side runs on such a value before touching the database (signature verification,
    /// consistency checks). Returns (decoded, name of the type, panicked)
    pub fn decode_and_check(kind: usize, bytes: &[u8]) -> (bool, &'static str, bool) {
        macro_rules! dec {
            ($t:ty, $name:expr, $check:expr) => {{
                let r = guard(|| match bincode::deserialize::<$t>(bytes) {
                    Ok(v) => {
                        let f: fn($t) = $check;
                        f(v);
                        true
                    }
                    Err(_) => false,
                });
                match r {
                    Some(d) => (d, $name, false),
                    None => (true, $name, true),
                }
            }};
        }
        match kind % KINDS {
            0 => dec!(QueryProtocol, "QueryProtocol", |_v| {}),
            1 => dec!(Answer, "Answer", |_v| {}),
            2 => dec!(RemoteEvent, "RemoteEvent", |_v| {}),
            3 => dec!(IdentityAnswer, "IdentityAnswer", |v| {
                let _ = v.verify(&[7u8; 32]);
                let _ = dv::database::system_entities::Peer::validate(&v.peer);
            }),
            4 => dec!(Node, "Node", |v| {
                let _ = v.verify();
            }),
            5 => dec!(Edge, "Edge", |v| {
                let _ = v.verify();
            }),
            6 => dec!(NodeDeletionEntry, "NodeDeletionEntry", |v| {
                let _ = v.verify();
            }),
            7 => dec!(EdgeDeletionEntry, "EdgeDeletionEntry", |v| {
                let _ = v.verify();
            }),
            8 => dec!(Invite, "Invite", |v| {
                let _ = v.hash();
            }),
            9 => dec!(RoomNode, "RoomNode", |v| {
                let _ = v.check_consistency();
                let _ = SignatureVerificationService::room_check(v);
            }),
            10 => dec!(Vec<Node>, "Vec<Node>", |v| {
                let _ = SignatureVerificationService::nodes_check(v);
            }),
            11 => dec!(Vec<Edge>, "Vec<Edge>", |v| {
                let _ = SignatureVerificationService::edges_check(v);
            }),
            12 => dec!(Vec<NodeDeletionEntry>, "Vec<NodeDeletionEntry>", |v| {
                let _ = SignatureVerificationService::node_log_check(v);
            }),
            13 => dec!(Vec<EdgeDeletionEntry>, "Vec<EdgeDeletionEntry>", |v| {
                let _ = SignatureVerificationService::edge_log_check(v);
            }),
            14 => dec!(Vec<DailyLog>, "Vec<DailyLog>", |_v| {}),
            15 => dec!(Option<RoomDefinitionLog>, "Option<RoomDefinitionLog>", |_v| {}),
            16 => dec!(HashSet<NodeIdentifier>, "HashSet<NodeIdentifier>", |_v| {}),
            17 => dec!(ConnectionInfo, "ConnectionInfo", |_v| {}),
            18 => dec!(Announce, "Announce", |v| {
                let _: AnnounceHeader = v.header;
            }),
            _ => dec!((HardwareFingerprint, VecDeque<[u8; 16]>), "HardwareFingerprint+RoomList", |_v| {}),
        }
    }
}

/// `import_verifying_key` + `verify` exactly as `VerificationMessage::Hash` does
pub fn verify_hash_direct(signature: &[u8], hash: &[u8; 32], key: &[u8]) -> Option<bool> {
    guard(|| match dv::security::import_verifying_key(key) {
        Ok(k) => k.verify(hash, signature).is_ok(),
        Err(_) => false,
    })
}

pub fn field_type_name(t: &FieldType) -> &'static str {
    match t {
        FieldType::Array(_) => "Array",
        FieldType::Entity(_) => "Entity",
        FieldType::Boolean => "Boolean",
        FieldType::Float => "Float",
        FieldType::Base64 => "Base64",
        FieldType::Integer => "Integer",
        FieldType::String => "String",
        FieldType::Json => "Json",
    }
}

pub fn signing_key(name: &str) -> Ed25519SigningKey {
    Ed25519SigningKey::create_from(blake3::hash(format!("c14 key {}", name).as_bytes()).as_bytes())
}

pub fn verifying_key_of(k: &Ed25519SigningKey) -> Vec<u8> {
    k.export_verifying_key()
}

// ---------------------------------------------------------------------------------------------
// the two coverage guided targets (the libFuzzer binaries of /verif/fuzz call these functions;
// the check replays crash artifacts through them without needing the fuzz build)
// ---------------------------------------------------------------------------------------------

#[derive(Clone, Debug)]
pub struct Finding {
    pub signature: String,
    pub detail: String,
}

#[derive(Clone, Debug, Default)]
pub struct FuzzStats {
    pub texts: u64,
    pub passed_grammar: u64,
    pub executed: u64,
    pub decoded: u64,
}

pub const FUZZ_DEFAULT_MODEL: &str = "{ Person { name: String, surname: String nullable, age: Integer nullable, weight: Float nullable, is_human: Boolean default true, data: Json nullable, bin: Base64 nullable, parents: [Person], pet: Pet nullable } Pet { name: String default \"rex\", age: Integer nullable } }";

fn drain_panics(stage: &str, detail: &str, out: &mut Vec<Finding>) -> usize {
    let ps = take_panics();
    let n = ps.len();
    for p in ps {
        out.push(Finding {
            signature: panic_signature(&p, stage),
            detail: format!("{}:{} {} [{}]", p.file, p.line, p.msg, detail),
        });
    }
    n
}

fn lossy(b: &[u8]) -> String {
    String::from_utf8_lossy(b).into_owned()
}

fn strip_lead(s: &str) -> &str {
    let mut t = s.trim_start();
    while t.starts_with("//") {
        match t.find('\n') {
            Some(i) => t = t[i + 1..].trim_start(),
            None => return "",
        }
    }
    t
}

/// target `parse_texts`: sections separated by NUL bytes. The first section is a data model
/// (the default model is used when it is refused), the following ones are requests (dispatched
/// on their first word), a section that is a JSON object gives the parameters of the next
/// requests (otherwise every variable gets a plausible value).
pub fn fuzz_parse_texts(data: &[u8]) -> (Vec<Finding>, FuzzStats) {
    install_hook();
    let _ = take_panics();
    let mut out = Vec::new();
    let mut stats = FuzzStats::default();
    let mut sections = data.split(|b| *b == 0).take(9);
    let model_text = lossy(sections.next().unwrap_or(b""));
    stats.texts += 1;
    // worlds are cached by model text and emptied before each input (building one costs more
    // than everything else)
    thread_local! {
        static WORLDS: std::cell::RefCell<Vec<(String, Option<MemWorld>)>> = std::cell::RefCell::new(Vec::new());
    }
    let cached = WORLDS.with(|w| {
        let mut w = w.borrow_mut();
        match w.iter().position(|e| e.0 == model_text) {
            Some(i) => Some(w.remove(i).1),
            None => None,
        }
    });
    let mut world: Option<MemWorld> = match cached {
        Some(w) => w,
        None => {
            // the model text alone, then a world built from it
            let pm = parse_model_text(&model_text);
            if pm.passed_grammar {
                stats.passed_grammar += 1;
            }
            drain_panics("parse.model", &model_text.chars().take(300).collect::<String>(), &mut out);
            let w = if pm.accepted {
                match MemWorld::new(&model_text, true) {
                    Ok(w) => Some(w),
                    Err(o) => {
                        if let Verdict::SqlErr(m) = &o.verdict {
                            out.push(Finding {
                                signature: classify_sql("model", m, &facts_from_text(&model_text, "")),
                                detail: format!("{} | model: {}", m, model_text.chars().take(600).collect::<String>()),
                            });
                        }
                        None
                    }
                }
            } else {
                None
            };
            drain_panics("parse.model", "model setup", &mut out);
            w
        }
    };
    let own_model = world.is_some();
    if world.is_none() {
        let cached_default = WORLDS.with(|w| {
            let mut w = w.borrow_mut();
            match w.iter().position(|e| e.0 == FUZZ_DEFAULT_MODEL) {
                Some(i) => w.remove(i).1,
                None => None,
            }
        });
        world = match cached_default {
            Some(w) => Some(w),
            None => MemWorld::new(FUZZ_DEFAULT_MODEL, true).ok(),
        };
    }
    let mut world = match world {
        Some(w) => w,
        None => return (out, stats),
    };
    world.reset_data();
    let (f, st) = fuzz_requests(&mut world, sections, stats);
    out.extend(f);
    let stats = st;
    // back into the cache (a refused model is remembered as such)
    WORLDS.with(|w| {
        let mut w = w.borrow_mut();
        if own_model {
            w.push((model_text.clone(), Some(world)));
        } else {
            w.push((model_text.clone(), None));
            w.push((FUZZ_DEFAULT_MODEL.to_string(), Some(world)));
        }
        while w.len() > 12 {
            w.remove(0);
        }
    });
    (out, stats)
}

/// nesting depth of braces and brackets (the targets leave deep nesting to the bomb cases of the
/// check: a stack overflow cannot be tolerated in-process)
pub fn nesting_depth(text: &str) -> usize {
    let mut d = 0usize;
    let mut max = 0usize;
    for c in text.chars() {
        match c {
            '{' | '[' | '(' => {
                d += 1;
                max = max.max(d);
            }
            '}' | ']' | ')' => d = d.saturating_sub(1),
            _ => {}
        }
    }
    max
}

fn fuzz_requests<'a>(world: &mut MemWorld, sections: impl Iterator<Item = &'a [u8]>, mut stats: FuzzStats) -> (Vec<Finding>, FuzzStats) {
    let mut out = Vec::new();
    let mut fixed_params: Option<Vec<(String, PVal)>> = None;
    let mut k = 0u64;
    for sec in sections {
        let text = lossy(sec);
        let lead = strip_lead(&text);
        if lead.starts_with("{\"") || lead == "{}" {
            stats.texts += 1;
            let p = parse_params_json(&text);
            drain_panics("parse.params", &text.chars().take(300).collect::<String>(), &mut out);
            if p.accepted {
                let mut v = Vec::new();
                if let Ok(serde_json::Value::Object(m)) = serde_json::from_str::<serde_json::Value>(&text) {
                    for (k, val) in m {
                        let pv = match val {
                            serde_json::Value::Null => PVal::Null,
                            serde_json::Value::Bool(b) => PVal::Bool(b),
                            serde_json::Value::Number(n) => match n.as_i64() {
                                Some(i) => PVal::Int(i),
                                None => PVal::Float(n.as_f64().unwrap_or(0.0)),
                            },
                            serde_json::Value::String(s) => PVal::Str(s),
                            _ => continue,
                        };
                        v.push((k, pv));
                    }
                }
                fixed_params = Some(v);
            }
            continue;
        }
        if nesting_depth(&text) > 9 {
            continue;
        }
        let kinds: &[char] = if lead.starts_with("query") {
            &['q']
        } else if lead.starts_with("mutate") {
            &['m']
        } else if lead.starts_with("delete") {
            &['d']
        } else {
            &['q', 'm', 'd']
        };
        for kind in kinds {
            stats.texts += 1;
            let salt = text.bytes().fold(0u8, |a, b| a.wrapping_mul(31).wrapping_add(b));
            let params: Vec<(String, PVal)> = match &fixed_params {
                Some(p) => p.clone(),
                None => world
                    .request_variables(*kind, &text)
                    .unwrap_or_default()
                    .iter()
                    .enumerate()
                    .map(|(i, (n, ty, nullable))| (n.clone(), plausible_value(ty, *nullable, salt.wrapping_add((i * 37) as u8))))
                    .collect(),
            };
            let (stage, o) = match kind {
                'q' => ("mem.query", world.query(&text, &params)),
                'm' => ("mem.mutate", world.mutate(&text, &params)),
                _ => ("mem.delete", world.delete(&text, &params)),
            };
            if o.passed_grammar {
                stats.passed_grammar += 1;
            }
            let detail = format!("{} | model: {}", text.chars().take(600).collect::<String>(), world.model_text.chars().take(400).collect::<String>());
            match &o.verdict {
                Verdict::Ok => stats.executed += 1,
                Verdict::SqlErr(m) => {
                    let facts = facts_from_text(&world.model_text, &text);
                    out.push(Finding {
                        signature: classify_sql(stage.trim_start_matches("mem."), m, &facts),
                        detail: format!("{} | {}", m, detail),
                    });
                }
                _ => {}
            }
            let n = drain_panics(stage, &detail, &mut out);
            if n == 0 && o.passed_grammar {
                k += 1;
                if let Err(e) = world.probe(k) {
                    if drain_panics(stage, &detail, &mut out) == 0 {
                        out.push(Finding { signature: format!("probe-failed@{}", stage), detail: format!("{} after {}", e, detail) });
                    }
                }
            }
        }
    }
    (out, stats)
}

/// target `wire_decode`: the first byte selects the wire type, the rest is decoded with bincode
/// and, when it decodes, checked the way the receiving side checks it
pub fn fuzz_wire_decode(data: &[u8]) -> (Vec<Finding>, FuzzStats) {
    install_hook();
    let _ = take_panics();
    let mut out = Vec::new();
    let mut stats = FuzzStats::default();
    if data.is_empty() {
        return (out, stats);
    }
    let kind = data[0] as usize % wire::KINDS;
    let (decoded, name, _panicked) = wire::decode_and_check(kind, &data[1..]);
    stats.texts = 1;
    if decoded {
        stats.decoded = 1;
    }
    let stage = match kind {
        0 | 1 | 2 => "wire.decode",
        3 => "pull",
        8 => "invite",
        9 | 14 | 15 | 16 => "pull",
        17 | 18 | 19 => "wire.decode",
        _ => "row.verify",
    };
    let hex: String = data.iter().take(120).map(|b| format!("{:02x}", b)).collect();
    drain_panics(stage, &format!("{} from {} bytes: {}", name, data.len(), hex), &mut out);
    (out, stats)
}
