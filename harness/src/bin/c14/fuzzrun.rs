//! thorough tier: runs the coverage guided campaigns of /verif/fuzz (`run.sh`) and folds the
//! result into the outcome. A crash artifact becomes a violation (its signature is recomputed
//! here, in-process, by the same oracle) and is saved as a replayable `Case::Artifact`.

use crate::shared;
use crate::{Case, FuzzCase};
use dv::engine::{Outcome, RunCtx};

pub fn hex(b: &[u8]) -> String {
    b.iter().map(|x| format!("{:02x}", x)).collect()
}
pub fn unhex(s: &str) -> Vec<u8> {
    (0..s.len() / 2).filter_map(|i| u8::from_str_radix(&s[2 * i..2 * i + 2], 16).ok()).collect()
}

/// runs one artifact (or any input of a fuzz target) through the oracle
pub fn run_artifact(target: &str, bytes: &[u8], o: &mut Outcome) {
    let (findings, stats) = match target {
        "parse_texts" => shared::fuzz_parse_texts(bytes),
        _ => shared::fuzz_wire_decode(bytes),
    };
    o.count("artifact_texts", stats.texts);
    o.nontrivial = stats.passed_grammar > 0 || stats.decoded > 0;
    for f in findings {
        o.violation(f.signature, f.detail.replace('\n', "\\n"));
    }
}

pub fn run_fuzz(f: &FuzzCase, ctx: &RunCtx, o: &mut Outcome) {
    if ctx.replay {
        // a campaign is not a replayable input: its artifacts are (Case::Artifact)
        o.label("fuzz:campaign-not-replayed");
        return;
    }
    let seed = std::env::var("VERIF_SEED").ok().and_then(|s| s.trim().parse::<i64>().ok()).unwrap_or(0);
    let mode = if f.seeded { "seeded" } else { "empty" };
    let out = std::process::Command::new("/verif/fuzz/run.sh")
        .arg(&f.target)
        .arg(f.seconds.to_string())
        .arg(((seed as u64) % 1_000_000 + 1).to_string())
        .arg(mode)
        .output();
    let out = match out {
        Ok(x) => x,
        Err(e) => {
            o.discard = Some(format!("fuzz-run-failed:{}", e));
            return;
        }
    };
    let stdout = String::from_utf8_lossy(&out.stdout).to_string();
    let line = stdout.lines().rev().find(|l| l.starts_with("C14-FUZZ")).unwrap_or("").to_string();
    if line.is_empty() || line.contains("build=failed") {
        o.discard = Some("fuzz-build-failed".into());
        o.label("fuzz:build-failed");
        return;
    }
    let field = |k: &str| -> String {
        line.split_whitespace().find_map(|t| t.strip_prefix(&format!("{}=", k)).map(|s| s.to_string())).unwrap_or_default()
    };
    let execs: u64 = field("execs").parse().unwrap_or(0);
    o.count(&format!("fuzz_execs:{}:{}", f.target, mode), execs);
    o.count("fuzz_artifacts", field("artifacts").parse().unwrap_or(0));
    o.count("fuzz_tolerated_signatures", field("tolerated").parse().unwrap_or(0));
    o.label(format!("fuzz:{}:{}", f.target, mode));
    o.nontrivial = execs > 0;
    let dir = field("dir");
    // tolerated findings: hits of known signatures
    if let Ok(t) = std::fs::read_to_string(format!("{}/tolerated.txt", dir)) {
        let mut seen: Vec<String> = Vec::new();
        for l in t.lines() {
            if !l.is_empty() && !seen.contains(&l.to_string()) {
                seen.push(l.to_string());
                o.violation(l.to_string(), format!("tolerated inside the fuzz target {} ({})", f.target, mode));
            }
        }
    }
    let mut arts: Vec<std::path::PathBuf> = std::fs::read_dir(&dir)
        .map(|rd| rd.filter_map(|e| e.ok()).map(|e| e.path()).collect())
        .unwrap_or_default();
    arts.sort();
    for a in arts {
        let name = a.file_name().map(|n| n.to_string_lossy().to_string()).unwrap_or_default();
        if !(name.starts_with("crash-") || name.starts_with("timeout-") || name.starts_with("oom-")) || name.ends_with(".sig") {
            continue;
        }
        let bytes = match std::fs::read(&a) {
            Ok(b) => b,
            Err(_) => continue,
        };
        let before = o.violations.len();
        if name.starts_with("crash-") {
            run_artifact(&f.target, &bytes, o);
        }
        if o.violations.len() == before {
            // the in-process oracle sees nothing: keep what the campaign said
            let sig = std::fs::read_to_string(format!("{}.sig", a.display())).unwrap_or_default();
            let sig = if sig.trim().is_empty() { format!("crash:unclassified@fuzz.{}", f.target) } else { sig.trim().to_string() };
            o.violation(sig, format!("libFuzzer artifact {} ({} bytes) not reproduced in-process", a.display(), bytes.len()));
        }
        let sig = o.violations.last().map(|v| v.signature.clone()).unwrap_or_default();
        let detail = o.violations.last().map(|v| v.detail.clone()).unwrap_or_default();
        // a replayable case of its own
        let case = Case::Artifact { target: f.target.clone(), hex: hex(&bytes) };
        let file = serde_json::json!({ "property": "C14", "signature": sig, "detail": detail, "seed": seed, "case": case });
        let _ = std::fs::create_dir_all("/verif/replays/C14");
        let short: String = name.chars().take(22).collect();
        let _ = std::fs::write(format!("/verif/replays/C14/fuzz-{}-{}.json", f.target, short), serde_json::to_string_pretty(&file).unwrap());
    }
}
