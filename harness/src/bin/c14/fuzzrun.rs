//! thorough tier: runs the coverage guided campaigns of /verif/fuzz and folds the result in
use crate::FuzzCase;
use dv::engine::{Outcome, RunCtx};

pub fn run_fuzz(_f: &FuzzCase, _ctx: &RunCtx, o: &mut Outcome) {
    o.discard = Some("fuzz-not-wired".into());
}
