//! C14: no input crashes, wedges or confuses an instance.
//!
//! Case kinds:
//! * `Texts`: a batch of texts for the four parsers and `Parameters::from_json`, derived from the
//!   pest grammars of the repository (module `pest_gen`), mutated, or raw; parsed and, when they
//!   parse, executed on the in-memory path;
//! * `Requests`: a generated model and structurally valid but odd requests against it, executed on
//!   the in-memory path and, for a sample, through a real instance;
//! * `Instance`: wire queries, rows, invitation bytes, signature checks against a running instance;
//! * `Pull`: the real synchronisation code of an instance talking to a server whose answers are
//!   rewritten;
//! * `Bomb`: deeply nested texts, parsed in a child process (a stack overflow kills a process);
//! * `Fuzz`: the coverage guided campaigns of `/verif/fuzz` (thorough tier only).

mod fuzzrun;
mod inst;
mod model;
mod pest_gen;
mod shared;

use dv::engine::*;
use model::*;
use pest_gen::{Grammar, Mutation, Pools};
use proptest::prelude::*;
use proptest::strategy::BoxedStrategy;
use serde::{Deserialize, Serialize};
use shared::{classify_sql, facts_from_text, plausible_value, MemWorld, PVal, Verdict};
use std::collections::BTreeMap;

#[derive(Serialize, Deserialize, Debug, Clone)]
pub struct TextItem {
    /// 0 data model, 1 query, 2 mutation, 3 deletion, 4 parameters (JSON)
    pub target: u8,
    pub dna: Vec<u8>,
    pub muts: Vec<Mutation>,
    pub raw: Option<String>,
    pub salt: u8,
}

#[derive(Serialize, Deserialize, Debug, Clone)]
pub struct TextsCase {
    pub model: ModelSpec,
    pub items: Vec<TextItem>,
}

#[derive(Serialize, Deserialize, Debug, Clone)]
pub struct ReqCase {
    pub model: ModelSpec,
    pub reqs: Vec<Req>,
    pub via_instance: bool,
}

#[derive(Serialize, Deserialize, Debug, Clone)]
pub struct BombCase {
    /// 0 data model, 1 query, 2 mutation, 3 deletion, 4 parameters
    pub target: u8,
    pub shape: u8,
    pub depth: u32,
}

#[derive(Serialize, Deserialize, Debug, Clone)]
pub struct FuzzCase {
    pub target: String,
    pub seconds: u32,
    pub seeded: bool,
}

#[derive(Serialize, Deserialize, Debug, Clone)]
pub enum Case {
    Texts(TextsCase),
    Requests(ReqCase),
    Instance(Vec<inst::Step>),
    Pull(Vec<inst::AnswerPlan>),
    Bomb(BombCase),
    Fuzz(FuzzCase),
    /// an input of a fuzz target (a crash artifact of a campaign, or a seed)
    Artifact { target: String, hex: String },
}

// ---------------------------------------------------------------------------------------------
// strategies
// ---------------------------------------------------------------------------------------------

fn mutation_strategy() -> impl Strategy<Value = Mutation> {
    prop_oneof![
        3 => any::<u16>().prop_map(Mutation::DelTok),
        2 => any::<u16>().prop_map(Mutation::DupTok),
        2 => (any::<u16>(), any::<u16>()).prop_map(|(a, b)| Mutation::SwapTok(a, b)),
        1 => (any::<u16>(), any::<u8>()).prop_map(|(a, b)| Mutation::RepeatTok(a, b)),
        2 => (any::<u16>(), any::<u8>()).prop_map(|(a, b)| Mutation::FlipByte(a, b)),
        1 => any::<u16>().prop_map(Mutation::Truncate),
        2 => (any::<u16>(), prop_oneof![
            Just("{".to_string()), Just("}".to_string()), Just("(".to_string()), Just(")".to_string()), Just("[".to_string()),
            Just("]".to_string()), Just("\"".to_string()), Just("$".to_string()), Just(":".to_string()), Just(",".to_string()),
            Just("->".to_string()), Just("\\".to_string()), Just("//".to_string()), Just("\u{0}".to_string()), Just("null".to_string()),
            Just("@deprecated".to_string()), Just(".".to_string()), Just("$.".to_string()), Just("'".to_string()), Just("-".to_string()),
            "\\PC{0,6}",
        ]).prop_map(|(a, s)| Mutation::Insert(a, s)),
        1 => (any::<u16>(), any::<u8>(), any::<u8>()).prop_map(|(a, b, c)| Mutation::Nest(a, b, c)),
    ]
}

fn text_item_strategy() -> impl Strategy<Value = TextItem> {
    (
        prop_oneof![2 => Just(0u8), 4 => Just(1u8), 3 => Just(2u8), 1 => Just(3u8), 1 => Just(4u8)],
        prop::collection::vec(any::<u8>(), 0..160),
        prop_oneof![4 => Just(Vec::new()).boxed(), 5 => prop::collection::vec(mutation_strategy(), 1..4).boxed()],
        prop::option::weighted(0.08, prop_oneof!["\\PC{0,40}", "[ -~\\n]{0,60}", "(query|mutate|delete)? ?\\{[ -~]{0,40}\\}"]),
        any::<u8>(),
    )
        .prop_map(|(target, dna, muts, raw, salt)| TextItem { target, dna, muts, raw, salt })
}

fn texts_strategy(n: usize) -> impl Strategy<Value = Case> {
    (model_strategy(3, 5), prop::collection::vec(text_item_strategy(), 1..=n)).prop_map(|(model, items)| Case::Texts(TextsCase { model, items }))
}

fn requests_strategy(n: usize, instance_share: f64) -> impl Strategy<Value = Case> {
    (model_strategy(3, 6), prop::collection::vec(req_strategy(), 1..=n), prop::bool::weighted(instance_share))
        .prop_map(|(model, reqs, via_instance)| Case::Requests(ReqCase { model, reqs, via_instance }))
}

fn instance_strategy(n: usize) -> impl Strategy<Value = Case> {
    prop::collection::vec(inst::step_strategy(), 1..=n).prop_map(Case::Instance)
}

fn bomb_strategy() -> impl Strategy<Value = Case> {
    prop_oneof![
        3 => (1u32..40).prop_map(|depth| BombCase { target: 1, shape: 0, depth }),
        1 => (1u8..3, 0u8..4, 1u32..3000).prop_map(|(target, shape, depth)| BombCase { target, shape, depth }),
    ]
    .prop_map(Case::Bomb)
}

fn pull_strategy() -> impl Strategy<Value = Case> {
    prop::collection::vec(inst::answer_plan_strategy(), 1..14).prop_map(Case::Pull)
}

// ---------------------------------------------------------------------------------------------
// grammars
// ---------------------------------------------------------------------------------------------

struct Grammars {
    model: Grammar,
    query: Grammar,
    mutation: Grammar,
    deletion: Grammar,
}

fn grammars() -> &'static Grammars {
    static G: std::sync::OnceLock<Grammars> = std::sync::OnceLock::new();
    G.get_or_init(|| Grammars {
        model: Grammar::load("data_model.pest").expect("data_model.pest"),
        query: Grammar::load("query.pest").expect("query.pest"),
        mutation: Grammar::load("mutation.pest").expect("mutation.pest"),
        deletion: Grammar::load("deletion.pest").expect("deletion.pest"),
    })
}

fn pools_for(model: &RModel) -> Pools {
    let mut p = Pools::default();
    for e in &model.ents {
        p.entities.push(e.full_name.clone());
        for f in &e.fields {
            if !p.fields.contains(&f.name) {
                p.fields.push(f.name.clone());
            }
        }
    }
    p.entities.push("zzprobe.P".into());
    p.entities.push("sys.Room".into());
    p.entities.push("sys.Peer".into());
    for s in ["id", "room_id", "cdate", "mdate", "sys_room", "sys_peer", "verifying_key", "_signature", "name", "n"] {
        p.fields.push(s.to_string());
    }
    for s in KEYWORDS.iter().chain(DIGIT_FIRST.iter()).chain(UNICODE.iter()) {
        p.odd.push(s.to_string());
    }
    p.odd.push("L".to_string() + &"o".repeat(300));
    p.odd.push("_x".to_string());
    p.odd.push("Integer".to_string());
    p.odd.push("json".to_string());
    for s in ["v1", "id", "name", "x", "select", "1", "é"] {
        p.variables.push(s.to_string());
    }
    p
}

/// a JSON text for `Parameters::from_json`, driven by dna
fn params_json_tokens(dna: &[u8]) -> Vec<String> {
    let mut t: Vec<String> = vec!["{".into()];
    let keys = ["name", "v1", "id", "n", "", "select", "é", "name"];
    let vals = [
        "null", "true", "false", "0", "-1", "1.5", "1e400", "9223372036854775807", "9223372036854775808", "18446744073709551616",
        "-9223372036854775809", "\"x\"", "\"\"", "\"emV0\"", "[1]", "{\"a\":1}", "\"\\u0000\"", "1E-400", "0.1e1", "NaN",
    ];
    let n = dna.first().copied().unwrap_or(0) as usize % 6;
    for i in 0..n {
        let k = dna.get(1 + 2 * i).copied().unwrap_or(0) as usize;
        let v = dna.get(2 + 2 * i).copied().unwrap_or(0) as usize;
        if i > 0 {
            t.push(",".into());
        }
        t.push(format!("\"{}\"", keys[k % keys.len()]));
        t.push(":".into());
        t.push(vals[v % vals.len()].to_string());
    }
    t.push("}".into());
    t
}

fn json_to_pvals(text: &str) -> Vec<(String, PVal)> {
    let mut out = Vec::new();
    if let Ok(serde_json::Value::Object(m)) = serde_json::from_str::<serde_json::Value>(text) {
        for (k, v) in m {
            let pv = match v {
                serde_json::Value::Null => PVal::Null,
                serde_json::Value::Bool(b) => PVal::Bool(b),
                serde_json::Value::Number(n) => {
                    if let Some(i) = n.as_i64() {
                        PVal::Int(i)
                    } else {
                        PVal::Float(n.as_f64().unwrap_or(0.0))
                    }
                }
                serde_json::Value::String(s) => PVal::Str(s),
                _ => continue,
            };
            out.push((k, pv));
        }
    }
    out
}

// ---------------------------------------------------------------------------------------------
// interpretation
// ---------------------------------------------------------------------------------------------

const FALLBACK_MODEL: &str = "{ Person { name: String, age: Integer nullable, data: Json nullable, pet: Pet nullable, friends: [Person] } Pet { name: String default \"rex\" } }";

fn panics_to_violations(o: &mut Outcome, stage: &str, detail: &str) -> usize {
    inst::report_panics(o, stage, detail)
}

fn short(s: &str) -> String {
    let n = if std::env::var("C14_LONG").is_ok() { 6000 } else { 600 };
    let t: String = s.chars().take(n).collect();
    t.replace('\n', "\\n")
}

fn run_texts(c: &TextsCase, o: &mut Outcome) {
    let g = grammars();
    let rmodel = resolve_model(&c.model);
    let _ = shared::take_panics();
    let mut world = match MemWorld::new(&rmodel.text, true) {
        Ok(w) => w,
        Err(out) => {
            panics_to_violations(o, "texts.model-setup", &short(&rmodel.text));
            if let Verdict::SqlErr(m) = &out.verdict {
                o.violation(classify_sql("model", m, &Default::default()), format!("{} | model: {}", short(m), short(&rmodel.text)));
            }
            o.label("texts:generated-model-refused");
            match MemWorld::new(FALLBACK_MODEL, true) {
                Ok(w) => w,
                Err(_) => {
                    o.discard = Some("fallback-model-refused".into());
                    return;
                }
            }
        }
    };
    let pools = pools_for(&rmodel);
    let mut passed = 0u64;
    let mut probe_k = 0u64;
    for item in &c.items {
        let (grammar, start, stage) = match item.target % 5 {
            0 => (Some(&g.model), "datamodel", "parse.model"),
            1 => (Some(&g.query), "query", "mem.query"),
            2 => (Some(&g.mutation), "mutation", "mem.mutate"),
            3 => (Some(&g.deletion), "deletion", "mem.delete"),
            _ => (None, "", "parse.params"),
        };
        let tokens = match grammar {
            Some(gr) => pest_gen::derive(gr, start, &item.dna, &pools),
            None => params_json_tokens(&item.dna),
        };
        let text = match &item.raw {
            Some(r) => r.clone(),
            None => pest_gen::apply_mutations(&tokens, &item.muts),
        };
        let derived_only = item.raw.is_none() && item.muts.is_empty();
        o.count("texts", 1);
        let mut passed_grammar = false;
        match item.target % 5 {
            0 => {
                let p = shared::parse_model_text(&text);
                passed_grammar = p.passed_grammar;
                if derived_only && !p.passed_grammar && !text.contains('\u{0}') {
                    o.count("derived_model_text_rejected_by_grammar", 1);
                }
                if p.accepted {
                    o.label("model-text:accepted");
                    // the statements generated for an accepted model must be accepted by the engine
                    match MemWorld::new(&text, false) {
                        Ok(_) => {}
                        Err(out) => {
                            if let Verdict::SqlErr(m) = &out.verdict {
                                o.violation(classify_sql("model", m, &facts_from_text(&text, "")), format!("{} | model: {}", short(m), short(&text)));
                            }
                        }
                    }
                }
            }
            4 => {
                let p = shared::parse_params_json(&text);
                passed_grammar = p.passed_grammar;
                if p.accepted {
                    o.label("params-json:accepted");
                    let pv = json_to_pvals(&text);
                    let out = world.query("query { zzprobe.P (name = $name, n = $n) { id name } }", &pv);
                    if let Verdict::SqlErr(m) = &out.verdict {
                        o.violation(classify_sql("query", m, &Default::default()), format!("{} | params {}", m, short(&text)));
                    }
                }
            }
            t => {
                let kind = ['q', 'm', 'd'][(t - 1) as usize];
                let vars = world.request_variables(kind, &text).unwrap_or_default();
                let params: Vec<(String, PVal)> = vars
                    .iter()
                    .enumerate()
                    .map(|(i, (n, ty, nullable))| (n.clone(), plausible_value(ty, *nullable, item.salt.wrapping_add((i * 37) as u8))))
                    .collect();
                let out = match kind {
                    'q' => world.query(&text, &params),
                    'm' => world.mutate(&text, &params),
                    _ => world.delete(&text, &params),
                };
                passed_grammar = out.passed_grammar;
                if derived_only && !out.passed_grammar && !text.contains('\u{0}') {
                    o.count("derived_request_text_rejected_by_grammar", 1);
                }
                match &out.verdict {
                    Verdict::SqlErr(m) => {
                        let facts = facts_from_text(&world.model_text, &text);
                        o.violation(classify_sql(stage.trim_start_matches("mem."), m, &facts), format!("{} | {} | model: {}", short(m), short(&text), short(&world.model_text)));
                    }
                    Verdict::Ok => o.label(format!("{}:executed", stage)),
                    Verdict::DataErr(_) => o.label("fts5-expression-error"),
                    Verdict::SemanticErr => o.label(format!("{}:semantic-err", stage)),
                    Verdict::ExecErr => o.label(format!("{}:exec-err", stage)),
                    _ => {}
                }
            }
        }
        if passed_grammar {
            passed += 1;
        }
        let n = panics_to_violations(o, stage, &format!("text: {}", short(&text)));
        if n == 0 && passed_grammar {
            probe_k += 1;
            if let Err(e) = world.probe(probe_k) {
                if panics_to_violations(o, &format!("{}+probe", stage), &short(&text)) == 0 {
                    o.violation(format!("probe-failed@{}", stage), format!("{} after {}", e, short(&text)));
                }
            } else {
                o.count("probes_ok", 1);
            }
        }
    }
    o.count("texts_passing_grammar", passed);
    o.nontrivial = passed > 0;
    if passed > 0 {
        o.label("texts:some-pass-grammar");
    }
}

fn run_requests(c: &ReqCase, ctx: &RunCtx, o: &mut Outcome) {
    let rmodel = resolve_model(&c.model);
    for e in &rmodel.excluded {
        o.count(&format!("excluded:{}", e), 1);
    }
    let _ = shared::take_panics();
    let mut world = match MemWorld::new(&rmodel.text, true) {
        Ok(w) => w,
        Err(out) => {
            panics_to_violations(o, "requests.model-setup", &short(&rmodel.text));
            match &out.verdict {
                Verdict::SqlErr(m) => o.violation(classify_sql("model", m, &Default::default()), format!("{} | model: {}", short(m), short(&rmodel.text))),
                _ => {
                    o.label("requests:generated-model-refused");
                    o.discard = Some(format!("model-refused:{}", out.error.unwrap_or_default().chars().take(60).collect::<String>()));
                }
            }
            return;
        }
    };
    let mut instance = if c.via_instance {
        match inst::World::start(ctx.case_dir("inst"), &rmodel.text) {
            Ok(w) => Some(w),
            Err(e) => {
                panics_to_violations(o, "requests.instance-start", &short(&rmodel.text));
                o.label("requests:instance-start-failed");
                o.count("instance_start_failed", 1);
                let _ = e;
                None
            }
        }
    } else {
        None
    };
    let mut rows_mem: Vec<String> = Vec::new();
    let mut rows_inst: Vec<String> = Vec::new();
    let mut parsed_any = false;
    let mut probe_k = 0;
    for req in &c.reqs {
        let r = render(req, &rmodel, c.model.avoid, &rows_mem, None);
        for e in &r.excluded {
            o.count(&format!("excluded:{}", e), 1);
        }
        for cmb in &r.combos {
            o.count(&format!("combo:{}", cmb), 1);
        }
        if r.odd_idents {
            o.label("req:odd-identifiers");
        }
        if r.dup_alias {
            o.label("req:duplicated-alias");
        }
        if r.empty_selection {
            o.label("req:empty-selection");
        }
        let stage = match r.kind {
            'q' => "mem.query",
            'm' => "mem.mutate",
            _ => "mem.delete",
        };
        let out = match r.kind {
            'q' => world.query(&r.text, &r.params),
            'm' => world.mutate(&r.text, &r.params),
            _ => world.delete(&r.text, &r.params),
        };
        let detail = format!("{} | params {:?} | model: {}", short(&r.text), r.params.iter().take(8).collect::<Vec<_>>(), short(&rmodel.text));
        o.count(&format!("structured_{}", stage), 1);
        match &out.verdict {
            Verdict::Ok => {
                parsed_any = true;
                o.label(format!("{}:executed", stage));
                o.count(&format!("structured_{}_executed", stage), 1);
                if r.kind == 'm' {
                    if let Some(res) = &out.result {
                        rows_mem.extend(ids_of_result(res));
                    }
                }
            }
            Verdict::SqlErr(m) => {
                parsed_any = true;
                let mut facts = r.facts.clone();
                facts.non_finite_float |= rmodel.has_inf_default;
                facts.quote_in_string_default |= rmodel.has_quote_default;
                o.violation(classify_sql(stage.trim_start_matches("mem."), m, &facts), format!("{} | {}", short(m), detail));
            }
            Verdict::DataErr(_) => {
                parsed_any = true;
                o.label("fts5-expression-error");
            }
            Verdict::ExecErr => {
                parsed_any = true;
                o.label(format!("{}:exec-err", stage));
            }
            Verdict::SemanticErr => o.label(format!("{}:semantic-err", stage)),
            Verdict::GrammarErr => o.label(format!("{}:grammar-err", stage)),
            Verdict::Panicked => {
                parsed_any |= out.passed_grammar;
            }
        }
        if std::env::var("C14_ERRSTATS").is_ok() {
            if let Some(e) = &out.error {
                let key: String = e.chars().filter(|c| !c.is_ascii_digit()).take(34).collect();
                o.count(&format!("zerr:{}:{}", r.kind, key.replace('\n', " ")), 1);
            }
        }
        let n = panics_to_violations(o, stage, &detail);
        if n == 0 {
            probe_k += 1;
            match world.probe(probe_k) {
                Ok(()) => o.count("probes_ok", 1),
                Err(e) => {
                    if panics_to_violations(o, &format!("{}+probe", stage), &detail) == 0 {
                        o.violation(format!("probe-failed@{}", stage), format!("{} after {}", e, detail));
                    }
                }
            }
        }
        // the same request through the public API of a running instance
        if let Some(w) = instance.as_mut() {
            let room = w.shared_room64.clone();
            let r = render(req, &rmodel, c.model.avoid, &rows_inst, Some(&room));
            let params_json = pvals_to_json(&r.params);
            let step = inst::Step::Api { kind: match r.kind { 'q' => 0, 'm' => 1, _ => 2 }, text: r.text.clone(), params: params_json };
            let before = o.violations.len();
            inst::run_steps(w, std::slice::from_ref(&step), o);
            if o.violations.len() == before && r.kind == 'm' {
                // collect the ids the instance created (for later updates and deletions)
                if let Ok(res) = w.rt.block_on(w.peer.query("query { zzprobe.P(first 1) { id } }", None)) {
                    let _ = res;
                }
            }
            let _ = &mut rows_inst;
        }
    }
    o.nontrivial = parsed_any;
}

fn pvals_to_json(p: &[(String, PVal)]) -> String {
    let mut m = serde_json::Map::new();
    for (k, v) in p {
        let jv = match v {
            PVal::Null => serde_json::Value::Null,
            PVal::Bool(b) => serde_json::Value::Bool(*b),
            PVal::Int(i) => serde_json::Value::from(*i),
            PVal::Float(f) => serde_json::Number::from_f64(*f).map(serde_json::Value::Number).unwrap_or(serde_json::Value::Null),
            PVal::Str(s) => serde_json::Value::String(s.clone()),
        };
        m.insert(k.clone(), jv);
    }
    serde_json::Value::Object(m).to_string()
}

fn run_instance(steps: &[inst::Step], ctx: &RunCtx, o: &mut Outcome) {
    let _ = shared::take_panics();
    let mut w = match inst::World::start(ctx.case_dir("inst"), inst::APP_MODEL) {
        Ok(w) => w,
        Err(e) => {
            o.discard = Some(format!("world-start:{}", e.chars().take(80).collect::<String>()));
            return;
        }
    };
    inst::run_steps(&mut w, steps, o);
    o.count("instance_restarts", w.restarts);
    o.nontrivial = o.counters.get("wire_queries_served").copied().unwrap_or(0) > 0
        || o.labels.iter().any(|l| l.starts_with("row:") || l.starts_with("invite:accepted") || l.starts_with("verify_hash"));
}

fn run_pull(plans: &[inst::AnswerPlan], ctx: &RunCtx, o: &mut Outcome) {
    use dv::world::*;
    let _ = shared::take_panics();
    // the server is a second real instance holding a room the puller is a user of
    begin_case(1);
    let mut w = match inst::World::start(ctx.case_dir("puller"), inst::APP_MODEL) {
        Ok(w) => w,
        Err(e) => {
            o.discard = Some(format!("world-start:{}", e.chars().take(80).collect::<String>()));
            return;
        }
    };
    let full_model = format!("{}\n{}", inst::APP_MODEL, shared::PROBE_MODEL);
    let server = match w.rt.block_on(Peer::start("c14-server", &full_model, ctx.case_dir("server"))) {
        Ok(p) => p,
        Err(e) => {
            o.discard = Some(format!("server-start:{}", e.chars().take(80).collect::<String>()));
            return;
        }
    };
    // the server creates the room (both are users), some rows, a deletion
    let puller_key = w.peer.key64();
    let setup: Result<[u8; 16], String> = w.rt.block_on(async {
        Clock::advance(1);
        let mut p = Parameters::new();
        p.add("admin", server.key64()).unwrap();
        p.add("u0", server.key64()).unwrap();
        p.add("u1", puller_key).unwrap();
        let res = server
            .mutate(
                "mutate { sys.Room{ admin: [{verif_key:$admin}] authorisations:[{ name:\"all\" rights:[{entity:\"*\" mutate_self:true mutate_all:true}] users:[{verif_key:$u0},{verif_key:$u1}] }] } }",
                Some(p),
            )
            .await?;
        let v: serde_json::Value = serde_json::from_str(&res).map_err(|e| e.to_string())?;
        let room64 = v["sys.Room"]["id"].as_str().ok_or("room id")?.to_string();
        Clock::advance(1);
        let mut p = Parameters::new();
        p.add("room", room64.clone()).unwrap();
        let res = server
            .mutate(
                "mutate { app.Item { room_id:$room name:\"root\" kids:[{name:\"k1\"},{name:\"k2\"}] } app.Note { room_id:$room text:\"note\" } }",
                Some(p),
            )
            .await?;
        let ids = ids_of_result(&res);
        Clock::advance(DAY);
        if let Some(last) = ids.last() {
            let mut p = Parameters::new();
            p.add("id", last.clone()).unwrap();
            let _ = server.delete("delete { app.Note { $id } }", Some(p)).await;
        }
        server.fence().await;
        server.recompute().await;
        Ok(uid_of(&room64))
    });
    let room = match setup {
        Ok(r) => r,
        Err(e) => {
            o.discard = Some(format!("server-setup:{}", e.chars().take(80).collect::<String>()));
            return;
        }
    };
    w.shared_room = room;
    inst::run_hostile_pull(&mut w, &server, plans, o);
    o.nontrivial = o.counters.get("hostile_queries_answered").copied().unwrap_or(0) >= 2;
}

// ---------------------------------------------------------------------------------------------
// nesting bombs: a child process parses the text on a thread with the stack of a service thread
// ---------------------------------------------------------------------------------------------

fn bomb_text(b: &BombCase) -> (String, &'static str) {
    let d = b.depth as usize;
    match (b.target % 5, b.shape % 4) {
        (0, _) => (format!("{{ A {{ {} g : A }} }}", (0..d).map(|i| format!("f{} : [A] , ", i)).collect::<String>()), "model:fields"),
        // references that must exist: the generated SQL repeats the sub query (selection + EXISTS)
        (1, 0) => (format!("query {{ Person {{ {} id {} }} }}", "friends {".repeat(d), "}".repeat(d)), "query:sub-entities"),
        (1, 1) => (format!("query {{ Person ({}) {{ id }} }}", "name = \"a\",".repeat(d.min(3000))), "query:filters"),
        (1, 2) => (format!("query {{ {} }}", (0..d.min(3000)).map(|i| format!("a{} : Person {{ id }} ", i)).collect::<String>()), "query:entities"),
        // nullable references: the generated SQL grows linearly with the depth
        (1, _) => (format!("query {{ Person {{ {} id {} }} }}", "pet { owner {".repeat(d / 2 + 1), "}}".repeat(d / 2 + 1)), "query:nullable-sub-entities"),
        (2, 0) => (
            format!("mutate {{ Person {{ name: \"x\" {} {} }} }}", "pet : { name:\"p\" owner: { name:\"o\" ".repeat(d / 2 + 1), "}}".repeat(d / 2 + 1)),
            "mutate:entity-refs",
        ),
        (2, 1) => (format!("mutate {{ Person {{ name: \"x\" {} {} }} }}", "friends: [{ name:\"f\" ".repeat(d), "}]".repeat(d)), "mutate:arrays"),
        (2, 2) => (format!("mutate {{ Person {{ name: \"{}\" }} }}", "\\\\".repeat(d)), "mutate:long-string"),
        (2, _) => (format!("mutate {{ {} }}", (0..d.min(3000)).map(|i| format!("a{} : Pet {{ name:\"p\" }} ", i)).collect::<String>()), "mutate:entities"),
        (3, _) => (format!("delete {{ Person {{ $id friends[{}$x] }} }}", "$a,".repeat(d)), "delete:ids"),
        (_, _) => (format!("{{\"a\":{}1{}}}", "[".repeat(d), "]".repeat(d)), "params:arrays"),
    }
}

const BOMB_MODEL: &str = "{ Person { name: String, pet: Pet nullable, friends: [Person] } Pet { name: String, owner: Person nullable } }";

/// child mode: reads `target shape depth` from the environment, parses, prints the verdict
fn bomb_child() -> ! {
    let spec = std::env::var("C14_BOMB").unwrap_or_default();
    let mut it = spec.split(',').map(|s| s.parse::<u32>().unwrap_or(0));
    let b = BombCase { target: it.next().unwrap_or(0) as u8, shape: it.next().unwrap_or(0) as u8, depth: it.next().unwrap_or(1) };
    let (text, _) = bomb_text(&b);
    shared::install_hook();
    // service threads and tokio workers run with a 2 MiB stack
    let h = std::thread::Builder::new()
        .name("bomb".into())
        .stack_size(2 * 1024 * 1024)
        .spawn(move || {
            let mut w = MemWorld::new(BOMB_MODEL, true).expect("bomb model");
            let verdict = match b.target % 5 {
                0 => format!("{:?}", shared::parse_model_text(&text)),
                1 => format!("{:?}", w.query(&text, &[]).verdict),
                2 => format!("{:?}", w.mutate(&text, &[]).verdict),
                3 => format!("{:?}", w.delete(&text, &[("id".into(), PVal::Str("AAAAAAAAAAAAAAAAAAAAAA".into()))]).verdict),
                _ => format!("{:?}", shared::parse_params_json(&text)),
            };
            verdict.chars().take(120).collect::<String>()
        })
        .unwrap();
    match h.join() {
        Ok(v) => {
            let ps = shared::take_panics();
            if let Some(p) = ps.first() {
                println!("PANIC {}", shared::panic_key(p));
            } else {
                println!("DONE {}", v);
            }
            std::process::exit(0)
        }
        Err(_) => {
            println!("PANIC thread");
            std::process::exit(0)
        }
    }
}

fn run_bomb(b: &BombCase, o: &mut Outcome) {
    let (text, shape) = bomb_text(b);
    o.count("bomb_bytes", text.len() as u64);
    let exe = std::env::current_exe().unwrap();
    // the child gets 3 GB of address space and 20 s: a text of a few hundred bytes that needs
    // more is reported as resource exhaustion
    let child = std::process::Command::new("sh")
        .arg("-c")
        .arg("ulimit -v 3000000; exec \"$0\"")
        .arg(&exe)
        .env("C14_BOMB", format!("{},{},{}", b.target, b.shape, b.depth))
        .stdout(std::process::Stdio::piped())
        .stderr(std::process::Stdio::piped())
        .spawn();
    let mut child = match child {
        Ok(c) => c,
        Err(e) => {
            o.discard = Some(format!("bomb-spawn:{}", e));
            return;
        }
    };
    let start = std::time::Instant::now();
    let mut timed_out = false;
    loop {
        match child.try_wait() {
            Ok(Some(_)) => break,
            Ok(None) => {
                if start.elapsed() > std::time::Duration::from_secs(20) {
                    timed_out = true;
                    let _ = child.kill();
                    break;
                }
                std::thread::sleep(std::time::Duration::from_millis(20));
            }
            Err(_) => break,
        }
    }
    let out = match child.wait_with_output() {
        Ok(o) => o,
        Err(e) => {
            o.discard = Some(format!("bomb-wait:{}", e));
            return;
        }
    };
    let stdout = String::from_utf8_lossy(&out.stdout).to_string();
    let stderr = String::from_utf8_lossy(&out.stderr).to_string();
    if timed_out || stderr.contains("memory allocation") {
        o.violation(
            format!("resource-exhaustion@bomb.{}", shape),
            format!(
                "a {} byte text (nesting depth {}) {} : {}",
                text.len(),
                b.depth,
                if timed_out { "was not answered within 20 s" } else { "needed more than 3 GB" },
                short(&text)
            ),
        );
        o.nontrivial = true;
        return;
    }
    if out.status.success() {
        if let Some(rest) = stdout.strip_prefix("PANIC ") {
            o.violation(format!("panic:{}@local-text", rest.trim()), format!("{} depth {} ({} bytes)", shape, b.depth, text.len()));
        } else if let Some(i) = stdout.find("SqlErr(\"") {
            let msg = stdout[i + 8..].trim_end().trim_end_matches(')').trim_end_matches('"').to_string();
            o.violation(
                classify_sql(shape.split(':').next().unwrap_or("query"), &msg, &Default::default()),
                format!("{} | a {} byte text (depth {}): {}", msg, text.len(), b.depth, short(&text)),
            );
            o.nontrivial = true;
        } else {
            o.label(format!("bomb:{}:survived", shape));
            if stdout.contains("Ok") || stdout.contains("SemanticErr") || stdout.contains("ExecErr") || stdout.contains("passed_grammar: true") {
                o.nontrivial = true;
            }
        }
    } else {
        let overflow = stderr.contains("overflowed its stack");
        o.violation(
            format!("crash:{}@{}-parser", if overflow { "stack-overflow" } else { "abnormal-exit" }, shape.split(':').next().unwrap_or("?")),
            format!("the process parsing a {} byte text (nesting depth {}) ended with {:?}: {}", text.len(), b.depth, out.status, short(&stderr)),
        );
        o.nontrivial = true;
    }
}

// ---------------------------------------------------------------------------------------------
// the property
// ---------------------------------------------------------------------------------------------

struct C14;
impl Property for C14 {
    type Case = Case;
    const ID: &'static str = "C14";

    fn plan(tier: Tier) -> Plan {
        match tier {
            Tier::Quick => Plan { shards: 16, cases_per_shard: 260, max_shrink_iters: 300 },
            Tier::Thorough => Plan { shards: 16, cases_per_shard: 6000, max_shrink_iters: 600 },
        }
    }

    fn strategy(tier: Tier) -> BoxedStrategy<Case> {
        match tier {
            Tier::Quick => prop_oneof![
                40 => texts_strategy(60),
                36 => requests_strategy(8, 0.06),
                18 => instance_strategy(8),
                6 => pull_strategy(),
                2 => bomb_strategy(),
            ]
            .boxed(),
            Tier::Thorough => prop_oneof![
                40 => texts_strategy(120),
                36 => requests_strategy(14, 0.06),
                18 => instance_strategy(16),
                6 => pull_strategy(),
                1 => bomb_strategy(),
            ]
            .boxed(),
        }
    }

    fn fixed_cases(tier: Tier) -> Vec<Case> {
        let mut v = Vec::new();
        // every parameter kind for every field type and flavour, as a variable and as a literal,
        // in a mutation and in a filter
        let m = canonical_model();
        let kinds = [PKind::Null, PKind::Bool(true), PKind::Int(3), PKind::Float(1), PKind::Str(0), PKind::Str(4), PKind::Str(7), PKind::Str(9), PKind::Missing];
        for field in 0..18u16 {
            let fi = ((field as u32 * 65536 + 32768) / 20) as u16;
            let mut reqs = Vec::new();
            for k in kinds {
                for var in [true, false] {
                    let val = if var { Val::Var(k) } else { Val::Lit(k) };
                    reqs.push(Req::Mutate(MutReq {
                        name: None,
                        ents: vec![MutEnt { alias: None, ent: 0, id: IdSpec::None, complete: true, fields: vec![MutField { field: fi, val, sub: vec![], sub_id: IdSpec::None, count: 0 }] }],
                    }));
                    reqs.push(Req::Query(QueryReq {
                        name: None,
                        ents: vec![QEnt {
                            alias: None,
                            ent: 0,
                            params: vec![QParam::Filter { target: ((field as u32 * 65536 + 32768) / 24) as u16, op: 0, val }],
                            fields: vec![QField::Scalar { field: ((field as u32 * 65536 + 32768) / 25) as u16, alias: None }],
                        }],
                    }));
                }
            }
            v.push(Case::Requests(ReqCase { model: m.clone(), reqs, via_instance: false }));
        }
        // nesting bombs: depths around what a 2 MiB stack takes
        let depths: &[u32] = match tier {
            Tier::Quick => &[12, 24, 64, 1000, 20000],
            Tier::Thorough => &[12, 24, 40, 64, 300, 1000, 3000, 8000, 20000, 60000],
        };
        for target in 0..5u8 {
            for shape in 0..4u8 {
                if (target == 0 || target == 3 || target == 4) && shape > 0 {
                    continue;
                }
                if target == 1 && shape == 0 {
                    // exponential: only small depths are interesting (see bomb_strategy)
                    continue;
                }
                for d in depths {
                    v.push(Case::Bomb(BombCase { target, shape, depth: *d }));
                }
            }
        }
        if tier == Tier::Thorough {
            for target in ["parse_texts", "wire_decode"] {
                v.push(Case::Fuzz(FuzzCase { target: target.to_string(), seconds: 240, seeded: true }));
                v.push(Case::Fuzz(FuzzCase { target: target.to_string(), seconds: 120, seeded: false }));
            }
        }
        v
    }

    fn run(case: &Case, ctx: &RunCtx) -> Outcome {
        shared::install_hook();
        if std::env::var("DV_TRACE").is_ok() {
            shared::VERBOSE.store(true, std::sync::atomic::Ordering::Relaxed);
        }
        let mut o = Outcome::default();
        match case {
            Case::Texts(c) => {
                o.label("kind:texts");
                run_texts(c, &mut o)
            }
            Case::Requests(c) => {
                o.label(if c.via_instance { "kind:requests+instance" } else { "kind:requests" });
                run_requests(c, ctx, &mut o)
            }
            Case::Instance(steps) => {
                o.label("kind:instance");
                run_instance(steps, ctx, &mut o)
            }
            Case::Pull(plans) => {
                o.label("kind:hostile-pull");
                run_pull(plans, ctx, &mut o)
            }
            Case::Bomb(b) => {
                o.label("kind:bomb");
                run_bomb(b, &mut o)
            }
            Case::Fuzz(f) => {
                o.label("kind:fuzz");
                fuzzrun::run_fuzz(f, ctx, &mut o)
            }
            Case::Artifact { target, hex } => {
                o.label("kind:fuzz-artifact");
                fuzzrun::run_artifact(target, &fuzzrun::unhex(hex), &mut o)
            }
        }
        // anything recorded and not attributed yet
        panics_to_violations(&mut o, "unattributed", "");
        o
    }

    fn rule() -> String {
        "cases are batches of texts derived from the four .pest grammars of the repository (choices driven by generated bytes, identifiers drawn from the generated model, SQL keywords, digit-first, Unicode and long names), mutated at token and byte level, or raw; generated models with structurally valid but odd requests (every parameter kind per field type and flavour, odd identifiers, duplicated aliases, empty selections) executed on the in-memory path and, for a sample, through a running instance; wire queries (structured then damaged, or raw bytes), rows with good/empty/short/long/wrong-type keys and signatures, invitation bytes and signature checks against a running instance, each followed by the fixed probe; the real synchronisation code against a server whose answers are rewritten; nested texts parsed in a child process. Non-trivial = at least one text of the batch passes the pest grammar / one request is valid for grammar and model / one wire value decodes and is served / the pull exchanged at least two queries".to_string()
    }

    fn assumptions() -> Vec<String> {
        vec![
            "the frame readers of network/endpoint.rs (length prefixed reads on QUIC streams) and PeerManager::accept_invite (needs a QUIC endpoint) are not reachable in-process; the decoded values they hand over (QueryProtocol, Answer, Invite) are".into(),
            "engine errors raised by a full text search expression (the argument of search()) are counted, not reported: the statement was accepted, the expression is data".into(),
            "a probe or step that times out without a recorded panic discards the case (probe-timeout)".into(),
            "arithmetic overflow panics exist only with overflow checks (debug builds); they are reported like any panic".into(),
        ]
    }

    fn extra_coverage(_tier: Tier, merged: &Merged) -> BTreeMap<String, serde_json::Value> {
        let mut m = BTreeMap::new();
        let combos: Vec<&String> = merged.counters.keys().filter(|k| k.starts_with("combo:")).collect();
        m.insert("parameter_combinations_seen".to_string(), serde_json::json!(combos.len()));
        m
    }
}

fn main() {
    if std::env::var("C14_BOMB").is_ok() {
        bomb_child();
    }
    main_for::<C14>()
}
